#!/usr/bin/env python3
"""Writes /verif/MANIFEST.json from the table below (kept in one place so that it stays valid)."""
import json, os, sys
ROOT = os.path.dirname(os.path.dirname(os.path.abspath(__file__)))

CHECKS = {
 "C15": dict(engine="base_harness", category="exploration", design="DESIGN.md §2 C15",
   technique="exhaustive enumeration of all 2^32 inputs against an independent calendar oracle (rayon)",
   text="Every one of the 2^32 values is converted by the real DateTime::try_from and compared with an independent proleptic-Gregorian calendar (days-from-civil); accepted values are also checked for as_int identity and every accessor. Exhaustive in both tiers, so for this property the exploration is complete.",
   note="Trusts the 40-line calendar oracle (self-checked on fixed dates), rustc, and that DateTime is reached through TryFrom<u32>/as_int/accessors."),
 "C20": dict(engine="base_harness", category="exploration", design="DESIGN.md §2 C20",
   technique="proptest with constructed near-face points against an f64 geometric oracle; all table triggers probed through verify_trigger",
   text="Generated boxes/circles with player points constructed in the box frame (faces, edges, corners, oblique yaw) and every trigger of the three expansions' tables are judged against an f64 oracle of the documented definition; points within a stated float tolerance of a face are counted, not judged. Sampling, not proof: a defect confined to a region the placement classes do not reach could be missed.",
   note="Trusts the f64 oracle, the boundary tolerance 1e-4*scale, proptest's generators and shrinking."),
}

PENDING = {}

def main():
    props = [json.loads(l) for l in open(os.path.join(ROOT, "properties.jsonl"))]
    ids = [p["id"] for p in props]
    checks = []
    for pid in ids:
        if pid not in CHECKS: continue
        c = CHECKS[pid]
        checks.append({
            "property_id": pid,
            "quick_cmd": f"./check {pid} quick",
            "thorough_cmd": f"./check {pid} thorough",
            "evidence_file": f"/verif/evidence/{pid}.json",
            "replay_cmd_template": f"./check {pid} --replay {{path}}",
            "engine": c["engine"],
            "level_claimed": {"category": c["category"], "text": c["text"], "design_ref": c["design"]},
            "level_note": c["note"],
            "technique": c["technique"],
        })
    na = [{"property_id": pid, "reason": PENDING.get(pid, "check not built yet in this revision of /verif (planned, see DESIGN.md §6); not claimed until it is both sensitive and silent on the unchanged tree")} for pid in ids if pid not in CHECKS]
    hooks = json.load(open(os.path.join(ROOT, "tools", "hooks.json")))
    m = {
        "version": 1,
        "setup_cmd": "./check --setup",
        "hooks": hooks,
        "engines": [
            {"name": "base_harness", "path": "harness/base_harness", "serves_properties": ["C15", "C20"], "kind_free_text": "Rust binary linking /repo/wow_world_base; exhaustive sweep (C15) and proptest search (C20)"},
            {"name": "wowm_model", "path": "harness/model", "serves_properties": [], "kind_free_text": "independent reading of the wowm language: parser, resolver, tape-driven encoder with trace, size analysis"},
        ],
        "checks": checks,
        "notes": "All checks: property-based testing / fuzzing (generated-input search against an explicit oracle). ./check <ID> <tier> rebuilds the harness from /repo's working tree with cargo (offline) and runs it; VERIF_SEED selects the proptest seed. Exit 2 = infrastructure problem or inconclusive, never a violation. known_findings.txt lists recorded findings and repaired defects.",
        "not_applicable": na,
    }
    json.dump(m, open(os.path.join(ROOT, "MANIFEST.json"), "w"), indent=1)
    print("wrote MANIFEST.json with", len(checks), "checks,", len(na), "not claimed")

main()
