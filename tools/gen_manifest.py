#!/usr/bin/env python3
"""Writes /verif/MANIFEST.json from the table below (kept in one place so that it stays valid)."""
import json, os, sys
ROOT = os.path.dirname(os.path.dirname(os.path.abspath(__file__)))

CHECKS = {
 "C15": dict(engine="base_harness", category="exploration", design="DESIGN.md §2 C15",
   technique="exhaustive enumeration of all 2^32 inputs against an independent calendar oracle (rayon)",
   text="Every one of the 2^32 values is converted by the real DateTime::try_from and compared with an independent proleptic-Gregorian calendar (days-from-civil); accepted values are also checked for as_int identity and every accessor. Exhaustive in both tiers, so for this property the exploration is complete.",
   note="Trusts the 40-line calendar oracle (self-checked on fixed dates), rustc, and that DateTime is reached through TryFrom<u32>/as_int/accessors."),
 "C20": dict(engine="base_harness", category="exploration", design="DESIGN.md §2 C20",
   technique="proptest with constructed near-face points against an f64 geometric oracle; all table triggers probed through verify_trigger",
   text="Generated boxes/circles with player points constructed in the box frame (faces, edges, corners, oblique yaw) and every trigger of the three expansions' tables (ids and shapes read from the published triggers.rs data files, not asked from the lookup: every listed id must resolve to its listed shape, unlisted ids must not) are judged against an f64 oracle of the documented definition; points within a stated float tolerance of a face are counted, not judged, except points that differ from a circle's centre in one coordinate by exactly the radius (decidable without tolerance: not inside), which are generated and swept for every table circle. Sampling, not proof: a defect confined to a region the placement classes do not reach could be missed.",
   note="Trusts the f64 oracle, the boundary tolerance 1e-4*scale, proptest's generators and shrinking."),
}


CODEC_NOTE = "Trusts the independent wowm model (harness/model: parser, resolver, tape-driven encoder/decoder, validated by reproducing all 229 test-vector decodings of the corpus), proptest, the Debug-output parser, and for aborts the worker supervisor. Canonical domain per DESIGN.md 1.10. Known findings are excluded by construction and re-confirmed by probes."
CHECKS.update({
 "C01": dict(engine="codec_harness", category="exploration", design="DESIGN.md §2 C01",
   technique="model-based PBT: directed enumeration of every decision site + proptest choice tapes through an independent wowm encoder; round-trip and decoded-value oracle; isolated workers",
   text="For every (message, expansion | login version, direction) derived from the wowm sources, canonical encodings produced by an independent model are fed to the public opcode-enum readers; the oracle demands acceptance, exact consumption, byte-identical re-encoding (compressed: same members/payload and a fixed point) and equality of decoded field values with what the model wrote. Directed enumeration starts from the extremal encoding (every flag, optional member and mask bit present at once, then each enumerator under it) and visits every alternative of every control decision the encodings reveal; proptest tapes cover combinations. Sampling over values and combinations, exhaustive over single-site alternatives.",
   note=CODEC_NOTE),
 "C02": dict(engine="codec_harness", category="exploration", design="DESIGN.md §2 C02",
   technique="PBT over message values, body-length sweeps around header boundaries and proptest-generated message streams; header oracle from the protocol description; counting readers",
   text="Checks the header every writer emits (opcode, size field, 2/3-byte form) for all encodings of the directed enumeration, sweeps body lengths around 0x7FFF / 0xFFFF / 0x7FFFFF through decode+write, direct writes and (for lengths up to 64 KiB) the encrypting writers read back by the peer's decrypting reader, verifies reader position after Ok and after errors, and reads proptest-generated concatenations of written messages through the opcode-enum readers (blocking on the whole stream, tokio and async-std with the transport handing out pieces cut inside and right after each header) and the typed expect_* helpers (sync, tokio, async-std).",
   note=CODEC_NOTE + " Typed helpers are exercised for a fixed representative set of 29 message types per expansion."),
 "C03": dict(engine="codec_harness", category="fault_enumeration", design="DESIGN.md §2 C03",
   technique="structured fault injection from the model's trace + random frames (proptest), each case in an isolated worker process under RLIMIT_AS and a watchdog",
   text="Every message's valid encodings are corrupted field by field (truncations, count/length/size extremes, out-of-range enum/bool/flag/mask/date patterns, string damage (invalid UTF-8, unterminated, 255..300 bytes around the readers' cut-off with the body cut after each of the next fields), inconsistent headers, zlib damage and bombs) and fed, with random bodies, an exhaustive per-endpoint header sweep (every small / boundary size in the 2-byte and 3-byte form x defined / undefined opcode x tails x truncations) and raw byte strings, to the public readers (800 / 8000 directed encodings per message in the quick / thorough tier) inside worker processes whose address space is limited to 1.5 GiB beyond their footprint at the time of the call; any panic, abort, allocation failure or stack overflow is a violation, a watchdog hit is inconclusive.",
   note=CODEC_NOTE + " Overflow checks are on in the harness build. Hangs shorter than the watchdog and memory growth below the budget are not detected."),
 "C04": dict(engine="codec_harness", category="fault_enumeration", design="DESIGN.md §2 C04",
   technique="enumeration of fault sites from the wowm model (every enum leaf x undeclared values incl. width aliases; every constant-size message x every wrong length; exhaustive opcode space) with a metamorphic oracle",
   text="Each enum-typed leaf of every message is given undeclared values at its full wire width (neighbours, extremes, gaps, aliases modulo 2^8/2^16/2^24, and once per message and enum every undeclared number in and 16 around the declared range plus the decimal/hexadecimal confusions of each declared value) and the decoder must return the Enum error reporting exactly that number; every constant-sized message is given every other body length up to size+4 and must be rejected; all 2^16 (server, client) and sampled 32-bit (client) and all 256 (login) opcodes the model does not define must give the unknown-opcode error with that number, defined ones must not.",
   note=CODEC_NOTE + " Enum leaves inside compressed regions are not mutated (counted in the evidence)."),
})


CHECKS.update({
 "C05": dict(engine="codec_harness", category="exploration", design="DESIGN.md §2 C05",
   technique="stateful PBT: proptest-generated session keys and message sequences through the encrypted writers and the peer's decrypting readers; differential against the plain stream",
   text="For each expansion and direction every message of the pool goes once through each of the three encrypted writers and the matching decrypting reader; then proptest draws a session key and a sequence of up to 16 written messages (all types, compressed ones, Wrath server bodies on both sides of the 2/3-byte boundary); the ciphertext must equal the plaintext outside the header byte ranges, the peer's read_encrypted (sync/tokio/async-std) and the typed expect_*_message_encryption helpers must return the plain reader's messages, a probe message after the sequence must still decrypt, and the three encrypted writers must emit identical bytes.",
   note=CODEC_NOTE + " wow_srp's header cipher is trusted as the definition of the encryption."),
 "C06": dict(engine="codec_harness", category="exploration", design="DESIGN.md §2 C06",
   technique="schedule-owning harness: scripted AsyncRead/AsyncWrite with chosen chunking and Pending counts, hand-rolled poll loop; exhaustive chunk compositions for short frames, proptest schedules beyond; differential against the blocking reader",
   text="Every login message (all protocol versions) and a spread of world messages are read by the tokio and async-std functions from a transport whose chunking and Pending pattern the harness chooses: all 2^(n-1) compositions for frames up to 12 bytes with 0/1 Pending per chunk, and single-byte, halved, field-splitting and proptest-drawn schedules for longer ones, on canonical and malformed inputs; the protocol-parameterised expect_*_message_protocol readers of the 15 collective families are driven the same way; results must equal the blocking reader's (value and consumption, or error kind), and the three writers must emit identical bytes through a sink accepting partial writes.",
   note=CODEC_NOTE + " Deterministic: no runtime, no timers. Real multi-threaded executors are out of scope of the property."),
 "C14": dict(engine="codec_harness", category="exploration", design="DESIGN.md §2 C14",
   technique="PBT with round-trip (lift/lower) and differential (protocol-parameterised API vs the version's own codec) oracles over model-generated encodings and their corruptions",
   text="For each of the 15 collective families and each protocol version the sources define, canonical encodings and ~60 corruptions each are decoded by the version's own codec and by expect_*_message_protocol; lifting then lowering must be the identity, the protocol API must give the lifted value and the version's own bytes (sync, tokio, async-std, also byte-by-byte), and malformed input must fail the same way on both paths. Corrupted inputs that the version's own codec accepts (undeclared flag bits) lie outside the canonical domain the property quantifies over: whether lift/lower keeps them is counted in the evidence, not judged.",
   note=CODEC_NOTE + " The version's own codec is the reference here (it is judged by C01)."),
})

TYPED_NOTE = "Trusts the independent wowm model, the build-script scanner that lists the generated public types (a type it misses is not checked; counts are in the evidence), proptest."
CHECKS.update({
 "C11": dict(engine="typed_harness", category="exploration", design="DESIGN.md §2 C11",
   technique="exhaustive sweep of every declared enumerator plus boundary/alias/random undeclared values (proptest) through every conversion of every generated enum, against the wowm model",
   text="For every generated enum type (world, base and login crates; found by scanning the generated sources) every declared enumerator is converted from its integer and its name in both directions and must agree with the wowm declaration; undeclared values (neighbours, width aliases, extremes, proptest draws) must be rejected by every TryFrom width, and as_int / Display / FromStr / Default must be mutually consistent.",
   note=TYPED_NOTE + " The enum-to-integer direction of the login crate's enums has no public API (as_int is crate-private there): a wrong value in it is visible only in message bytes and is C01's to catch."),
 "C12": dict(engine="typed_harness", category="exploration", design="DESIGN.md §2 C12",
   technique="algebraic-law PBT (proptest) over every stand-alone flag type: set/clear/get/is_empty/new/as_int/bit operators against an integer model; declared constants against the wowm model",
   text="For each generated stand-alone flag type every declared enumerator constant, predicate, setter and clearer is compared with the wowm declaration and with an integer model over all-zero, all-one, single-bit, multi-bit and proptest-drawn raw values; From/TryFrom of every width must preserve the value or fail.",
   note=TYPED_NOTE + " The 35 message-local flag structs are checked for the integer their 677 typed constructors produce, not for the full algebra."),
 "C13": dict(engine="typed_harness", category="exploration", design="DESIGN.md §2 C13",
   technique="model-based stateful PBT: exhaustive short and proptest-generated long histories of typed setter/getter/dirty operations on every update-mask kind against a sparse map model; wire image decoded by the independent wowm model; offsets from the published field table",
   text="Every generated accessor (1221 plain, 441 indexed slots, 21 kinds x 3 expansions) is set, read back and located on the wire at the offset the published update-mask table gives; the indexed SkillInfo / VisibleItem accessors are set with values whose members are pairwise distinct and the written words must be the byte layout of the wowm struct of that name and version; every inventory slot must be the GUID at words offset + 2 x slot of its table entry; accessor instances (plain, indexed slot, inventory slot) whose words overlap must not disturb each other's getter (two plain names for exactly the same words count as one field); histories of set / overwrite / header-dirty / serialise / re-read operations are run against a map model after each step, exhaustively to depth 4 on a reduced alphabet and by proptest beyond.",
   note=TYPED_NOTE + " The half-word order inside two-u16 fields is not prescribed by the table and either packing is accepted."),
})

GEN_NOTE = "Trusts the independent wowm model, rsync/scratch-tree plumbing, and that the generator binary built from /repo's working tree with --cfg wowm_verif (workspace-path hook only) behaves as the unhooked one. Scratch trees live under the system temp dir and are removed at exit."
CHECKS.update({
 "C08": dict(engine="gencheck", category="exploration", design="DESIGN.md §2 C08",
   technique="stateful PBT over generator-run histories on scratch trees: proptest-generated perturbations (delete / truncate / stale / extra / append) of generated artefacts followed by generator runs; metamorphic oracle (same input => same tree) and drift check against the committed tree",
   text="The real generator is run repeatedly on scratch copies: a fresh run must reproduce the committed artefacts byte for byte (files emptied in this checkout are compared between runs instead), a second run must change nothing, independent runs in different directories must agree, a run that reaches the tree through a symbolic link and a run on the tree moved below directories named like its own (src/wowm/.../wow_message_parser) must give the same tree, and after every proptest-generated history of perturbations of generated files one run must converge to the reference tree.",
   note=GEN_NOTE),
 "C16": dict(engine="gencheck", category="fault_enumeration", design="DESIGN.md §2 C16",
   technique="fault injection: per language rule, injection sites enumerated over the real corpus through the independent model's syntax tree, a seed-chosen stratified subset applied as single textual edits, real generator run on scratch trees; oracle = the rule's exit status and a diagnostic naming the file",
   text="30 rule variants (every rule of the statement, flag-with-signed-type and version-tags-overlap in addition, incl. a type missing for one of several versions and a version clash separated by another definition of the same name) are injected at sites spread over top level, struct members, if / else-if / else / optional bodies, tag_all files and paste_versions objects (10 sites per variant quick, 200 thorough out of 15-2200 candidates each); each must stop the generator with that rule's exit status; the unmodified tree must exit 0.",
   note=GEN_NOTE + " Each edit is constructed to break exactly one rule; sites whose type differs between the versions of a pasted object are skipped."),
})

CHECKS.update({
 "C09": dict(engine="gencheck", category="exploration", design="DESIGN.md §2 C09",
   technique="differential against an exact extremal-size analysis by the independent model (enumeration of every assignment of the tested definer variables), on the shipped corpus and on proptest-chosen batches of valid mutants of it (insert/retype/reorder members, resize arrays, add optional / else / else-if branches, change conditions, upcasts)",
   text="For every container and namespace the IR's minimum_size / maximum_size / constant_sized and the guard literal of the generated read_inner are compared with the true extremal lengths the model computes over the whole conditional structure; about 2,700 containers on the shipped tree and the same again on each mutant tree (6 trees x ~55 edits quick, 240 x ~75 thorough). A failing mutant batch is bisected to the single edit.",
   note=GEN_NOTE + " Exact for enum conditions; flag conditions enumerate all subsets of the tested bits (capped at 16 bits, counted). Lengths of compressed payloads are only bounded from below and not judged."),
 "C10": dict(engine="gencheck", category="exploration", design="DESIGN.md §2 C10",
   technique="RFC 8927 validator written from the RFC + field-by-field differential of the emitted IR against the independent model's reading of the wowm text, on the shipped corpus and on proptest-chosen batches of valid mutants (15 edit kinds) where the IR must follow the edit",
   text="The whole document is validated against the published JSON Typedef schema (additional properties rejected); object sets are compared per namespace in both directions; every object is compared fact by fact (about 400,000 facts on the shipped tree): kinds, opcodes, integer types, enumerators and values, member order and types, arrays, upcasts, constants, condition sets incl. != and else, optional blocks, tags, versions, comments, usage relation, positions, test vectors; the wowm objects embedded in the three update-mask tables are compared in full with the object of that name in the table's own expansion.",
   note=GEN_NOTE + " Derived fields (prepared_objects, only_has_io_error, end positions) are not compared; sizes are C09's."),
})

CHECKS.update({
 "C17": dict(engine="gencheck", category="exploration", design="DESIGN.md §2 C17",
   technique="interpreter for the C subset of the generated dissector fragment, run over canonical encodings from the independent wowm model (directed enumeration of every decision site + proptest tapes); oracle = leaf-by-leaf alignment with the model's trace and exact end of body; also on valid mutants of the corpus",
   text="Every Vanilla world message and login message that has a case in tests/wireshark/parser.txt (655 entries incl. both directions of MSG_* and every login protocol version) is interpreted over all encodings the directed enumeration and the proptest tapes produce (about 20,000 quick); each read must cover whole leaves of one member in definition order with its width and endianness, compressed members are followed into the inflated buffer, the walk must end exactly at the end of the body; every hf_ variable, constant and variable used must be declared / registered; messages without a case must have an empty body.",
   note=GEN_NOTE + " The hand-written helper functions of the real dissector (add_cstring, add_packed_guid, add_update_mask, ...) are modelled by their wire forms, not executed."),
 "C18": dict(engine="gencheck", category="exploration", design="DESIGN.md §2 C18",
   technique="round-trip: the wowm text embedded in every doc page section and every Rust doc comment is parsed back by the independent model's parser and compared with the source object; body tables and annotated examples are compared with the model's member order, sizes and its decoding of the test vector; also on valid mutants of the corpus",
   text="All 2,064 page sections and 2,057 Rust doc comments of a fresh generator run are parsed back and compared (name, kind, opcode, base type, enumerators and values, member order and types, constants, conditions, optional blocks; section versions against the object's versions; every object must have a section); 1,679 body tables are compared for member order and fixed sizes; 175 examples are re-assembled from their annotated byte groups and compared with the test vector and with the order in which the model decodes it.",
   note=GEN_NOTE + " The type column of body tables is not judged (upcasts are rendered without the cast); body tables are absent by design for nested ifs (counted)."),
})

CHECKS.update({
 "C07": dict(engine="gencheck", category="exploration", design="DESIGN.md §2 C07",
   technique="grammar-based program generation (proptest tape -> well-formed wowm message definitions over all language features of the world corpus), real generator + rustc on scratch trees, then round-trip of the compiled codec over canonical encodings that the independent model derives from the same text (directed enumeration of every decision site + tapes); hand-reduced directed cases reproduce each recorded finding",
   text="About 360 random definitions per quick run (96 x 80 thorough) (members of every builtin type, enums and flags with if / else-if / else, optional blocks, fixed / counted / endless arrays, auxiliary structs with and without counted arrays of their own) replace the bodies of Vanilla messages in six scratch trees; the generator must accept each tree, the generated crate must compile, and a probe through the public opcode enums must accept, fully consume and byte-identically re-encode every encoding (about 14,000 per quick run). A definition that stops the generator or the build is attributed (diagnostic, else bisection), reported, taken out, and the rest of the batch continues. Shapes covered by a recorded finding are steered around by construction (counted) and re-checked by 14 directed cases.",
   note=GEN_NOTE + " Only the Vanilla module with the sync flavour is compiled. No automatic shrinking of a failing definition beyond attribution: the replay file carries the tape and the text."),
 "C19": dict(engine="gencheck", category="exploration", design="DESIGN.md §2 C19",
   technique="combinatorial interaction testing of cargo features (seeded greedy strength-3 covering arrays, full powerset in the thorough tier) with cargo check, failing sets reduced feature by feature; plus a differential across feature configurations: one probe program compiled under several feature sets run on the same model-generated frames",
   text="cargo check of wow_login_messages under all 8 feature sets, of wow_world_base (8 features) and wow_world_messages (9 features incl. the optional dependencies) under sets in which every on/off combination of any three features occurs (16-20 sets each; thorough: the powerset); then the probe built with {vanilla sync}, {tbc tokio encryption}, {wrath async-std encryption}, a seed-drawn set and with every feature reads, re-writes and (with encryption) sends through an encrypted write/read cycle about 25,000 canonical, damaged and boundary-size frames (incl. count / length fields announcing 64 KiB - 8 MiB of elements and compressed payloads inflating to sizes around the allocation limits); the outputs are compared with the all-features build (values and bytes exactly, errors by variant and parse-error kind).",
   note=GEN_NOTE + " Warnings are allowed (the property speaks of errors). Interactions of four or more features are only covered in the thorough tier."),
})

PENDING = {}

def main():
    props = [json.loads(l) for l in open(os.path.join(ROOT, "properties.jsonl"))]
    ids = [p["id"] for p in props]
    checks = []
    for pid in ids:
        if pid not in CHECKS: continue
        c = CHECKS[pid]
        checks.append({
            "property_id": pid,
            "quick_cmd": f"./check {pid} quick",
            "thorough_cmd": f"./check {pid} thorough",
            "evidence_file": f"/verif/evidence/{pid}.json",
            "replay_cmd_template": f"./check {pid} --replay {{path}}",
            "engine": c["engine"],
            "level_claimed": {"category": c["category"], "text": c["text"], "design_ref": c["design"]},
            "level_note": c["note"],
            "technique": c["technique"],
        })
    na = [{"property_id": pid, "reason": PENDING.get(pid, "check not built yet in this revision of /verif (planned, see DESIGN.md §6); not claimed until it is both sensitive and silent on the unchanged tree")} for pid in ids if pid not in CHECKS]
    hooks = json.load(open(os.path.join(ROOT, "tools", "hooks.json")))
    m = {
        "version": 1,
        "setup_cmd": "./check --setup",
        "hooks": hooks,
        "engines": [
            {"name": "base_harness", "path": "harness/base_harness", "serves_properties": ["C15", "C20"], "kind_free_text": "Rust binary linking /repo/wow_world_base; exhaustive sweep (C15) and proptest search (C20)"},
            {"name": "wowm_model", "path": "harness/model", "serves_properties": ["C01", "C02", "C03", "C04", "C05", "C06", "C14"], "kind_free_text": "independent reading of the wowm language: parser, resolver, tape-driven encoder/decoder with trace, exact size analysis"},
            {"name": "codec_harness", "path": "harness/codec_harness", "serves_properties": ["C01", "C02", "C03", "C04", "C05", "C06", "C14"], "kind_free_text": "Rust binary linking /repo's three libraries with all features; generic endpoints over the public opcode enums, typed expect_* helpers, scripted async transport, isolated worker processes"},
            {"name": "typed_harness", "path": "harness/typed_harness", "serves_properties": ["C11", "C12", "C13"], "kind_free_text": "Rust binary linking /repo's libraries; build script scans the generated sources for public enum / flag / update-mask types and emits adapters; expected behaviour from the wowm model and the published update-mask table"},
            {"name": "gencheck", "path": "harness/gencheck", "serves_properties": ["C07", "C08", "C09", "C10", "C16", "C17", "C18", "C19"], "kind_free_text": "drives the real generator (built from /repo's working tree) on rsync'ed scratch trees: run histories, perturbations, fault injection into the wowm corpus"},
        ],
        "checks": checks,
        "notes": "All checks: property-based testing / fuzzing (generated-input search against an explicit oracle). ./check <ID> <tier> rebuilds the harness from /repo's working tree with cargo (offline) and runs it; VERIF_SEED selects the proptest seed. Exit 2 = infrastructure problem or inconclusive, never a violation. known_findings.txt lists recorded findings and repaired defects.",
        "not_applicable": na,
    }
    json.dump(m, open(os.path.join(ROOT, "MANIFEST.json"), "w"), indent=1)
    print("wrote MANIFEST.json with", len(checks), "checks,", len(na), "not claimed")

main()
