#!/usr/bin/env bash
# Maintainer helper: runs every quick check once on the current tree and prints one line per check.
cd "$(dirname "$0")/.."
for id in C01 C02 C03 C04 C05 C06 C07 C08 C09 C10 C11 C12 C13 C14 C15 C16 C17 C18 C19 C20; do
  out=$(./check $id quick 2>&1); rc=$?
  echo "$id rc=$rc $(echo "$out" | grep -E '^\[C' | tail -1)"
  echo "$out" | grep -E "^VIOLATION|INCONCLUSIVE" | head -5
done
