//! usage: feature_probe <frames file>; lines `<id> <ns> <dir> <hex>` -> one output line per input line
#![allow(unused_macros, unused_imports, dead_code, unreachable_code, unused_variables)]
use std::future::Future;
use std::pin::Pin;
use std::sync::Arc;
use std::task::{Context, Poll, Wake, Waker};

struct Noop;
impl Wake for Noop {
    fn wake(self: Arc<Self>) {}
}

fn block_on<F: Future>(f: F) -> F::Output {
    let w = Waker::from(Arc::new(Noop));
    let mut cx = Context::from_waker(&w);
    let mut f = Box::pin(f);
    for _ in 0..1_000_000 {
        if let Poll::Ready(v) = f.as_mut().poll(&mut cx) {
            return v;
        }
    }
    panic!("future never completed on an in-memory transport");
}

fn unhex(s: &str) -> Vec<u8> {
    (0..s.len() / 2).map(|i| u8::from_str_radix(&s[2 * i..2 * i + 2], 16).unwrap_or(0)).collect()
}
fn hex(b: &[u8]) -> String {
    b.iter().map(|x| format!("{:02x}", x)).collect()
}

fn flavor() -> &'static str {
    if cfg!(feature = "sync") {
        "sync"
    } else if cfg!(feature = "tokio") {
        "tokio"
    } else if cfg!(feature = "async-std") {
        "async-std"
    } else {
        "none"
    }
}

/// read one message from `bytes` with the first enabled flavour, write it back with the same flavour
macro_rules! world {
    ($Msg:ty, $w:ident, $tw:ident, $aw:ident, $bytes:expr) => {{
        let bytes: &[u8] = $bytes;
        let mut r = bytes;
        #[cfg(feature = "sync")]
        let res = <$Msg>::read_unencrypted(&mut r);
        #[cfg(all(not(feature = "sync"), feature = "tokio"))]
        let res = block_on(<$Msg>::tokio_read_unencrypted(&mut r));
        #[cfg(all(not(feature = "sync"), not(feature = "tokio"), feature = "async-std"))]
        let res = block_on(<$Msg>::astd_read_unencrypted(&mut r));
        #[cfg(any(feature = "sync", feature = "tokio", feature = "async-std"))]
        {
            match res {
                Err(e) => format!("ERR consumed={} {:?}", bytes.len() - r.len(), e),
                Ok(m) => {
                    let consumed = bytes.len() - r.len();
                    let mut v: Vec<u8> = Vec::new();
                    #[cfg(feature = "sync")]
                    let wr = m.$w(&mut v);
                    #[cfg(all(not(feature = "sync"), feature = "tokio"))]
                    let wr = block_on(m.$tw(&mut v));
                    #[cfg(all(not(feature = "sync"), not(feature = "tokio"), feature = "async-std"))]
                    let wr = block_on(m.$aw(&mut v));
                    format!("OK consumed={} write={:?} rewritten={} value={:?}", consumed, wr.map_err(|e| e.kind()), hex(&v), m)
                }
            }
        }
        #[cfg(not(any(feature = "sync", feature = "tokio", feature = "async-std")))]
        {
            String::from("NOIO")
        }
    }};
}


/// the frame written through the encrypting writer of its direction and read back through the peer's decrypting
/// reader, both of the first enabled flavour (only with the `encryption` feature)
macro_rules! world_enc {
    ($Msg:ty, $srp:ident, $writer:ident, $we:ident, $twe:ident, $awe:ident, $bytes:expr) => {{
        #[cfg(all(feature = "encryption", any(feature = "sync", feature = "tokio", feature = "async-std")))]
        {
            let bytes: &[u8] = $bytes;
            let mut r0 = bytes;
            #[cfg(feature = "sync")]
            let plain = <$Msg>::read_unencrypted(&mut r0);
            #[cfg(all(not(feature = "sync"), feature = "tokio"))]
            let plain = block_on(<$Msg>::tokio_read_unencrypted(&mut r0));
            #[cfg(all(not(feature = "sync"), not(feature = "tokio"), feature = "async-std"))]
            let plain = block_on(<$Msg>::astd_read_unencrypted(&mut r0));
            match plain {
                Err(_) => String::from(" enc=n/a"),
                Ok(m) => {
                    let user = wow_srp::normalized_string::NormalizedString::new("VERIF").unwrap();
                    let key = [0x21u8; 40];
                    let server_seed = wow_srp::$srp::ProofSeed::new();
                    let client_seed = wow_srp::$srp::ProofSeed::new();
                    let ss = server_seed.seed();
                    let cs = client_seed.seed();
                    let (proof, client) = client_seed.into_client_header_crypto(&user, key, ss);
                    let server = server_seed.into_server_header_crypto(&user, key, proof, cs).expect("proof");
                    let (mut client_enc, mut client_dec) = client.split();
                    let (mut server_enc, mut server_dec) = server.split();
                    let _ = (&mut client_enc, &mut client_dec, &mut server_enc, &mut server_dec);
                    let (enc, dec) = world_enc!(@halves $writer, client_enc, client_dec, server_enc, server_dec);
                    let mut v: Vec<u8> = Vec::new();
                    #[cfg(feature = "sync")]
                    let wr = m.$we(&mut v, enc);
                    #[cfg(all(not(feature = "sync"), feature = "tokio"))]
                    let wr = block_on(m.$twe(&mut v, enc));
                    #[cfg(all(not(feature = "sync"), not(feature = "tokio"), feature = "async-std"))]
                    let wr = block_on(m.$awe(&mut v, enc));
                    if wr.is_err() {
                        format!(" enc=write-error")
                    } else {
                        let mut r = &v[..];
                        #[cfg(feature = "sync")]
                        let back = <$Msg>::read_encrypted(&mut r, dec);
                        #[cfg(all(not(feature = "sync"), feature = "tokio"))]
                        let back = block_on(<$Msg>::tokio_read_encrypted(&mut r, dec));
                        #[cfg(all(not(feature = "sync"), not(feature = "tokio"), feature = "async-std"))]
                        let back = block_on(<$Msg>::astd_read_encrypted(&mut r, dec));
                        match back {
                            Ok(b) => format!(" enc=OK len={} left={} same={}", v.len(), r.len(), format!("{:?}", b) == format!("{:?}", m)),
                            Err(e) => format!(" enc=ERR {}", format!("{:?}", e).split(|c: char| c == '(' || c == '{' || c == ' ').next().unwrap_or("").to_string()),
                        }
                    }
                }
            }
        }
        #[cfg(not(all(feature = "encryption", any(feature = "sync", feature = "tokio", feature = "async-std"))))]
        {
            String::new()
        }
    }};
    (@halves client, $ce:ident, $cd:ident, $se:ident, $sd:ident) => {
        (&mut $ce, &mut $sd)
    };
    (@halves server, $ce:ident, $cd:ident, $se:ident, $sd:ident) => {
        (&mut $se, &mut $cd)
    };
}

macro_rules! login {
    ($Msg:ty, $bytes:expr) => {{
        let bytes: &[u8] = $bytes;
        let mut r = bytes;
        #[cfg(feature = "sync")]
        let res = <$Msg>::read(&mut r);
        #[cfg(all(not(feature = "sync"), feature = "tokio"))]
        let res = block_on(<$Msg>::tokio_read(&mut r));
        #[cfg(all(not(feature = "sync"), not(feature = "tokio"), feature = "async-std"))]
        let res = block_on(<$Msg>::astd_read(&mut r));
        #[cfg(any(feature = "sync", feature = "tokio", feature = "async-std"))]
        {
            match res {
                Err(e) => format!("ERR consumed={} {:?}", bytes.len() - r.len(), e),
                Ok(m) => format!("OK consumed={} value={:?}", bytes.len() - r.len(), m),
            }
        }
        #[cfg(not(any(feature = "sync", feature = "tokio", feature = "async-std")))]
        {
            String::from("NOIO")
        }
    }};
}

fn one(ns: &str, dir: &str, bytes: &[u8]) -> String {
    match (ns, dir) {
        #[cfg(feature = "vanilla")]
        ("vanilla", "server") => format!("{}{}", world!(wow_world_messages::vanilla::opcodes::ServerOpcodeMessage, write_unencrypted_server, tokio_write_unencrypted_server, astd_write_unencrypted_server, bytes), world_enc!(wow_world_messages::vanilla::opcodes::ServerOpcodeMessage, vanilla_header, server, write_encrypted_server, tokio_write_encrypted_server, astd_write_encrypted_server, bytes)),
        #[cfg(feature = "vanilla")]
        ("vanilla", "client") => format!("{}{}", world!(wow_world_messages::vanilla::opcodes::ClientOpcodeMessage, write_unencrypted_client, tokio_write_unencrypted_client, astd_write_unencrypted_client, bytes), world_enc!(wow_world_messages::vanilla::opcodes::ClientOpcodeMessage, vanilla_header, client, write_encrypted_client, tokio_write_encrypted_client, astd_write_encrypted_client, bytes)),
        #[cfg(feature = "tbc")]
        ("tbc", "server") => format!("{}{}", world!(wow_world_messages::tbc::opcodes::ServerOpcodeMessage, write_unencrypted_server, tokio_write_unencrypted_server, astd_write_unencrypted_server, bytes), world_enc!(wow_world_messages::tbc::opcodes::ServerOpcodeMessage, tbc_header, server, write_encrypted_server, tokio_write_encrypted_server, astd_write_encrypted_server, bytes)),
        #[cfg(feature = "tbc")]
        ("tbc", "client") => format!("{}{}", world!(wow_world_messages::tbc::opcodes::ClientOpcodeMessage, write_unencrypted_client, tokio_write_unencrypted_client, astd_write_unencrypted_client, bytes), world_enc!(wow_world_messages::tbc::opcodes::ClientOpcodeMessage, tbc_header, client, write_encrypted_client, tokio_write_encrypted_client, astd_write_encrypted_client, bytes)),
        #[cfg(feature = "wrath")]
        ("wrath", "server") => format!("{}{}", world!(wow_world_messages::wrath::opcodes::ServerOpcodeMessage, write_unencrypted_server, tokio_write_unencrypted_server, astd_write_unencrypted_server, bytes), world_enc!(wow_world_messages::wrath::opcodes::ServerOpcodeMessage, wrath_header, server, write_encrypted_server, tokio_write_encrypted_server, astd_write_encrypted_server, bytes)),
        #[cfg(feature = "wrath")]
        ("wrath", "client") => format!("{}{}", world!(wow_world_messages::wrath::opcodes::ClientOpcodeMessage, write_unencrypted_client, tokio_write_unencrypted_client, astd_write_unencrypted_client, bytes), world_enc!(wow_world_messages::wrath::opcodes::ClientOpcodeMessage, wrath_header, client, write_encrypted_client, tokio_write_encrypted_client, astd_write_encrypted_client, bytes)),
        ("login2", "server") => login!(wow_login_messages::version_2::opcodes::ServerOpcodeMessage, bytes),
        ("login2", "client") => login!(wow_login_messages::version_2::opcodes::ClientOpcodeMessage, bytes),
        ("login3", "server") => login!(wow_login_messages::version_3::opcodes::ServerOpcodeMessage, bytes),
        ("login3", "client") => login!(wow_login_messages::version_3::opcodes::ClientOpcodeMessage, bytes),
        ("login5", "server") => login!(wow_login_messages::version_5::opcodes::ServerOpcodeMessage, bytes),
        ("login5", "client") => login!(wow_login_messages::version_5::opcodes::ClientOpcodeMessage, bytes),
        ("login6", "server") => login!(wow_login_messages::version_6::opcodes::ServerOpcodeMessage, bytes),
        ("login6", "client") => login!(wow_login_messages::version_6::opcodes::ClientOpcodeMessage, bytes),
        ("login7", "server") => login!(wow_login_messages::version_7::opcodes::ServerOpcodeMessage, bytes),
        ("login7", "client") => login!(wow_login_messages::version_7::opcodes::ClientOpcodeMessage, bytes),
        ("login8", "server") => login!(wow_login_messages::version_8::opcodes::ServerOpcodeMessage, bytes),
        ("login8", "client") => login!(wow_login_messages::version_8::opcodes::ClientOpcodeMessage, bytes),
        _ => "SKIP".to_string(),
    }
}

fn main() {
    // the libraries' opcode dispatch functions have very large frames in unoptimised builds
    let t = std::thread::Builder::new().stack_size(256 << 20).spawn(real_main).expect("spawn");
    t.join().expect("probe thread");
}

fn real_main() {
    let path = std::env::args().nth(1).expect("frames file");
    let text = std::fs::read_to_string(&path).expect("read frames");
    std::panic::set_hook(Box::new(|_| {}));
    println!("# flavor={}", flavor());
    for line in text.lines() {
        let p: Vec<&str> = line.split_whitespace().collect();
        if p.len() < 4 {
            continue;
        }
        let bytes = unhex(p[3]);
        let (ns, dir) = (p[1].to_string(), p[2].to_string());
        let out = std::panic::catch_unwind(move || one(&ns, &dir, &bytes)).unwrap_or_else(|_| "PANIC".to_string());
        println!("{} {}", p[0], out);
    }
}
