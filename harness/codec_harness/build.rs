//! Generates the one piece of per-message glue the harness needs: the login opcode enums expose
//! public readers but no public writer, so writing a decoded login message back means matching on
//! the enum and calling the public `Message::write` of the concrete type. The match is generated
//! from the enum's variants as found in /repo's sources.
use std::fmt::Write as _;
use std::path::PathBuf;

fn variants(src: &str, enum_name: &str) -> Vec<(String, Option<String>)> {
    let start = src.find(&format!("pub enum {} {{", enum_name)).expect("enum not found");
    let body = &src[start..];
    let end = body.find("\n}").unwrap();
    let mut v = Vec::new();
    for line in body[..end].lines().skip(1) {
        let l = line.trim().trim_end_matches(',');
        if l.is_empty() || l.starts_with("//") || l.starts_with('#') {
            continue;
        }
        if let Some(p) = l.find('(') {
            let name = l[..p].to_string();
            let ty = l[p + 1..l.rfind(')').unwrap()].to_string();
            let ty = ty.trim_start_matches("Box<").trim_end_matches('>').to_string();
            v.push((name, Some(ty)));
        } else {
            v.push((l.to_string(), None));
        }
    }
    v
}

fn main() {
    let repo = PathBuf::from(std::env::var("VERIF_REPO").unwrap_or_else(|_| "/repo".into()));
    let mut out = String::new();
    for v in [2, 3, 5, 6, 7, 8] {
        let p = repo.join(format!("wow_login_messages/src/logon/version_{}/opcodes.rs", v));
        println!("cargo:rerun-if-changed={}", p.display());
        let src = std::fs::read_to_string(&p).expect("read opcodes.rs");
        writeln!(out, "pub mod login_v{} {{", v).unwrap();
        writeln!(out, "    #![allow(unused_imports, non_camel_case_types)]").unwrap();
        writeln!(out, "    use wow_login_messages::version_{}::*;", v).unwrap();
        writeln!(out, "    use wow_login_messages::all::*;").unwrap();
        writeln!(out, "    use wow_login_messages::Message;").unwrap();
        writeln!(out, "    pub use wow_login_messages::version_{}::opcodes::{{ClientOpcodeMessage, ServerOpcodeMessage}};", v).unwrap();
        for (en, f) in [("ClientOpcodeMessage", "client"), ("ServerOpcodeMessage", "server")] {
            let vs = variants(&src, en);
            for (kind, call) in [("write", ".write(w)"), ("tokio_write", ".tokio_write(w).await"), ("astd_write", ".astd_write(w).await")] {
                let (asyncness, bound) = match kind {
                    "write" => ("", "impl std::io::Write"),
                    "tokio_write" => ("async ", "impl tokio::io::AsyncWriteExt + Unpin + Send"),
                    _ => ("async ", "impl async_std::io::WriteExt + Unpin + Send"),
                };
                writeln!(out, "    pub {}fn {}_{}(m: &{}, w: {}) -> Result<(), std::io::Error> {{", asyncness, kind, f, en, bound).unwrap();
                writeln!(out, "        match m {{").unwrap();
                for (name, ty) in &vs {
                    match ty {
                        Some(_) => writeln!(out, "            {}::{}(e) => e{},", en, name, call).unwrap(),
                        None => writeln!(out, "            {}::{} => {} {{}}{},", en, name, name, call).unwrap(),
                    }
                }
                writeln!(out, "        }}\n    }}").unwrap();
            }
            // name of the variant, for reports
            writeln!(out, "    pub fn name_{}(m: &{}) -> &'static str {{\n        match m {{", f, en).unwrap();
            for (name, ty) in &vs {
                match ty {
                    Some(_) => writeln!(out, "            {}::{}(_) => \"{}\",", en, name, name).unwrap(),
                    None => writeln!(out, "            {}::{} => \"{}\",", en, name, name).unwrap(),
                }
            }
            writeln!(out, "        }}\n    }}").unwrap();
        }
        writeln!(out, "}}").unwrap();
    }
    let dst = PathBuf::from(std::env::var("OUT_DIR").unwrap()).join("login_glue.rs");
    std::fs::write(dst, out).unwrap();
}
