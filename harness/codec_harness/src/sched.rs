//! The harness owns the schedule: a scripted transport that delivers a byte string in chosen
//! chunks with chosen numbers of `Pending` results in between, and a single-threaded poll loop.
//! No runtime, no timers: a run is a pure function of (bytes, schedule).
use std::future::Future;
use std::io;
use std::pin::Pin;
use std::sync::atomic::{AtomicUsize, Ordering};
use std::sync::Arc;
use std::task::{Context, Poll, RawWaker, RawWakerVTable, Waker};

#[derive(Debug, Clone, PartialEq)]
pub struct Schedule {
    /// (pendings before the chunk, chunk length); after the list is exhausted everything is delivered at once
    pub steps: Vec<(u8, usize)>,
}

impl Schedule {
    pub fn whole() -> Self {
        Schedule { steps: vec![] }
    }
    pub fn single_bytes(n: usize, pend: u8) -> Self {
        Schedule { steps: (0..n).map(|_| (pend, 1)).collect() }
    }
    pub fn chunks(&self) -> usize {
        self.steps.len().max(1)
    }
    pub fn pendings(&self) -> usize {
        self.steps.iter().map(|s| s.0 as usize).sum()
    }
}

pub struct Scripted<'a> {
    data: &'a [u8],
    pub pos: usize,
    sched: &'a Schedule,
    step: usize,
    pend_left: Option<u8>,
    left_in_chunk: usize,
    pub polls: usize,
    pub pendings: usize,
}

impl<'a> Scripted<'a> {
    pub fn new(data: &'a [u8], sched: &'a Schedule) -> Self {
        Scripted { data, pos: 0, sched, step: 0, pend_left: None, left_in_chunk: 0, polls: 0, pendings: 0 }
    }

    /// core: how many bytes may be delivered now, or Pending
    fn poll_chunk(&mut self, cx: &mut Context<'_>, want: usize) -> Poll<usize> {
        self.polls += 1;
        if self.pos >= self.data.len() || want == 0 {
            return Poll::Ready(0);
        }
        if self.left_in_chunk == 0 {
            if self.step < self.sched.steps.len() {
                let (p, len) = self.sched.steps[self.step];
                let pl = self.pend_left.get_or_insert(p);
                if *pl > 0 {
                    *pl -= 1;
                    self.pendings += 1;
                    cx.waker().wake_by_ref();
                    return Poll::Pending;
                }
                self.pend_left = None;
                self.step += 1;
                self.left_in_chunk = len.max(1);
            } else {
                self.left_in_chunk = usize::MAX;
            }
        }
        let n = want.min(self.left_in_chunk).min(self.data.len() - self.pos);
        if self.left_in_chunk != usize::MAX {
            self.left_in_chunk -= n;
        }
        Poll::Ready(n)
    }
}

impl<'a> tokio::io::AsyncRead for Scripted<'a> {
    fn poll_read(mut self: Pin<&mut Self>, cx: &mut Context<'_>, buf: &mut tokio::io::ReadBuf<'_>) -> Poll<io::Result<()>> {
        let want = buf.remaining();
        match self.poll_chunk(cx, want) {
            Poll::Pending => Poll::Pending,
            Poll::Ready(n) => {
                let p = self.pos;
                buf.put_slice(&self.data[p..p + n]);
                self.pos += n;
                Poll::Ready(Ok(()))
            }
        }
    }
}

impl<'a> futures_io::AsyncRead for Scripted<'a> {
    fn poll_read(mut self: Pin<&mut Self>, cx: &mut Context<'_>, buf: &mut [u8]) -> Poll<io::Result<usize>> {
        match self.poll_chunk(cx, buf.len()) {
            Poll::Pending => Poll::Pending,
            Poll::Ready(n) => {
                let p = self.pos;
                buf[..n].copy_from_slice(&self.data[p..p + n]);
                self.pos += n;
                Poll::Ready(Ok(n))
            }
        }
    }
}

/// sink accepting partial writes according to a schedule
pub struct ScriptedSink<'a> {
    pub out: Vec<u8>,
    sched: &'a Schedule,
    step: usize,
    pend_left: Option<u8>,
}

impl<'a> ScriptedSink<'a> {
    pub fn new(sched: &'a Schedule) -> Self {
        ScriptedSink { out: vec![], sched, step: 0, pend_left: None }
    }
    fn poll_accept(&mut self, cx: &mut Context<'_>, have: usize) -> Poll<usize> {
        if have == 0 {
            return Poll::Ready(0);
        }
        if self.step < self.sched.steps.len() {
            let (p, len) = self.sched.steps[self.step];
            let pl = self.pend_left.get_or_insert(p);
            if *pl > 0 {
                *pl -= 1;
                cx.waker().wake_by_ref();
                return Poll::Pending;
            }
            self.pend_left = None;
            self.step += 1;
            Poll::Ready(have.min(len.max(1)))
        } else {
            Poll::Ready(have)
        }
    }
}

impl<'a> tokio::io::AsyncWrite for ScriptedSink<'a> {
    fn poll_write(mut self: Pin<&mut Self>, cx: &mut Context<'_>, buf: &[u8]) -> Poll<io::Result<usize>> {
        match self.poll_accept(cx, buf.len()) {
            Poll::Pending => Poll::Pending,
            Poll::Ready(n) => {
                self.out.extend_from_slice(&buf[..n]);
                Poll::Ready(Ok(n))
            }
        }
    }
    fn poll_flush(self: Pin<&mut Self>, _: &mut Context<'_>) -> Poll<io::Result<()>> {
        Poll::Ready(Ok(()))
    }
    fn poll_shutdown(self: Pin<&mut Self>, _: &mut Context<'_>) -> Poll<io::Result<()>> {
        Poll::Ready(Ok(()))
    }
}

impl<'a> futures_io::AsyncWrite for ScriptedSink<'a> {
    fn poll_write(mut self: Pin<&mut Self>, cx: &mut Context<'_>, buf: &[u8]) -> Poll<io::Result<usize>> {
        match self.poll_accept(cx, buf.len()) {
            Poll::Pending => Poll::Pending,
            Poll::Ready(n) => {
                self.out.extend_from_slice(&buf[..n]);
                Poll::Ready(Ok(n))
            }
        }
    }
    fn poll_flush(self: Pin<&mut Self>, _: &mut Context<'_>) -> Poll<io::Result<()>> {
        Poll::Ready(Ok(()))
    }
    fn poll_close(self: Pin<&mut Self>, _: &mut Context<'_>) -> Poll<io::Result<()>> {
        Poll::Ready(Ok(()))
    }
}

fn counting_waker(counter: Arc<AtomicUsize>) -> Waker {
    fn clone(p: *const ()) -> RawWaker {
        let a = unsafe { Arc::from_raw(p as *const AtomicUsize) };
        let b = a.clone();
        std::mem::forget(a);
        RawWaker::new(Arc::into_raw(b) as *const (), &VTABLE)
    }
    fn wake(p: *const ()) {
        let a = unsafe { Arc::from_raw(p as *const AtomicUsize) };
        a.fetch_add(1, Ordering::SeqCst);
    }
    fn wake_by_ref(p: *const ()) {
        let a = unsafe { Arc::from_raw(p as *const AtomicUsize) };
        a.fetch_add(1, Ordering::SeqCst);
        std::mem::forget(a);
    }
    fn drop(p: *const ()) {
        unsafe { Arc::from_raw(p as *const AtomicUsize) };
    }
    static VTABLE: RawWakerVTable = RawWakerVTable::new(clone, wake, wake_by_ref, drop);
    unsafe { Waker::from_raw(RawWaker::new(Arc::into_raw(counter) as *const (), &VTABLE)) }
}

#[derive(Debug)]
pub enum Driven<T> {
    Done(T),
    /// the future returned Pending without having arranged a wake-up: it would hang forever
    Stalled,
    /// more polls than the bound: treated as inconclusive by callers
    TooManyPolls,
}

/// polls `fut` to completion on the current thread
pub fn drive<F: Future>(fut: F, max_polls: usize) -> Driven<F::Output> {
    let counter = Arc::new(AtomicUsize::new(0));
    let waker = counting_waker(counter.clone());
    let mut cx = Context::from_waker(&waker);
    let mut fut = std::pin::pin!(fut);
    let mut polls = 0usize;
    loop {
        let before = counter.load(Ordering::SeqCst);
        match fut.as_mut().poll(&mut cx) {
            Poll::Ready(v) => return Driven::Done(v),
            Poll::Pending => {
                if counter.load(Ordering::SeqCst) == before {
                    return Driven::Stalled;
                }
            }
        }
        polls += 1;
        if polls > max_polls {
            return Driven::TooManyPolls;
        }
    }
}
