//! C02: framing is exact - header size/opcode match the bytes written, every reader consumes exactly
//! what the header announces, concatenations of written messages decode to the same sequence.
use crate::corpus::Corpus;
use crate::endpoints::{Ep, Flavor};
use crate::gen::*;
use crate::outcome::*;
use crate::sched::Schedule;
use crate::suite::*;
use crate::c02_pool::*;
use crate::typed::{self, TypedSet};
use proptest::prelude::*;
use serde_json::{json, Value};
use std::collections::{BTreeMap, BTreeSet};
use vcommon::{Check, KnownFindings, Tier};
use wowm_model::ast::*;
use wowm_model::frame::*;
use wowm_model::resolve::*;

/// checks the header a writer emitted in front of `bytes` (a whole written message)
fn check_written_header(e: &Entry, bytes: &[u8]) -> Result<(usize, usize), String> {
    let (hl, opcode, body_len) = split_header(e.ns, e.dir, bytes).map_err(|m| format!("unparsable header: {}", m))?;
    if opcode != e.opcode {
        return Err(format!("header opcode {:#x} is not the definition's {:#x}", opcode, e.opcode));
    }
    if let Ns::World(exp) = e.ns {
        if bytes.len() != hl + body_len {
            return Err(format!("size field announces {} body bytes but {} follow", body_len, bytes.len() - hl));
        }
        // form: 3-byte size exactly when a Wrath server message needs it
        let needs_large = exp == Expansion::Wrath && e.dir == Direction::Server && body_len + 2 > 0x7FFF;
        let is_large = e.dir == Direction::Server && hl == 5;
        if needs_large != is_large {
            return Err(format!("{}-byte header for a body of {} bytes", hl, body_len));
        }
    }
    Ok((hl, body_len))
}

fn process_entry(c: &Corpus, e: &Entry, tier: Tier, seed: u64, known: &KnownFindings) -> EntryReport {
    let mut r = EntryReport::new(e.label());
    let ep = c.ep(e);
    if c.writes_skipped(e) {
        r.count("excluded_known_finding_write_skipped");
        return r;
    }
    let encf = |t: &[u8], f: &BTreeMap<String, u32>| c.encode(e, t, f);
    let mut tapes: Vec<Vec<u8>> = vec![vec![]];
    let s = vcommon::mix(seed, vcommon::fnv(e.label().as_bytes()) ^ 0xC02);
    tapes.push((0..512u64).map(|i| (vcommon::mix(s, i) >> 24) as u8).collect());
    let mut failed: BTreeSet<String> = BTreeSet::new();
    let mut fail = |r: &mut EntryReport, kind: String, detail: String, j: Value| {
        if let Some(s) = known_sig(known, "C02", "c02", &e.label(), &kind) {
            *r.known_hits.entry(s).or_insert(0) += 1;
        } else if failed.insert(kind.clone()) {
            r.fails.push((format!("c02:{}:{}", e.label(), kind), detail, j));
        }
    };
    for st in &tapes {
        let cases = match directed(&encf, st, tier.pick(200, 2000), &mut r.dstats) {
            Ok(cs) => cs,
            Err(p) => {
                r.problem = Some(p);
                return r;
            }
        };
        for case in &cases {
            let enc = &case.enc;
            crate::iso::trace_case(&|| case_json(e, case));
            r.evals += 1;
            let o = ep.read_one(&enc.frame);
            let j = || {
                let mut j = case_json(e, case);
                j["library"] = json!(o.short());
                j
            };
            match &o {
                Outcome::Ok { consumed, rewritten, .. } => {
                    if *consumed != enc.frame.len() {
                        fail(&mut r, "consumed".into(), format!("reader consumed {} of {} bytes", consumed, enc.frame.len()), j());
                        continue;
                    }
                    match rewritten {
                        Ok(rw) => match check_written_header(e, rw) {
                            Ok((hl, body)) => {
                                if body > 0 || hl > 0 {
                                    r.distinct.insert(enc.shape() ^ vcommon::fnv(e.label().as_bytes()));
                                }
                                if hl == 5 {
                                    r.count("written_3_byte_size");
                                }
                                if enc.has_compressed() {
                                    r.count("written_compressed");
                                }
                            }
                            Err(m) => fail(&mut r, "written-header".into(), m, j()),
                        },
                        Err(m) => {
                            // size() != bytes written shows as the writers' assert_eq
                            let kind = if !enc.elseif_flag_taken.is_empty() { "elseif-flag-size".to_string() } else if let Some(i) = m.find(" at ") { format!("write-failed:{}", &m[i + 4..]) } else { "write-failed".into() };
                            fail(&mut r, kind, m.clone(), j());
                        }
                    }
                    // same header, one damaged member (an enum set to its wire maximum, else a string made invalid UTF-8):
                    // the reader returns an error and must still have consumed exactly the frame
                    if let Ns::World(_) = e.ns {
                        use wowm_model::walk::Role;
                        let leaf = enc.trace.iter().find(|l| l.region == 0 && l.width > 0 && l.role == Role::Enum).or_else(|| enc.trace.iter().find(|l| l.region == 0 && l.width > 0 && l.role == Role::StrBytes));
                        if let Some(l) = leaf {
                            let mut bad = enc.frame.clone();
                            let off = enc.header_len + l.offset;
                            if l.role == Role::Enum {
                                for b in bad[off..off + l.width].iter_mut() {
                                    *b = 0xFF;
                                }
                            } else {
                                bad[off] = 0xFF;
                            }
                            r.evals += 1;
                            let ob = ep.read_only(&bad);
                            if let Outcome::Err { consumed, .. } = &ob {
                                r.count("error_path_alignment_checked");
                                if *consumed != bad.len() {
                                    fail(&mut r, "consumed-on-error".into(), format!("reader consumed {} of {} bytes of a frame with a damaged member {} ({})", consumed, bad.len(), l.path, ob.kind()), json!({"entry": e.label(), "tape": vcommon::hex(&case.tape), "forced": forced_json(&case.forced), "damaged": l.path, "library": ob.short()}));
                                }
                            }
                        }
                    }
                }
                // acceptance itself is C01's subject
                _ => r.count("not_accepted_left_to_C01"),
            }
        }
    }
    r
}

/// world messages whose last member is `u8[-]` (body length can be chosen freely)
fn tail_messages(c: &Corpus, ns: Ns, dir: Direction) -> Vec<&Entry> {
    c.entries
        .iter()
        .filter(|e| e.ns == ns && e.dir == dir && !c.skip_entry.contains(&e.label()) && !c.skip_write.contains(&e.label()))
        .filter(|e| {
            let o = &c.u.objects[e.obj];
            if o.tags.is_true("compressed") {
                return false;
            }
            let Some(ct) = o.container() else { return false };
            match ct.members.last() {
                Some(Member::Field(f)) => matches!(&f.ty, TypeRef::Array { inner, size: ArraySize::Endless } if inner == "u8") && !f.tags.is_true("compressed"),
                _ => false,
            }
        })
        .collect()
}

fn sweep_lengths(exp: Expansion, dir: Direction, tier: Tier) -> Vec<usize> {
    let mut v: Vec<usize> = (0..=64).collect();
    v.extend(0x7FF0..=0x8010);
    v.extend([100, 255, 256, 257, 1000, 4095, 4096, 0x2800 - 4, 0x2800, 0x2801, 0x3FFF, 0x4000, 0x5555]);
    if dir == Direction::Server {
        v.extend(0xFFF0..=0x10010);
        if exp == Expansion::Wrath {
            v.extend([0x20000, 0x7FFFF, 0x100000]);
            if tier == Tier::Thorough {
                v.extend(0x7FFFF0..=0x7FFFFD);
            } else {
                v.extend([0x7FFFF0, 0x7FFFFC, 0x7FFFFD]);
            }
        }
    } else {
        v.extend(0xFFF0..=0xFFFB);
    }
    v
}

fn length_sweeps(c: &Corpus, chk: &mut Check, tier: Tier) {
    for ep in &c.eps {
        let Ns::World(exp) = ep.ns() else { continue };
        let dir = ep.dir();
        // (i) message values built directly from public fields: the writer alone, for every expressible length of the sweep
        if let Some(e) = c.entries.iter().find(|e| e.ns == ep.ns() && e.dir == dir && e.name == if dir == Direction::Server { "SMSG_WARDEN_DATA" } else { "CMSG_WARDEN_DATA" }) {
            for len in sweep_lengths(exp, dir, tier) {
                if world_header(exp, dir, e.opcode, len).is_none() {
                    continue;
                }
                chk.eval();
                chk.count("direct_write");
                let j = |m: &str| json!({"kind": "direct-write", "entry": e.label(), "body_len": len, "result": m});
                match typed::warden_write(exp, dir, len) {
                    Ok(bytes) => match check_written_header(e, &bytes) {
                        Ok((hl, body)) => {
                            if body != len || bytes.len() != hl + len {
                                chk.fail(&format!("c02:{}:direct-write-length", e.label()), &format!("value with {} body bytes written as {} bytes", len, bytes.len()), j("length"));
                            }
                            // the encrypted writer's header and the decrypting reader: this message and a second one behind it
                            // on the same stream must come back whole (only where the plain reader accepts the frame)
                            if len <= 0x1_0000 && matches!(ep.read_only(&bytes), Outcome::Ok { .. }) {
                                let key = [0x77u8; 40];
                                let seq = vec![bytes.clone(), bytes[..].to_vec()];
                                if let Some(cyc) = ep.encrypted_cycle(&key, &seq, crate::endpoints::Flavor::Sync, crate::endpoints::Flavor::Sync, None) {
                                    chk.eval();
                                    chk.count("encrypted_write_read");
                                    match &cyc.cipher {
                                        Err(m) => {
                                            chk.fail(&format!("c02:{}:encrypted-write-failed", e.label()), &format!("body {}: {}", len, m), j("encrypted write"));
                                        }
                                        Ok(cipher) => {
                                            let ok = cipher.len() == 2 * bytes.len() && cyc.read_back.len() == 2 && cyc.read_back.iter().all(|o| matches!(o, Outcome::Ok { consumed, .. } if *consumed == bytes.len()));
                                            if !ok {
                                                let what = cyc.read_back.iter().map(|o| o.short()).collect::<Vec<_>>().join(" ; ");
                                                chk.fail(&format!("c02:{}:encrypted-header-or-consumption", e.label()), &format!("body {}: two encrypted messages of {} bytes each give a stream of {} bytes, read back as: {}", len, bytes.len(), cipher.len(), what.chars().take(300).collect::<String>()), j("encrypted stream"));
                                            }
                                        }
                                    }
                                }
                            }
                        }
                        Err(m) => {
                            chk.fail(&format!("c02:{}:direct-write-header", e.label()), &format!("body {}: {}", len, m), j(&m));
                        }
                    },
                    Err(m) => {
                        let total = len + if dir == Direction::Server { 4 } else { 6 };
                        let sig = if total > 0xFFFF && (exp != Expansion::Wrath || dir == Direction::Client) { "c02:*:u16-total-overflow".to_string() } else { format!("c02:{}:direct-write-failed", e.label()) };
                        chk.fail(&sig, &format!("{} body {}: {}", e.label(), len, m), j(&m));
                    }
                }
            }
        }
        let msgs = tail_messages(c, ep.ns(), dir);
        chk.extra.insert(format!("length_sweep_messages.{}/{}", exp.name(), dir.name()), json!(msgs.iter().map(|e| e.name.clone()).collect::<Vec<_>>()));
        let forced = BTreeMap::new();
        for e in msgs.iter().take(tier.pick(3, 12)) {
            let Ok(base) = c.encode(e, &[], &forced) else { continue };
            let base_body = base.body().to_vec();
            for len in sweep_lengths(exp, dir, tier) {
                if len < base_body.len() {
                    continue;
                }
                // the documented client-message cap applies to readers of client messages
                let expect_reject_cap = dir == Direction::Client && len > CMSG_MAX_BODY;
                let mut body = base_body.clone();
                body.resize(len, 0xA5);
                let Some(mut frame) = world_header(exp, dir, e.opcode, len) else { continue };
                frame.extend_from_slice(&body);
                chk.eval();
                let near = [0x7FFDusize, 0xFFFD, 0xFFFB, 0x7FFFFD, 0x2800].iter().any(|b| (len as i64 - *b as i64).abs() <= 8);
                if near {
                    chk.nontrivial(vcommon::fnv(format!("{}|{}|len{}", ep.label(), e.name, len).as_bytes()));
                    chk.count("length_sweep.near_boundary");
                } else {
                    chk.count("length_sweep.other");
                }
                let o = ep.read_one(&frame);
                let j = || json!({"kind": "length", "entry": e.label(), "body_len": len, "frame": vcommon::hex_short(&frame), "library": o.short()});
                let label = e.label();
                match &o {
                    Outcome::Ok { consumed, rewritten, .. } => {
                        if expect_reject_cap {
                            chk.count("length_sweep.client_above_documented_cap_accepted");
                        }
                        if *consumed != frame.len() {
                            chk.fail(&format!("c02:{}:sweep-consumed", label), &format!("body {}: consumed {} of {}", len, consumed, frame.len()), j());
                            continue;
                        }
                        match rewritten {
                            Ok(rw) => {
                                if *rw != frame {
                                    let m = check_written_header(e, rw).err().unwrap_or_else(|| "body differs".into());
                                    chk.fail(&format!("c02:{}:sweep-rewritten-differs", label), &format!("body {}: {}", len, m), j());
                                } else if chk.samples.len() < 6 && near {
                                    chk.sample(j());
                                }
                            }
                            Err(m) => {
                                // Vanilla/TBC (and every client) message totals are computed in a u16
                                let total = len + if dir == Direction::Server { 4 } else { 6 };
                                let sig = if total > 0xFFFF && (exp != Expansion::Wrath || dir == Direction::Client) { "c02:*:u16-total-overflow".to_string() } else { format!("c02:{}:sweep-write-failed", label) };
                                chk.fail(&sig, &format!("{} body {}: {}", label, len, m), j());
                            }
                        }
                    }
                    Outcome::Err { class, .. } => {
                        if expect_reject_cap && *class == ErrClass::InvalidSize {
                            chk.count("length_sweep.client_above_documented_cap_rejected");
                        } else if exp == Expansion::Wrath && dir == Direction::Server && len > 0xFFFF && *class == ErrClass::InvalidSize {
                            chk.fail("c02:*:wrath-endless-array-cap", &format!("{} body {} rejected: {:?}", label, len, class), j());
                        } else {
                            chk.fail(&format!("c02:{}:sweep-rejected:{}", label, class.kind()), &format!("body {} rejected: {:?}", len, class), j());
                        }
                    }
                    Outcome::Panic { message, location } => {
                        chk.fail(&format!("c02:{}:sweep-panic:{}", label, rel_location(location)), &format!("body {}: {}", len, message), j());
                    }
                }
            }
        }
    }
}

/// bodies above 64 KiB that the library accepts (u32-counted integer arrays): read, consumed, re-written identically
fn big_counted_frames(c: &Corpus, chk: &mut Check) {
    for ep in c.eps.iter() {
        let Ns::World(exp) = ep.ns() else { continue };
        let sizes: &[usize] = if ep.dir() == Direction::Client { &[0x2000, 0x27F8] } else if exp == Expansion::Wrath { &[0x7FF8, 0x8000, 0xFFF8, 0x1_0000, 0x1_0004, 0x2_0000, 0x7_FFF0, 0x7F_FFF0] } else { &[0x7FF8, 0x8000, 0xFFF0, 0xFFF8] };
        for (name, frame) in c.counted_array_frames(ep.ns(), ep.dir(), sizes) {
            chk.eval();
            chk.count("counted-array-frame");
            chk.nontrivial(vcommon::fnv(format!("big|{}|{}", ep.label(), frame.len()).as_bytes()));
            let label = format!("{}/{}", ep.label(), name);
            match ep.read_one(&frame) {
                Outcome::Ok { consumed, rewritten, .. } => {
                    if consumed != frame.len() {
                        chk.fail(&format!("c02:{}:big-consumed", label), &format!("frame of {} bytes: consumed {}", frame.len(), consumed), json!({"endpoint": ep.label(), "message": name, "frame_len": frame.len()}));
                    }
                    match rewritten {
                        Ok(w) if w == frame => {}
                        Ok(w) => {
                            chk.fail(&format!("c02:{}:big-rewritten-differs", label), &format!("frame of {} bytes re-written as {} bytes, header {}", frame.len(), w.len(), vcommon::hex(&w[..w.len().min(8)])), json!({"endpoint": ep.label(), "message": name, "frame_len": frame.len()}));
                        }
                        Err(m) => {
                            let total = frame.len();
                            let sig = if total > 0xFFFF && (exp != Expansion::Wrath || ep.dir() == Direction::Client) { "c02:*:u16-total-overflow".to_string() } else { format!("c02:{}:big-write-failed", label) };
                            chk.fail(&sig, &format!("frame of {} bytes: {}", frame.len(), m), json!({"endpoint": ep.label(), "message": name, "frame_len": frame.len()}));
                        }
                    }
                }
                Outcome::Err { class, debug, .. } => {
                    chk.fail(&format!("c02:{}:big-rejected:{}", label, class.kind()), &format!("frame of {} bytes rejected: {}", frame.len(), debug.chars().take(160).collect::<String>()), json!({"endpoint": ep.label(), "message": name, "frame_len": frame.len()}));
                }
                Outcome::Panic { message, location } => {
                    chk.fail(&format!("c02:{}:big-panic:{}", label, rel_location(&location)), &format!("frame of {} bytes: {}", frame.len(), message), json!({"endpoint": ep.label(), "message": name, "frame_len": frame.len()}));
                }
            }
        }
    }
}

fn streams(c: &Corpus, chk: &mut Check, tier: Tier) {
    let seed = chk.seed;
    let typed_sets = typed::all();
    for (ei, ep) in c.eps.iter().enumerate() {
        let pool = build_pool(c, ep.as_ref(), seed, 2, None);
        if pool.frames.is_empty() {
            continue;
        }
        let n = pool.frames.len();
        let strat = prop::collection::vec(0..n, 1..=12);
        let label = ep.label();
        let cc = std::cell::RefCell::new(&mut *chk);
        let fail = vcommon::prop_search(seed, 200 + ei as u64, tier.pick(400, 20_000), &strat, |idx, counting| {
            let mut stream = Vec::new();
            for i in idx {
                stream.extend_from_slice(&pool.frames[*i].1);
            }
            let outs = ep.read_many(&stream, idx.len() + 1);
            if counting {
                let mut c = cc.borrow_mut();
                c.eval();
                if idx.len() >= 2 {
                    c.count("stream.len>=2");
                    c.nontrivial(vcommon::fnv(format!("{}|{:?}", label, idx.iter().map(|i| pool.frames[*i].0.as_str()).collect::<Vec<_>>()).as_bytes()));
                }
            }
            if outs.len() != idx.len() {
                return Err(format!("stream-count|{} messages written, {} read back; first problem: {}", idx.len(), outs.len(), outs.last().map(|o| o.short()).unwrap_or_default()));
            }
            let mut pos = 0usize;
            for (k, (o, i)) in outs.iter().zip(idx.iter()).enumerate() {
                match o {
                    Outcome::Ok { debug, consumed, .. } => {
                        if *debug != pool.frames[*i].2 {
                            return Err(format!("stream-value|message {} of the stream ({}) decodes differently than alone", k, pool.frames[*i].0));
                        }
                        if *consumed != pool.frames[*i].1.len() {
                            return Err(format!("stream-consumed|message {} ({}) consumed {} of {}", k, pool.frames[*i].0, consumed, pool.frames[*i].1.len()));
                        }
                        pos += consumed;
                    }
                    other => return Err(format!("stream-rejected|message {} ({}): {}", k, pool.frames[*i].0, other.short())),
                }
            }
            if pos != stream.len() {
                return Err(format!("stream-length|consumed {} of {}", pos, stream.len()));
            }
            // the same stream through the tokio and async-std readers, the transport handing out the rest of the stream
            // in pieces (cuts inside and right after the header): each message must come back whole and leave the
            // position exactly behind it
            for flavor in [Flavor::Tokio, Flavor::Astd] {
                let mut pos = 0usize;
                for (k, i) in idx.iter().enumerate() {
                    let rest = &stream[pos..];
                    let sched = match (k + idx[0] + idx.len()) % 5 {
                        0 => Schedule::single_bytes(rest.len().min(12), 0),
                        1 => Schedule { steps: vec![(1, 3), (0, 1), (1, 1)] },
                        2 => Schedule { steps: vec![(0, 2), (0, 2), (1, 1), (0, 1)] },
                        3 => Schedule { steps: vec![(0, 5), (1, 1)] },
                        _ => Schedule { steps: vec![(0, 1), (0, 4), (0, 1)] },
                    };
                    match ep.read_async(flavor, rest, &sched) {
                        Outcome::Ok { debug, consumed, .. } => {
                            if debug != pool.frames[*i].2 {
                                return Err(format!("stream-value-{}|message {} of the stream ({}) comes back differently through the {} reader under pieces {:?}", flavor.name(), k, pool.frames[*i].0, flavor.name(), sched.steps));
                            }
                            if consumed != pool.frames[*i].1.len() {
                                return Err(format!("stream-consumed-{}|message {} ({}) consumed {} of {} through the {} reader under pieces {:?}", flavor.name(), k, pool.frames[*i].0, consumed, pool.frames[*i].1.len(), flavor.name(), sched.steps));
                            }
                            pos += consumed;
                        }
                        other => return Err(format!("stream-rejected-{}|message {} ({}) through the {} reader under pieces {:?}: {}", flavor.name(), k, pool.frames[*i].0, flavor.name(), sched.steps, other.short())),
                    }
                }
            }
            Ok(())
        });
        if let Some((idx, msg)) = fail {
            let (kind, detail) = msg.split_once('|').unwrap_or((&msg, ""));
            let j = json!({"kind": "stream", "endpoint": label, "messages": idx.iter().map(|i| pool.frames[*i].0.clone()).collect::<Vec<_>>(), "frames": idx.iter().map(|i| vcommon::hex_short(&pool.frames[*i].1)).collect::<Vec<_>>()});
            chk.fail(&format!("c02:{}:{}", label, kind), detail, j);
        }
        // typed expect helpers over streams of the representative set
        if let Ns::World(exp) = ep.ns() {
            if let Some(ts) = typed::find(&typed_sets, exp, ep.dir()) {
                typed_streams(c, chk, tier, ep.as_ref(), ts, ei as u64);
            }
        }
    }
}

fn typed_streams(c: &Corpus, chk: &mut Check, tier: Tier, ep: &dyn Ep, ts: &TypedSet, salt: u64) {
    let seed = chk.seed;
    let mut pool = build_pool(c, ep, seed, 3, Some(ts.names));
    // frames on both sides of the 2/3-byte header boundary (the typed helpers parse the header themselves)
    if let Ns::World(exp) = ep.ns() {
        let warden = if ep.dir() == Direction::Server { "SMSG_WARDEN_DATA" } else { "CMSG_WARDEN_DATA" };
        let sizes: &[usize] = if ep.dir() == Direction::Server { &[0x7FF0, 0x7FFD, 0x7FFE, 0x8000, 0x9000] } else { &[0x2000] };
        for n in sizes {
            if let Ok(f) = typed::warden_write(exp, ep.dir(), *n) {
                if let Outcome::Ok { debug, .. } = ep.read_one(&f) {
                    pool.frames.push((warden.to_string(), f, debug));
                }
            }
        }
    }
    let missing: Vec<&str> = ts.names.iter().copied().filter(|n| !pool.frames.iter().any(|f| f.0 == *n)).collect();
    if !missing.is_empty() {
        chk.extra.insert(format!("typed_set_names_without_frames.{}", ep.label()), json!(missing));
    }
    if pool.frames.is_empty() {
        return;
    }
    let n = pool.frames.len();
    let label = format!("{}/typed", ep.label());
    let whole = Schedule::whole();
    for flavor in Flavor::ALL {
        let strat = (prop::collection::vec(0..n, 1..=8), any::<bool>());
        let cc = std::cell::RefCell::new(&mut *chk);
        let fail = vcommon::prop_search(seed, 300 + salt * 3 + flavor as u64, tier.pick(150, 5_000), &strat, |(idx, wrong_first), counting| {
            let mut stream = Vec::new();
            for i in idx {
                stream.extend_from_slice(&pool.frames[*i].1);
            }
            if counting {
                let mut c = cc.borrow_mut();
                c.eval();
                c.count(&format!("typed_stream.{}", flavor.name()));
                if idx.len() >= 2 {
                    c.nontrivial(vcommon::fnv(format!("{}|{}|{:?}|{}", label, flavor.name(), idx.iter().map(|i| pool.frames[*i].0.as_str()).collect::<Vec<_>>(), wrong_first).as_bytes()));
                }
            }
            let mut pos = 0usize;
            for (k, i) in idx.iter().enumerate() {
                let (name, frame, debug) = &pool.frames[*i];
                // optionally expect a different type first: the helper must report the unexpected opcode and still have consumed the frame
                if *wrong_first && k == 0 {
                    if let Some(other) = ts.names.iter().find(|n| **n != name.as_str()) {
                        if let Some(o) = (ts.expect)(other, flavor, &stream[pos..], &whole) {
                            match o {
                                Outcome::Err { class: ErrClass::UnknownOpcode { .. }, consumed, .. } => {
                                    if consumed != frame.len() {
                                        return Err(format!("typed-consumed-on-unexpected-opcode|expect::<{}> over a {} consumed {} of {}", other, name, consumed, frame.len()));
                                    }
                                }
                                // two names of the set may share an opcode only if the definitions do; anything else is reported
                                Outcome::Panic { message, location } => return Err(format!("typed-panic:{}|{}", rel_location(&location), message)),
                                other_o => return Err(format!("typed-unexpected-opcode-not-reported|expect::<{}> over a {}: {}", other, name, other_o.short())),
                            }
                        }
                    }
                }
                let Some(o) = (ts.expect)(name, flavor, &stream[pos..], &whole) else { return Err(format!("typed-missing|{}", name)) };
                match o {
                    Outcome::Ok { debug: d, consumed, rewritten } => {
                        // the typed value prints without the enum wrapper
                        if !debug.contains(&d) {
                            return Err(format!("typed-value|{} read by expect differs from the opcode-enum reader", name));
                        }
                        if consumed != frame.len() {
                            return Err(format!("typed-consumed|{} consumed {} of {}", name, consumed, frame.len()));
                        }
                        if flavor == Flavor::Sync {
                            if let Ok(rw) = rewritten {
                                if rw != *frame {
                                    return Err(format!("typed-rewritten|{} written by the typed value differs", name));
                                }
                            }
                        }
                        pos += consumed;
                    }
                    Outcome::Panic { message, location } => return Err(format!("typed-panic:{}|{}", rel_location(&location), message)),
                    other => return Err(format!("typed-rejected|{}: {}", name, other.short())),
                }
            }
            Ok(())
        });
        if let Some(((idx, wrong), msg)) = fail {
            let (kind, detail) = msg.split_once('|').unwrap_or((&msg, ""));
            let j = json!({"kind": "typed-stream", "endpoint": label, "flavor": flavor.name(), "wrong_first": wrong, "messages": idx.iter().map(|i| pool.frames[*i].0.clone()).collect::<Vec<_>>(), "frames": idx.iter().map(|i| vcommon::hex_short(&pool.frames[*i].1)).collect::<Vec<_>>()});
            chk.fail(&format!("c02:{}:{}:{}", label, flavor.name(), kind), detail, j);
        }
    }
}

pub fn worker(tier: Tier) -> i32 {
    let corpus = match Corpus::load() {
        Ok(c) => c,
        Err(e) => {
            eprintln!("C02 worker: {}", e);
            return 2;
        }
    };
    let seed = vcommon::env_seed();
    let known = KnownFindings::load();
    crate::iso::worker_loop(move |label| match corpus.entry(label) {
        Some(e) => process_entry(&corpus, e, tier, seed, &known).to_json(),
        None => EntryReport::new(label.to_string()).to_json(),
    })
}

pub fn run(tier: Tier, replay: Option<String>) -> i32 {
    let mut c = Check::new("C02", tier);
    let corpus = match Corpus::load() {
        Ok(c) => c,
        Err(e) => {
            eprintln!("C02: {}", e);
            return 2;
        }
    };
    if let Some(p) = replay {
        let j = vcommon::read_json(std::path::Path::new(&p));
        match j["kind"].as_str() {
            Some("length") => {
                let e = corpus.entry(j["entry"].as_str().unwrap_or("")).cloned();
                let Some(e) = e else { return 2 };
                let Ns::World(exp) = e.ns else { return 2 };
                let len = j["body_len"].as_u64().unwrap_or(0) as usize;
                let base = corpus.encode(&e, &[], &BTreeMap::new()).ok();
                let mut body = base.map(|b| b.body().to_vec()).unwrap_or_default();
                body.resize(len, 0xA5);
                let mut frame = world_header(exp, e.dir, e.opcode, len).unwrap_or_default();
                frame.extend_from_slice(&body);
                let o = corpus.ep(&e).read_one(&frame);
                println!("{} body {}: {}", e.label(), len, o.short());
                let ok = matches!(&o, Outcome::Ok { consumed, rewritten: Ok(rw), .. } if *consumed == frame.len() && *rw == frame);
                if !ok {
                    println!("VIOLATION property=C02 replay={}", p);
                    return 1;
                }
                return 0;
            }
            Some("stream") | Some("typed-stream") => {
                println!("stream replays are re-run through the quick tier (the pool is rebuilt from the seed in the file)");
                std::env::set_var("VERIF_SEED", j["seed"].as_u64().unwrap_or(1).to_string());
            }
            _ => {
                let Some((e, case)) = crate::c01::replay_case(&corpus, &j) else { return 2 };
                let o = corpus.ep(&e).read_one(&case.enc.frame);
                println!("{}: {}", e.label(), o.short());
                let ok = match &o {
                    Outcome::Ok { consumed, rewritten: Ok(rw), .. } => *consumed == case.enc.frame.len() && check_written_header(&e, rw).is_ok(),
                    _ => false,
                };
                if !ok {
                    println!("VIOLATION property=C02 replay={}", p);
                    return 1;
                }
                return 0;
            }
        }
    }
    c.rule = "(a) per message: the header each writer emits for every encoding of the directed enumeration (opcode, size field = bytes that follow, 2/3-byte form), the reader's position after Ok and after an error on a damaged body; (b) body-length sweeps of messages with a free u8[-] tail: every length 0..64, 0x7FF0..0x8010, 0xFFF0..0x10010, Wrath server up to 0x7FFFFD, decode + re-write; (c) proptest sequences of 1..12 written messages on one stream through the opcode-enum readers (blocking on the whole stream; tokio and async-std with the transport handing out pieces cut inside and right after each header) and through the typed expect_* helpers (sync, tokio, async-std; optionally expecting a wrong type first). Non-trivial = length within 8 of a header boundary, a stream of >= 2 messages, or a non-empty body; distinct = (entry, control shape) / (endpoint, message, length) / (endpoint, flavor, message name sequence).".into();
    c.assume("streams are built from frames the library itself wrote (re-encodings of canonical encodings it accepted)");
    c.assume("the documented 0x2800 limit of client messages is part of the reader contract: longer client bodies may be rejected with InvalidSize");
    let only = std::env::var("VERIF_ONLY").ok();
    let labels: Vec<String> = corpus.entries.iter().map(|e| e.label()).filter(|l| only.as_ref().map(|o| l.contains(o.as_str())).unwrap_or(true)).filter(|l| !corpus.skip_entry.contains(l)).collect();
    let sup = crate::iso::supervise("C02", tier.as_str(), labels, 16, 24, std::time::Duration::from_secs(tier.pick(180, 1800)), vec![("VERIF_WORKER_BUDGET_MIB".into(), "12288".into())]);
    let reports: Vec<EntryReport> = sup.reports.iter().map(EntryReport::from_json).collect();
    report_deaths(&mut c, "c02", &sup.deaths);
    c.extra.insert("entries".into(), json!(corpus.entries.len()));
    merge(&mut c, reports, 4);
    if only.is_none() {
        length_sweeps(&corpus, &mut c, tier);
        big_counted_frames(&corpus, &mut c);
        streams(&corpus, &mut c, tier);
    }
    c.finish()
}
