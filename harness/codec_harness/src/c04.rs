//! C04: out-of-domain field values are rejected, never silently reinterpreted.
//!  (a) every enum-typed leaf of every message, several undeclared values at the full wire width, and once per
//!      (message, enum) every undeclared number in and around the declared range;
//!  (b) every fixed-size world message with every body length 0..size+4 except `size`;
//!  (c) every undefined opcode (server: all 2^16; client: all <= 0xFFFF plus sampled 32-bit; login: all 256).
use crate::corpus::Corpus;
use crate::gen::*;
use crate::outcome::*;
use crate::suite::*;
use serde_json::{json, Value};
use std::collections::{BTreeMap, BTreeSet};
use vcommon::{Check, KnownFindings, Tier};
use wowm_model::frame::*;
use wowm_model::resolve::*;
use wowm_model::sizes::Sizer;
use wowm_model::walk::{Leaf, Role, Val};

/// (value, class) candidates for an enum leaf: undeclared values at the full wire width
fn candidates(declared: &[i128], base_bytes: usize, wire_bytes: usize, wire_signed: bool) -> Vec<(i128, &'static str)> {
    let bits = wire_bytes * 8;
    let (lo, hi): (i128, i128) = if wire_signed { (-(1i128 << (bits - 1)), (1i128 << (bits - 1)) - 1) } else { (0, (1i128 << bits) - 1) };
    let is_decl = |v: i128| declared.contains(&v);
    let mut out: Vec<(i128, &'static str)> = Vec::new();
    let mut push = |v: i128, c: &'static str, out: &mut Vec<(i128, &'static str)>| {
        if v >= lo && v <= hi && !is_decl(v) && !out.iter().any(|(x, _)| *x == v) {
            out.push((v, c));
        }
    };
    let max = declared.iter().copied().max().unwrap_or(0);
    let min = declared.iter().copied().min().unwrap_or(0);
    push(max + 1, "max+1", &mut out);
    push(min - 1, "min-1", &mut out);
    push(hi, "wire-max", &mut out);
    if wire_signed {
        push(lo, "wire-min", &mut out);
    }
    // a gap inside the declared range
    for v in min..=max.min(min + 300) {
        if !is_decl(v) {
            push(v, "gap", &mut out);
            break;
        }
    }
    if wire_bytes > base_bytes {
        // aliases of declared values modulo the enum's own width
        let m = 1i128 << (base_bytes * 8);
        let first = declared.first().copied().unwrap_or(0);
        let last = declared.last().copied().unwrap_or(0);
        push(first + m, "alias+2^base", &mut out);
        push(last + m, "alias+2^base", &mut out);
        push(first + 0x10000, "alias+2^16", &mut out);
        push(last + (m << 8).min(hi - last), "alias-high", &mut out);
        if wire_bytes >= 4 {
            push(last + 0x0100_0000, "alias+2^24", &mut out);
            push(first + 0x7f00_0000, "alias+0x7f000000", &mut out);
        }
    }
    out
}

/// every undeclared value from 16 below the smallest to 16 above the largest declared value when that span is at most
/// 4096 numbers; for a wider enum the two neighbours of each declared value and its decimal/hexadecimal confusions
/// (the digits of `0x21` read as 21 and the digits of 33 read as 0x33)
fn dense(declared: &[i128], wire_bytes: usize, wire_signed: bool) -> Vec<i128> {
    let bits = wire_bytes * 8;
    let (lo, hi): (i128, i128) = if wire_signed { (-(1i128 << (bits - 1)), (1i128 << (bits - 1)) - 1) } else { (0, (1i128 << bits) - 1) };
    let set: BTreeSet<i128> = declared.iter().copied().collect();
    let (Some(&min), Some(&max)) = (set.iter().next(), set.iter().next_back()) else { return vec![] };
    let mut out: BTreeSet<i128> = BTreeSet::new();
    if max - min <= 4096 {
        out.extend((min - 16)..=(max + 16));
    } else {
        for d in set.iter().take(1024) {
            out.insert(d - 1);
            out.insert(d + 1);
        }
    }
    for d in set.iter().take(1024) {
        if *d >= 0 {
            if let Ok(x) = i128::from_str_radix(&format!("{}", d), 16) {
                out.insert(x);
            }
            if let Ok(x) = format!("{:x}", d).parse::<i128>() {
                out.insert(x);
            }
        }
    }
    out.into_iter().filter(|v| *v >= lo && *v <= hi && !set.contains(v)).collect()
}

fn wire_signed(u: &Universe, l: &Leaf) -> (usize, bool) {
    // base width and signedness of the definer
    let d = u.objects[l.definer.unwrap()].definer().unwrap();
    let (b, s) = match d.base.as_str() {
        "u8" => (1, false),
        "u16" => (2, false),
        "u32" => (4, false),
        "u64" => (8, false),
        "i8" => (1, true),
        "i16" => (2, true),
        "i32" => (4, true),
        "i64" => (8, true),
        _ => (l.width, false),
    };
    (b, s)
}

fn mutate(enc: &Encoded, l: &Leaf, v: i128) -> Vec<u8> {
    let mut f = enc.frame.clone();
    let off = enc.header_len + l.offset;
    for i in 0..l.width {
        f[off + i] = ((v as u128) >> (8 * i)) as u8;
    }
    f
}

fn process_entry(c: &Corpus, e: &Entry, tier: Tier, seed: u64, known: &KnownFindings) -> EntryReport {
    let mut r = EntryReport::new(e.label());
    let ep = c.ep(e);
    let encf = |t: &[u8], f: &BTreeMap<String, u32>| c.encode(e, t, f);
    let max_runs = tier.pick(700, 6000);
    let mut tapes: Vec<Vec<u8>> = vec![vec![]];
    for k in 0..tier.pick(1u64, 4) {
        let s = vcommon::mix(seed, vcommon::fnv(e.label().as_bytes()) ^ (k + 41));
        tapes.push((0..512u64).map(|i| (vcommon::mix(s, i) >> 24) as u8).collect());
    }
    // one fault per (field, value class, array position, control shape of the encoding): the same member is read by
    // a separate copy of generated code in every branch that contains it
    let mut done: BTreeSet<(String, &'static str, u8, u64)> = BTreeSet::new();
    let mut dense_done: BTreeSet<(usize, usize)> = BTreeSet::new();
    let mut failed: BTreeSet<String> = BTreeSet::new();
    let mut fail = |r: &mut EntryReport, kind: String, detail: String, j: Value| {
        if let Some(s) = known_sig(known, "C04", "c04", &e.label(), &kind) {
            *r.known_hits.entry(s).or_insert(0) += 1;
        } else if failed.insert(kind.clone()) {
            r.fails.push((format!("c04:{}:{}", e.label(), kind), detail, j));
        }
    };
    for st in &tapes {
        let cases = match directed(&encf, st, max_runs, &mut r.dstats) {
            Ok(cs) => cs,
            Err(p) => {
                r.problem = Some(p);
                return r;
            }
        };
        for case in &cases {
            let enc = &case.enc;
            for l in &enc.trace {
                if l.role != Role::Enum || l.width == 0 {
                    continue;
                }
                if l.region != 0 {
                    r.count("enum_leaf_inside_compressed_region_skipped");
                    continue;
                }
                // array position class: first / middle / last
                let pos = match l.in_array {
                    None => 0u8,
                    Some((i, n)) => {
                        if i == 0 {
                            1
                        } else if i + 1 == n {
                            3
                        } else {
                            2
                        }
                    }
                };
                let declared: Vec<i128> = {
                    let d = c.u.objects[l.definer.unwrap()].definer().unwrap();
                    d.members.iter().filter_map(|m| wowm_model::parser::parse_int(&m.value_text)).collect()
                };
                let (base_bytes, signed) = wire_signed(&c.u, l);
                // an upcast to a wider type of the same signedness class: wire is unsigned unless the upcast type says otherwise
                let wsigned = signed && !l.upcast;
                let site = crate::oracle::strip_indices(&l.path);
                let mut cands = candidates(&declared, base_bytes, l.width, wsigned);
                // once per (message, enum, wire width): every undeclared number of the declared range and its margins
                // (the conversion table of an enum is one piece of code, whatever field reads through it)
                if dense_done.insert((l.definer.unwrap(), l.width)) {
                    for v in dense(&declared, l.width, wsigned) {
                        if !cands.iter().any(|(x, _)| *x == v) {
                            cands.push((v, "dense"));
                        }
                    }
                }
                for (v, class) in cands {
                    if class != "dense" && !done.insert((site.clone(), class, pos, enc.shape())) {
                        continue;
                    }
                    let frame = mutate(enc, l, v);
                    crate::iso::trace_case(&|| json!({"entry": e.label(), "tape": vcommon::hex(&case.tape), "forced": forced_json(&case.forced), "field": l.path, "injected": v.to_string()}));
                    r.evals += 1;
                    r.count(if l.upcast { "enum_fault.upcast" } else { "enum_fault.plain" });
                    r.count(&format!("value_class.{}", class));
                    if l.in_array.is_some() {
                        r.count("enum_fault.in_array");
                    }
                    r.distinct.insert(vcommon::fnv(format!("{}|{}|{}|{}", e.label(), site, class, pos).as_bytes()));
                    let o = ep.read_only(&frame);
                    let j = || json!({"entry": e.label(), "tape": vcommon::hex(&case.tape), "forced": forced_json(&case.forced), "field": l.path, "field_offset": l.offset, "width": l.width, "injected": v.to_string(), "value_class": class, "frame": vcommon::hex_short(&frame), "library": o.short()});
                    let up = if l.upcast { ":upcast" } else { "" };
                    match &o {
                        Outcome::Err { class: ErrClass::Enum { value, .. }, .. } => {
                            if *value != v {
                                fail(&mut r, format!("enum-error-reports-other-number{}:{}", up, site), format!("injected {} into {} but the error reports {}", v, l.path, value), j());
                            } else if r.samples.len() < 2 {
                                r.samples.push(j());
                            }
                        }
                        Outcome::Ok { .. } => fail(&mut r, format!("enum-accepted{}:{}", up, site), format!("undeclared value {} ({}) of {} in {} was accepted", v, class, l.ty, l.path), j()),
                        Outcome::Err { class: other, .. } => fail(&mut r, format!("enum-other-error{}:{}:{}", up, other.kind(), site), format!("undeclared value {} of {} gave {:?}, not an enum error", v, l.path, other), j()),
                        Outcome::Panic { message, location } => fail(&mut r, format!("panic:{}", rel_location(location)), format!("undeclared value {} of {} panicked: {}", v, l.path, message), j()),
                    }
                }
            }
        }
        // (b) fixed-size bodies, from the first (zero tape) case
        if std::ptr::eq(st, &tapes[0]) {
            if let (Ns::World(_), Some(case)) = (e.ns, cases.first()) {
                let mut sizer = Sizer::new(&c.u, e.ns);
                let iv = sizer.object_interval(e.obj);
                if iv.is_constant() && sizer.problems.is_empty() {
                    let n = iv.min as usize;
                    let body = case.enc.body().to_vec();
                    if body.len() == n {
                        r.count("fixed_size_messages");
                        for len in 0..=n + 4 {
                            if len == n {
                                continue;
                            }
                            let mut b = body.clone();
                            b.resize(len, 0);
                            let Some(mut frame) = header(e, len) else { continue };
                            frame.extend_from_slice(&b);
                            r.evals += 1;
                            r.count("length_fault");
                            r.distinct.insert(vcommon::fnv(format!("{}|len|{}", e.label(), len as i64 - n as i64).as_bytes()));
                            let o = ep.read_only(&frame);
                            let j = || json!({"entry": e.label(), "tape": "", "forced": {}, "fixed_size": n, "body_len": len, "frame": vcommon::hex_short(&frame), "library": o.short()});
                            match &o {
                                Outcome::Err { .. } => {}
                                Outcome::Ok { .. } => fail(&mut r, "fixed-size-accepted".into(), format!("{}-byte body of a message that is always {} bytes was accepted", len, n), j()),
                                Outcome::Panic { message, location } => fail(&mut r, format!("panic:{}", rel_location(location)), format!("{}-byte body panicked: {}", len, message), j()),
                            }
                        }
                    } else {
                        fail(&mut r, "model-size-disagrees-with-encoder".into(), format!("model size analysis says constant {} but the encoder produced {}", n, body.len()), json!({"entry": e.label()}));
                    }
                }
            }
        }
    }
    r
}

/// (c) opcode sweeps per endpoint
fn opcode_sweeps(c: &Corpus, chk: &mut Check, tier: Tier) {
    let seed = chk.seed;
    for ep in &c.eps {
        let ns = ep.ns();
        let dir = ep.dir();
        let defined: BTreeSet<u32> = c.entries.iter().filter(|e| e.ns == ns && e.dir == dir).map(|e| e.opcode).collect();
        let mut ops: Vec<u32> = match ns {
            Ns::Login(_) => (0..=255u32).collect(),
            Ns::World(_) => (0..=0xFFFFu32).collect(),
        };
        if matches!(ns, Ns::World(_)) && dir == Direction::Client {
            // 32-bit opcodes: aliases of defined ones modulo 2^16 and seeded values
            for d in defined.iter().take(64) {
                ops.push(d | 0x0001_0000);
                ops.push(d | 0x8000_0000);
            }
            for i in 0..tier.pick(2_000u64, 200_000) {
                ops.push((vcommon::mix(seed, i ^ 0xC04) as u32) | 0x0001_0000);
            }
        }
        let mut bad = 0u64;
        for op in ops {
            let frame: Vec<u8> = match ns {
                Ns::Login(_) => vec![op as u8],
                Ns::World(exp) => {
                    let mut h = world_header(exp, dir, op, 0).unwrap();
                    if dir == Direction::Server {
                        h[2] = op as u8;
                        h[3] = (op >> 8) as u8;
                    }
                    h
                }
            };
            chk.eval();
            let is_def = defined.contains(&op);
            let o = ep.read_only(&frame);
            let label = format!("{}/{}", ns.text(), dir.name());
            let j = || json!({"endpoint": label, "opcode": op, "frame": vcommon::hex(&frame), "library": o.short()});
            if !is_def {
                chk.nontrivial(vcommon::fnv(format!("{}|op|{}", label, op).as_bytes()));
                match &o {
                    Outcome::Err { class: ErrClass::UnknownOpcode { opcode }, .. } if *opcode == op => {
                        if chk.samples.len() < 12 && op % 9973 == 7 {
                            chk.sample(j());
                        }
                    }
                    Outcome::Err { class: ErrClass::UnknownOpcode { opcode }, .. } => {
                        bad += 1;
                        chk.fail(&format!("c04:{}:opcode-error-reports-other-number", label), &format!("undefined opcode {:#x} reported as {:#x}", op, opcode), j());
                    }
                    other => {
                        bad += 1;
                        let kind = if matches!(other, Outcome::Ok { .. }) { "undefined-opcode-accepted" } else { "undefined-opcode-other-error" };
                        chk.fail(&format!("c04:{}:{}", label, kind), &format!("undefined opcode {:#x}: {}", op, other.short()), j());
                    }
                }
            } else if let Outcome::Err { class: ErrClass::UnknownOpcode { .. }, .. } = &o {
                bad += 1;
                chk.fail(&format!("c04:{}:defined-opcode-unknown", label), &format!("opcode {:#x} is defined by the wowm sources for this direction but the reader does not know it", op), j());
            }
        }
        chk.count_n(&format!("opcode_sweep.{}/{}", ns.text(), dir.name()), 1);
        let _ = bad;
    }
}

pub fn worker(tier: Tier) -> i32 {
    let corpus = match Corpus::load() {
        Ok(c) => c,
        Err(e) => {
            eprintln!("C04 worker: {}", e);
            return 2;
        }
    };
    let seed = vcommon::env_seed();
    let known = KnownFindings::load();
    crate::iso::worker_loop(move |label| match corpus.entry(label) {
        Some(e) => process_entry(&corpus, e, tier, seed, &known).to_json(),
        None => EntryReport::new(label.to_string()).to_json(),
    })
}

pub fn run(tier: Tier, replay: Option<String>) -> i32 {
    let mut c = Check::new("C04", tier);
    c.level = "fault_enumeration".into();
    let corpus = match Corpus::load() {
        Ok(c) => c,
        Err(e) => {
            eprintln!("C04: {}", e);
            return 2;
        }
    };
    if let Some(p) = replay {
        let j = vcommon::read_json(std::path::Path::new(&p));
        if let Some(op) = j.get("opcode").and_then(|o| o.as_u64()) {
            let frame = vcommon::unhex(j["frame"].as_str().unwrap_or(""));
            let ep = corpus.eps.iter().find(|e| format!("{}/{}", e.ns().text(), e.dir().name()) == j["endpoint"].as_str().unwrap_or("")).unwrap();
            let o = ep.read_only(&frame);
            println!("opcode {:#x}: {}", op, o.short());
            let ok = matches!(&o, Outcome::Err { class: ErrClass::UnknownOpcode { opcode }, .. } if *opcode as u64 == op);
            if !ok {
                println!("VIOLATION property=C04 replay={}", p);
                return 1;
            }
            return 0;
        }
        let Some((e, case)) = crate::c01::replay_case(&corpus, &j) else {
            eprintln!("cannot rebuild the case of {}", p);
            return 2;
        };
        let ep = corpus.ep(&e);
        if let Some(len) = j.get("body_len").and_then(|l| l.as_u64()) {
            let mut b = case.enc.body().to_vec();
            b.resize(len as usize, 0);
            let mut frame = header(&e, len as usize).unwrap();
            frame.extend_from_slice(&b);
            let o = ep.read_only(&frame);
            println!("body length {}: {}", len, o.short());
            if !matches!(o, Outcome::Err { .. }) {
                println!("VIOLATION property=C04 replay={}", p);
                return 1;
            }
            return 0;
        }
        let field = j["field"].as_str().unwrap_or("");
        let v: i128 = j["injected"].as_str().unwrap_or("0").parse().unwrap_or(0);
        let Some(l) = case.enc.trace.iter().find(|l| l.path == field && l.role == Role::Enum) else {
            eprintln!("field {} not in the rebuilt encoding", field);
            return 2;
        };
        let frame = mutate(&case.enc, l, v);
        let o = ep.read_only(&frame);
        println!("entry {} field {} injected {}: {}", e.label(), field, v, o.short());
        let ok = matches!(&o, Outcome::Err { class: ErrClass::Enum { value, .. }, .. } if *value == v);
        if !ok {
            println!("VIOLATION property=C04 replay={}", p);
            return 1;
        }
        println!("replay: holds");
        return 0;
    }
    c.rule = "fault sites enumerated from the wowm model: every enum-typed leaf (plain, upcast, nested in structs, arrays - first/middle/last element -, conditional blocks) of the encodings reached by directed enumeration, each given undeclared values at the full wire width (max+1, min-1, wire max/min, a gap, and for upcast members aliases of declared values modulo 2^8 / 2^16 / 2^24); every message the model computes as constant-sized with every body length 0..size+4 except size; every opcode of the opcode space the model does not define for that direction/version. Each evaluation is one fault: all are non-trivial; distinct = (entry, field path without indices, value class, array position class) / (entry, length delta) / (endpoint, opcode).".into();
    c.assume("enum leaves inside compressed regions are not mutated (counted)");
    c.assume("signed enum bases are injected as signed numbers; the reported number is compared as a wide integer");
    let only = std::env::var("VERIF_ONLY").ok();
    let labels: Vec<String> = corpus.entries.iter().map(|e| e.label()).filter(|l| only.as_ref().map(|o| l.contains(o.as_str())).unwrap_or(true)).filter(|l| !corpus.skip_entry.contains(l)).collect();
    let sup = crate::iso::supervise("C04", tier.as_str(), labels, 16, 24, std::time::Duration::from_secs(tier.pick(180, 1800)), vec![("VERIF_WORKER_BUDGET_MIB".into(), "12288".into())]);
    let reports: Vec<EntryReport> = sup.reports.iter().map(EntryReport::from_json).collect();
    report_deaths(&mut c, "c04", &sup.deaths);
    c.extra.insert("entries".into(), json!(corpus.entries.len()));
    merge(&mut c, reports, 8);
    if only.is_none() {
        opcode_sweeps(&corpus, &mut c, tier);
    }
    c.finish()
}

#[allow(dead_code)]
fn unused(_: Val) {}
