//! Shared per-entry report plumbing of the codec checks.
use crate::gen::*;
use crate::oracle::ValueStats;
use serde_json::{json, Value};
use std::collections::{BTreeMap, BTreeSet};
use vcommon::{Check, KnownFindings};
use wowm_model::frame::*;

pub struct EntryReport {
    pub label: String,
    pub evals: u64,
    pub distinct: BTreeSet<u64>,
    pub classes: BTreeMap<String, u64>,
    pub fails: Vec<(String, String, Value)>,
    pub known_hits: BTreeMap<String, u64>,
    pub samples: Vec<Value>,
    pub vs: ValueStats,
    pub problem: Option<String>,
    pub dstats: DirectedStats,
    /// informational only (filled in by the worker loop)
    pub wall_ms: u64,
}

impl EntryReport {
    pub fn new(label: String) -> Self {
        EntryReport { label, evals: 0, distinct: BTreeSet::new(), classes: BTreeMap::new(), fails: vec![], known_hits: BTreeMap::new(), samples: vec![], vs: ValueStats::default(), problem: None, dstats: DirectedStats::default(), wall_ms: 0 }
    }
    pub fn count(&mut self, k: &str) {
        *self.classes.entry(k.to_string()).or_insert(0) += 1;
    }
    pub fn to_json(&self) -> Value {
        json!({
            "label": self.label, "evals": self.evals, "distinct": self.distinct.iter().map(|d| format!("{:x}", d)).collect::<Vec<_>>(),
            "classes": self.classes, "fails": self.fails.iter().map(|(a, b, c)| json!([a, b, c])).collect::<Vec<_>>(),
            "known_hits": self.known_hits, "samples": self.samples,
            "vs": [self.vs.checked, self.vs.unlocated, self.vs.skipped_kinds], "problem": self.problem,
            "dstats": [self.dstats.sites, self.dstats.runs, self.dstats.not_canonical, self.dstats.truncated as usize, self.dstats.dropped_large],
        })
    }
    pub fn from_json(v: &Value) -> EntryReport {
        let mut r = EntryReport::new(v["label"].as_str().unwrap_or("").to_string());
        r.evals = v["evals"].as_u64().unwrap_or(0);
        r.distinct = v["distinct"].as_array().map(|a| a.iter().filter_map(|x| u64::from_str_radix(x.as_str()?, 16).ok()).collect()).unwrap_or_default();
        r.classes = v["classes"].as_object().map(|o| o.iter().map(|(k, v)| (k.clone(), v.as_u64().unwrap_or(0))).collect()).unwrap_or_default();
        r.fails = v["fails"].as_array().map(|a| a.iter().map(|x| (x[0].as_str().unwrap_or("").to_string(), x[1].as_str().unwrap_or("").to_string(), x[2].clone())).collect()).unwrap_or_default();
        r.known_hits = v["known_hits"].as_object().map(|o| o.iter().map(|(k, v)| (k.clone(), v.as_u64().unwrap_or(0))).collect()).unwrap_or_default();
        r.samples = v["samples"].as_array().cloned().unwrap_or_default();
        r.vs = ValueStats { checked: v["vs"][0].as_u64().unwrap_or(0) as u32, unlocated: v["vs"][1].as_u64().unwrap_or(0) as u32, skipped_kinds: v["vs"][2].as_u64().unwrap_or(0) as u32 };
        r.problem = v["problem"].as_str().map(|s| s.to_string());
        r.wall_ms = v["wall_ms"].as_u64().unwrap_or(0);
        r.dstats = DirectedStats { sites: v["dstats"][0].as_u64().unwrap_or(0) as usize, runs: v["dstats"][1].as_u64().unwrap_or(0) as usize, not_canonical: v["dstats"][2].as_u64().unwrap_or(0) as usize, truncated: v["dstats"][3].as_u64().unwrap_or(0) != 0, dropped_large: v["dstats"][4].as_u64().unwrap_or(0) as usize };
        r
    }
}

pub fn case_json(e: &Entry, c: &Case) -> Value {
    json!({"entry": e.label(), "tape": vcommon::hex(&c.tape), "forced": forced_json(&c.forced), "frame": vcommon::hex_short(&c.enc.frame), "frame_len": c.enc.frame.len()})
}

/// which of the two signature granularities is listed as a known finding
pub fn known_sig(k: &KnownFindings, prop: &str, prefix: &str, label: &str, kind: &str) -> Option<String> {
    // full kind first, then the kind cut at its first ':' (e.g. any `write-failed` of one entry)
    let short = kind.split(':').next().unwrap_or(kind);
    for kd in [kind, short] {
        let a = format!("{}:{}:{}", prefix, label, kd);
        if k.has(prop, &a) {
            return Some(a);
        }
    }
    let b = format!("{}:*:{}", prefix, kind);
    if k.has(prop, &b) {
        return Some(b);
    }
    None
}

pub fn classes_of(enc: &Encoded, r: &mut EntryReport) {
    for (k, v) in &enc.features {
        if *v > 0 {
            r.count(k);
        }
    }
    if enc.frame.len() > 1024 {
        r.count("frame>1KiB");
    }
}

pub fn merge(c: &mut Check, reports: Vec<EntryReport>, max_samples: usize) {
    let mut problems = Vec::new();
    let (mut checked, mut unlocated, mut skipped) = (0u64, 0u64, 0u64);
    let (mut sites, mut runs, mut truncated, mut nc) = (0usize, 0usize, 0usize, 0usize);
    let mut dropped_large = 0usize;
    let mut slowest: Vec<(u64, String)> = reports.iter().map(|r| (r.wall_ms, r.label.clone())).collect();
    slowest.sort_by(|a, b| b.cmp(a));
    slowest.truncate(5);
    c.extra.insert("slowest_entries_ms".into(), json!(slowest));
    let n = reports.len().max(1);
    for (i, r) in reports.into_iter().enumerate() {
        c.evals(r.evals);
        for d in &r.distinct {
            c.nontrivial(*d);
        }
        for (k, v) in &r.classes {
            c.count_n(k, *v);
        }
        for (s, n) in &r.known_hits {
            for _ in 0..(*n).min(1) {
                c.fail(s, "", Value::Null);
            }
            c.count_n(&format!("known:{}", s), n.saturating_sub(1));
        }
        for (sig, what, j) in r.fails {
            c.fail(&sig, &what, j);
        }
        // samples spread over the entries
        if c.samples.len() < max_samples && i % (n / max_samples.max(1)).max(1) == 0 {
            for s in r.samples {
                c.sample(s);
            }
        }
        checked += r.vs.checked as u64;
        unlocated += r.vs.unlocated as u64;
        skipped += r.vs.skipped_kinds as u64;
        sites += r.dstats.sites;
        runs += r.dstats.runs;
        nc += r.dstats.not_canonical;
        truncated += r.dstats.truncated as usize;
        dropped_large += r.dstats.dropped_large;
        if let Some(p) = r.problem {
            problems.push(format!("{}: {}", r.label, p));
        }
    }
    c.extra.insert("value_leaves_checked".into(), json!(checked));
    c.extra.insert("value_leaves_unlocated".into(), json!(unlocated));
    c.extra.insert("value_leaves_of_unchecked_kinds".into(), json!(skipped));
    c.extra.insert("directed_sites".into(), json!(sites));
    c.extra.insert("directed_runs".into(), json!(runs));
    c.extra.insert("directed_not_canonical_discarded".into(), json!(nc));
    c.extra.insert("entries_with_truncated_directed_enumeration".into(), json!(truncated));
    c.extra.insert("large_cases_not_held_past_the_retention_budget".into(), json!(dropped_large));
    c.extra.insert("worker_deaths_not_reproduced_with_the_entry_alone".into(), json!(crate::iso::NOT_REPRODUCED_ALONE.load(std::sync::atomic::Ordering::Relaxed)));
    c.extra.insert("entries_the_model_cannot_encode".into(), json!(problems));
}

/// deaths of isolated workers: timeouts are inconclusive, everything else is a failed case
pub fn report_deaths(c: &mut Check, prefix: &str, deaths: &[crate::iso::Death]) {
    for d in deaths {
        if d.reason == "timeout" {
            c.inconclusive(&format!("worker watchdog expired while processing {}", d.label));
            continue;
        }
        // an allocation failure whose request fits `guard limit (0x7FFFFF elements) x 1 KiB per element` is the recorded
        // weakness of the allocation guard (it bounds the element COUNT, `Vec::with_capacity(count)` then reserves
        // count x size_of::<T>() bytes); anything larger is a reservation the guard should have refused
        let requested: Option<u64> = d.stderr_tail.split("memory allocation of ").nth(1).and_then(|r| r.split(' ').next()).and_then(|n| n.parse().ok());
        let kind = match (d.reason.as_str(), requested) {
            ("alloc", Some(n)) if n >= (64 << 20) && n <= 0x7F_FFFF * 1024 => "abort:alloc-of-guarded-element-count".to_string(),
            _ => format!("abort:{}", d.reason),
        };
        let sig = match known_sig(&c.known, &c.id.clone(), prefix, &d.label, &kind) {
            Some(s) => s,
            None => format!("{}:{}:{}", prefix, d.label, kind),
        };
        let mut j = d.case.clone().unwrap_or_else(|| json!({"entry": d.label}));
        j["stderr_tail"] = json!(d.stderr_tail);
        c.fail(&sig, &format!("worker process died ({}) while processing {}: {}", d.reason, d.label, d.stderr_tail.lines().last().unwrap_or("")), j);
    }
}

