#![allow(dead_code, unused_mut, clippy::all)]
mod c01;
mod c02;
mod c02_pool;
mod c05;
mod c06;
mod c03;
mod c04;
mod c14;
mod corpus;
mod dbg;
mod endpoints;
mod gen;
mod iso;
mod oracle;
mod outcome;
mod sched;
mod suite;
mod typed;

fn main() {
    let args: Vec<String> = std::env::args().collect();
    let id = args.get(1).map(|s| s.as_str()).unwrap_or("");
    let tier = match args.get(2).map(|s| s.as_str()) {
        Some("thorough") => vcommon::Tier::Thorough,
        Some("quick") => vcommon::Tier::Quick,
        _ => vcommon::env_tier(),
    };
    let replay = args.iter().position(|a| a == "--replay").and_then(|i| args.get(i + 1)).cloned();
    outcome::install_panic_hook();
    // the libraries' generated dispatch functions have very large stack frames in unoptimised builds
    let worker = args.iter().any(|a| a == "--worker");
    // (workers make their own big-stack thread; the supervisors and the in-process checks run on this one)
    let id = id.to_string();
    let h = std::thread::Builder::new().stack_size(512 << 20).spawn(move || run(&id, worker, tier, replay)).expect("spawn");
    let code = match h.join() {
        Ok(c) => c,
        Err(_) => {
            eprintln!("check thread panicked");
            2
        }
    };
    std::process::exit(code);
}

fn run(id: &str, worker: bool, tier: vcommon::Tier, replay: Option<String>) -> i32 {
    match id {
        "C01" if worker => c01::worker(tier),
        "C01" => c01::run(tier, replay),
        "C02" if worker => c02::worker(tier),
        "C02" => c02::run(tier, replay),
        "C03" if worker => c03::worker(tier),
        "C03" => c03::run(tier, replay),
        "C04" if worker => c04::worker(tier),
        "C04" => c04::run(tier, replay),
        "C05" => c05::run(tier, replay),
        "C06" => c06::run(tier, replay),
        "C14" => c14::run(tier, replay),
        _ => {
            eprintln!("usage: codec_harness <C01..C06|C14> quick|thorough [--replay file]");
            2
        }
    }
}
