//! C01's oracle: accept, consume exactly, re-encode identically (compressed: payload + fixed point),
//! and the value spot check of decoded fields against what the model put on the wire.
use crate::dbg::{self, Dbg};
use crate::endpoints::Ep;
use crate::outcome::*;
use wowm_model::ast::*;
use wowm_model::frame::*;
use wowm_model::resolve::*;
use wowm_model::walk::{Leaf, Role, Val};

#[derive(Debug, Clone)]
pub struct Failure {
    /// stable signature part, e.g. `rejected:Enum`, `panic:<location>`, `bytes-differ`, `value:<field path without indices>`
    pub kind: String,
    pub detail: String,
}

#[derive(Debug, Default, Clone)]
pub struct ValueStats {
    pub checked: u32,
    pub unlocated: u32,
    pub skipped_kinds: u32,
}

pub fn strip_indices(path: &str) -> String {
    let mut s = String::new();
    let mut skip = false;
    for c in path.chars() {
        if c == '[' {
            skip = true;
            s.push_str("[]");
        } else if c == ']' {
            skip = false;
        } else if !skip {
            s.push(c);
        }
    }
    s
}

/// full C01 judgement of one canonical encoding
pub fn judge_roundtrip(u: &Universe, ep: &dyn Ep, e: &Entry, enc: &Encoded, vs: &mut ValueStats, skip_write: bool) -> Result<(), Failure> {
    judge_roundtrip_inner(u, ep, e, enc, vs, skip_write).map_err(|mut f| {
        // a size/bytes failure of an encoding that took a branch of a flag `else if` chain is attributed to that chain
        if !enc.elseif_flag_taken.is_empty() && (f.kind.starts_with("write-failed") || f.kind.starts_with("compressed:rewritten-not-decodable")) {
            let mut v = enc.elseif_flag_taken.clone();
            v.sort();
            v.dedup();
            f.detail = format!("chain variable(s) {}: {}", v.join("+"), f.detail);
            f.kind = "elseif-flag-size".to_string();
        }
        f
    })
}

fn judge_roundtrip_inner(u: &Universe, ep: &dyn Ep, e: &Entry, enc: &Encoded, vs: &mut ValueStats, skip_write: bool) -> Result<(), Failure> {
    let o = if skip_write { ep.read_only(&enc.frame) } else { ep.read_one(&enc.frame) };
    match &o {
        Outcome::Panic { message, location } => Err(Failure { kind: format!("panic:{}", rel_location(location)), detail: format!("read panicked: '{}'", trunc(message, 200)) }),
        Outcome::Err { class, debug, .. } => Err(Failure { kind: format!("rejected:{}", class.kind()), detail: format!("canonical encoding rejected: {}", trunc(debug, 300)) }),
        Outcome::Ok { debug, consumed, rewritten } => {
            if *consumed != enc.frame.len() {
                return Err(Failure { kind: "consumed".into(), detail: format!("reader consumed {} of {} bytes", consumed, enc.frame.len()) });
            }
            if skip_write {
                return value_check(u, e, enc, debug, vs);
            }
            let rw = match rewritten {
                Ok(b) => b,
                Err(e) => {
                    let kind = if let Some(i) = e.find(" at ") { format!("write-failed:{}", &e[i + 4..]) } else { "write-failed".to_string() };
                    return Err(Failure { kind, detail: e.clone() });
                }
            };
            if !enc.has_compressed() {
                if *rw != enc.frame {
                    let i = rw.iter().zip(enc.frame.iter()).position(|(a, b)| a != b).unwrap_or(rw.len().min(enc.frame.len()));
                    let field = leaf_at(enc, i).map(|l| strip_indices(&l.path)).unwrap_or_else(|| "header".into());
                    return Err(Failure { kind: format!("bytes-differ:{}", field), detail: format!("re-encoding differs at byte {} ({} vs {} bytes): field {}", i, rw.len(), enc.frame.len(), field) });
                }
            } else {
                // compressed: equality of the decompressed payload and of a second cycle
                let d = decode(u, e, rw).map_err(|m| Failure { kind: "compressed:rewritten-not-decodable-by-model".into(), detail: m })?;
                if d.regions.len() != enc.regions.len() || d.regions.iter().zip(enc.regions.iter()).any(|(a, b)| a.payload != b.payload) {
                    return Err(Failure { kind: "compressed:payload-differs".into(), detail: "decompressed payload of the re-encoding differs from the original".into() });
                }
                // every leaf (inside and outside the compressed regions) must carry the same value
                let vals = |t: &[Leaf]| -> Vec<(String, Val, usize)> { t.iter().filter(|l| l.ty != "zlib").map(|l| (l.path.clone(), l.value.clone(), l.region)).collect() };
                if vals(&enc.trace) != vals(&d.trace) {
                    return Err(Failure { kind: "compressed:members-differ".into(), detail: "members of the re-encoding differ from the original".into() });
                }
                match ep.read_one(rw) {
                    Outcome::Ok { consumed: c2, rewritten: Ok(rw2), debug: d2, .. } => {
                        if c2 != rw.len() {
                            return Err(Failure { kind: "compressed:second-cycle-consumed".into(), detail: format!("consumed {} of {}", c2, rw.len()) });
                        }
                        if rw2 != *rw {
                            return Err(Failure { kind: "compressed:not-a-fixed-point".into(), detail: "second decode/encode cycle changes the bytes".into() });
                        }
                        if d2 != *debug {
                            return Err(Failure { kind: "compressed:second-cycle-value".into(), detail: "second decode gives a different value".into() });
                        }
                    }
                    other => return Err(Failure { kind: "compressed:second-cycle-rejected".into(), detail: other.short() }),
                }
            }
            value_check(u, e, enc, debug, vs)
        }
    }
}

fn leaf_at(enc: &Encoded, frame_off: usize) -> Option<&Leaf> {
    if frame_off < enc.header_len {
        return None;
    }
    let o = frame_off - enc.header_len;
    enc.trace.iter().find(|l| l.region == 0 && l.width > 0 && o >= l.offset && o < l.offset + l.width)
}

// ---------------------------------------------------------------------------------------------
// value spot check

enum MemberKind<'a> {
    Field(&'a Field),
    Optional,
}

fn find_member<'a>(members: &'a [Member], name: &str) -> Option<MemberKind<'a>> {
    for m in members {
        match m {
            Member::Field(f) if f.name == name => return Some(MemberKind::Field(f)),
            Member::Field(_) => {}
            Member::If(i) => {
                for b in i.branches() {
                    if let Some(x) = find_member(&b.body, name) {
                        return Some(x);
                    }
                }
                if let Some(e) = &i.else_body {
                    if let Some(x) = find_member(e, name) {
                        return Some(x);
                    }
                }
            }
            Member::Optional(o) => {
                if o.name == name {
                    return Some(MemberKind::Optional);
                }
                if let Some(x) = find_member(&o.body, name) {
                    return Some(x);
                }
            }
            Member::Unimplemented => {}
        }
    }
    None
}

fn unwrap_some(d: &Dbg) -> &Dbg {
    match d {
        Dbg::Tuple(n, v) if (n == "Some" || n.is_empty()) && v.len() == 1 => unwrap_some(&v[0]),
        _ => d,
    }
}

/// field `name` of the object printed at `node`; descends through the synthesised enum / flag
/// wrappers of conditional members (never into struct-typed members or arrays)
fn locate<'d>(u: &Universe, ns: Ns, c: &Container, node: &'d Dbg, name: &str, depth: usize) -> Option<&'d Dbg> {
    let node = unwrap_some(node);
    let Dbg::Struct(_, fields) = node else {
        // tuple wrapper around a struct
        if let Dbg::Tuple(_, v) = node {
            for x in v {
                if let Some(r) = locate(u, ns, c, x, name, depth) {
                    return Some(r);
                }
            }
        }
        return None;
    };
    if let Some((_, v)) = fields.iter().find(|(n, _)| n == name) {
        return Some(v);
    }
    if depth >= 4 {
        return None;
    }
    for (fname, v) in fields {
        // may descend when `fname` is a definer-typed member of this object (its Rust type then carries the
        // conditional members), or an internal wrapper field
        let descend = match find_member(&c.members, fname) {
            Some(MemberKind::Field(f)) => match &f.ty {
                TypeRef::Simple { name: t, .. } => matches!(u.lookup(ns, t).map(|o| &o.def), Some(Def::Definer(_))),
                TypeRef::Array { .. } => false,
            },
            Some(MemberKind::Optional) => false,
            None => true,
        };
        if descend {
            if let Some(r) = locate(u, ns, c, v, name, depth + 1) {
                return Some(r);
            }
        }
    }
    None
}

fn container_of<'a>(u: &'a Universe, ns: Ns, ty: &str) -> Option<&'a Container> {
    u.lookup(ns, ty).and_then(|o| o.container())
}

fn split_component(comp: &str) -> (&str, Option<usize>) {
    match comp.find('[') {
        Some(i) => (&comp[..i], comp[i + 1..comp.len() - 1].parse::<usize>().ok()),
        None => (comp, None),
    }
}

/// navigates `path` from the message node; returns the value node
fn navigate<'d>(u: &Universe, ns: Ns, root_c: &Container, root: &'d Dbg, path: &str) -> Option<&'d Dbg> {
    let mut c: &Container = root_c;
    let mut node: &Dbg = root;
    let comps: Vec<&str> = path.split('.').collect();
    for (ci, comp) in comps.iter().enumerate() {
        let (name, idx) = split_component(comp);
        let last = ci + 1 == comps.len();
        let v = locate(u, ns, c, node, name, 0)?;
        let mut v = unwrap_some(v);
        let member = find_member(&c.members, name)?;
        match member {
            MemberKind::Optional => {
                // members of the optional block belong to the same wowm object
                node = v;
                continue;
            }
            MemberKind::Field(f) => {
                let elem_ty: &str = match &f.ty {
                    TypeRef::Simple { name, .. } => name,
                    TypeRef::Array { inner, .. } => inner,
                };
                if let Some(i) = idx {
                    let Dbg::List(items) = v else { return None };
                    v = unwrap_some(items.get(i)?);
                }
                if last {
                    return Some(v);
                }
                // descend into a struct-typed member
                c = container_of(u, ns, elem_ty)?;
                node = v;
            }
        }
    }
    None
}

fn ip_to_u32(s: &str) -> Option<i128> {
    let p: Vec<&str> = s.split('.').collect();
    if p.len() != 4 {
        return None;
    }
    let mut v: i128 = 0;
    for x in p {
        v = (v << 8) | x.parse::<u8>().ok()? as i128;
    }
    Some(v)
}

pub fn value_check(u: &Universe, e: &Entry, enc: &Encoded, debug: &str, vs: &mut ValueStats) -> Result<(), Failure> {
    let Some(c) = u.objects[e.obj].container() else { return Ok(()) };
    let d = match dbg::parse(debug) {
        Ok(d) => d,
        Err(_) => {
            vs.unlocated += 1;
            return Ok(());
        }
    };
    // `NAME(Struct { .. })` or unit `NAME`
    let root: &Dbg = match &d {
        Dbg::Tuple(_, v) if v.len() == 1 => &v[0],
        other => other,
    };
    if matches!(root, Dbg::Atom(_)) {
        return Ok(());
    }
    for l in &enc.trace {
        let is_count = l.path.ends_with(".<count>");
        if l.path.contains('<') && !is_count {
            continue;
        }
        if l.path.is_empty() || l.path.starts_with('.') {
            continue;
        }
        let path = if is_count { &l.path[..l.path.len() - 8] } else { &l.path[..] };
        // built-in composite types print in their own shapes: only plain members are checked
        let checkable = is_count || matches!(l.role, Role::Plain | Role::Bool | Role::Float | Role::Guid | Role::StrBytes | Role::DateTime);
        if !checkable {
            continue;
        }
        if matches!(l.ty.as_str(), "NamedGuid" | "VariableItemRandomProperty" | "UpdateMask" | "AuraMask" | "EnchantMask" | "InspectTalentGearMask" | "CacheMask" | "MonsterMoveSplines" | "Population") {
            vs.skipped_kinds += 1;
            continue;
        }
        let Some(node) = navigate(u, e.ns, c, root, path) else {
            vs.unlocated += 1;
            continue;
        };
        let mismatch = |got: String, want: String| Failure { kind: format!("value:{}", strip_indices(path)), detail: format!("decoded field {} is {} but the encoding carries {}", path, got, want) };
        if is_count {
            let Val::I(n) = l.value else { continue };
            match node {
                Dbg::List(items) => {
                    if items.len() as i128 != n {
                        return Err(mismatch(format!("{} elements", items.len()), format!("{} elements", n)));
                    }
                    vs.checked += 1;
                }
                _ => vs.skipped_kinds += 1,
            }
            continue;
        }
        match (&l.value, l.role) {
            (Val::S(bytes), _) => match node.as_str() {
                Some(s) => {
                    if s.as_bytes() != &bytes[..] {
                        return Err(mismatch(format!("{:?}", s), format!("{:?}", String::from_utf8_lossy(bytes))));
                    }
                    vs.checked += 1;
                }
                None => vs.skipped_kinds += 1,
            },
            (Val::F(bits), _) => match node.as_f32_bits() {
                Some(b) => {
                    if b != *bits {
                        return Err(mismatch(format!("{}", f32::from_bits(b)), format!("{}", f32::from_bits(*bits))));
                    }
                    vs.checked += 1;
                }
                None => vs.skipped_kinds += 1,
            },
            (Val::I(v), _) => {
                let got: Option<i128> = match l.ty.as_str() {
                    "Seconds" => node.as_duration_ns().map(|n| (n / 1_000_000_000) as i128).or_else(|| node.as_i128()),
                    "Milliseconds" => node.as_duration_ns().map(|n| (n / 1_000_000) as i128).or_else(|| node.as_i128()),
                    "IpAddress" => match node.scalar() {
                        Some(Dbg::Atom(a)) => ip_to_u32(a).or_else(|| node.as_i128()),
                        _ => None,
                    },
                    _ => node.as_i128(),
                };
                match got {
                    Some(g) => {
                        let bits = if l.width == 0 { 64 } else { l.width * 8 };
                        let m: i128 = if bits >= 127 { -1 } else { (1i128 << bits) - 1 };
                        if g != *v && (g & m) != (*v & m) {
                            return Err(mismatch(g.to_string(), v.to_string()));
                        }
                        vs.checked += 1;
                    }
                    None => vs.skipped_kinds += 1,
                }
            }
        }
    }
    Ok(())
}
