//! Parser of Rust's derive(Debug) output (the non-pretty `{:?}` form), so that decoded values and
//! errors of ~2,300 message types can be inspected without per-message code.

#[derive(Debug, Clone, PartialEq)]
pub enum Dbg {
    /// `Name`, also numbers, `true`, durations: any bare token
    Atom(String),
    Str(String),
    Tuple(String, Vec<Dbg>),
    Struct(String, Vec<(String, Dbg)>),
    List(Vec<Dbg>),
    Map(Vec<(Dbg, Dbg)>),
}

struct P<'a> {
    s: &'a [u8],
    i: usize,
}

impl<'a> P<'a> {
    fn ws(&mut self) {
        while self.i < self.s.len() && (self.s[self.i] == b' ' || self.s[self.i] == b'\n') {
            self.i += 1;
        }
    }
    fn peek(&self) -> u8 {
        self.s.get(self.i).copied().unwrap_or(0)
    }
    fn eat(&mut self, c: u8) -> bool {
        self.ws();
        if self.peek() == c {
            self.i += 1;
            true
        } else {
            false
        }
    }
    fn string(&mut self) -> Result<String, String> {
        // at opening quote
        self.i += 1;
        let mut out: Vec<u8> = Vec::new();
        loop {
            if self.i >= self.s.len() {
                return Err("unterminated string".into());
            }
            let c = self.s[self.i];
            self.i += 1;
            match c {
                b'"' => break,
                b'\\' => {
                    let e = self.peek();
                    self.i += 1;
                    match e {
                        b'n' => out.push(b'\n'),
                        b't' => out.push(b'\t'),
                        b'r' => out.push(b'\r'),
                        b'0' => out.push(0),
                        b'\\' => out.push(b'\\'),
                        b'"' => out.push(b'"'),
                        b'\'' => out.push(b'\''),
                        b'u' => {
                            // \u{XXXX}
                            if self.peek() != b'{' {
                                return Err("bad \\u".into());
                            }
                            self.i += 1;
                            let st = self.i;
                            while self.peek() != b'}' && self.i < self.s.len() {
                                self.i += 1;
                            }
                            let hex = std::str::from_utf8(&self.s[st..self.i]).map_err(|e| e.to_string())?;
                            self.i += 1;
                            let cp = u32::from_str_radix(hex, 16).map_err(|e| e.to_string())?;
                            let ch = char::from_u32(cp).ok_or("bad code point")?;
                            let mut b = [0u8; 4];
                            out.extend_from_slice(ch.encode_utf8(&mut b).as_bytes());
                        }
                        b'x' => {
                            let hex = std::str::from_utf8(&self.s[self.i..self.i + 2]).map_err(|e| e.to_string())?;
                            self.i += 2;
                            out.push(u8::from_str_radix(hex, 16).map_err(|e| e.to_string())?);
                        }
                        _ => return Err(format!("unknown escape \\{}", e as char)),
                    }
                }
                _ => out.push(c),
            }
        }
        String::from_utf8(out).map_err(|e| e.to_string())
    }

    fn value(&mut self) -> Result<Dbg, String> {
        self.ws();
        match self.peek() {
            b'"' => Ok(Dbg::Str(self.string()?)),
            b'[' => {
                self.i += 1;
                let mut v = Vec::new();
                loop {
                    if self.eat(b']') {
                        break;
                    }
                    v.push(self.value()?);
                    self.eat(b',');
                }
                Ok(Dbg::List(v))
            }
            b'(' => {
                self.i += 1;
                let mut v = Vec::new();
                loop {
                    if self.eat(b')') {
                        break;
                    }
                    v.push(self.value()?);
                    self.eat(b',');
                }
                Ok(Dbg::Tuple(String::new(), v))
            }
            b'{' => {
                self.i += 1;
                let mut v = Vec::new();
                loop {
                    if self.eat(b'}') {
                        break;
                    }
                    let k = self.value()?;
                    if !self.eat(b':') {
                        return Err("expected ':' in map".into());
                    }
                    let val = self.value()?;
                    v.push((k, val));
                    self.eat(b',');
                }
                Ok(Dbg::Map(v))
            }
            0 => Err("unexpected end".into()),
            _ => {
                // bare token: identifier / number / duration / path
                let st = self.i;
                while self.i < self.s.len() {
                    let c = self.s[self.i];
                    if c.is_ascii_alphanumeric() || c == b'_' || c == b'.' || c == b'-' || c == b'+' || c >= 0x80 || (c == b':' && self.s.get(self.i + 1) == Some(&b':')) || (c == b':' && self.i > st && self.s[self.i - 1] == b':') {
                        self.i += 1;
                    } else {
                        break;
                    }
                }
                if self.i == st {
                    return Err(format!("unexpected '{}' at {}", self.peek() as char, self.i));
                }
                let name = String::from_utf8_lossy(&self.s[st..self.i]).to_string();
                self.ws();
                match self.peek() {
                    b'(' => {
                        self.i += 1;
                        let mut v = Vec::new();
                        loop {
                            if self.eat(b')') {
                                break;
                            }
                            v.push(self.value()?);
                            self.eat(b',');
                        }
                        Ok(Dbg::Tuple(name, v))
                    }
                    b'{' => {
                        self.i += 1;
                        let mut v = Vec::new();
                        loop {
                            if self.eat(b'}') {
                                break;
                            }
                            self.ws();
                            if self.s[self.i..].starts_with(b"..") {
                                self.i += 2;
                                continue;
                            }
                            let st = self.i;
                            while self.i < self.s.len() && (self.s[self.i].is_ascii_alphanumeric() || self.s[self.i] == b'_' || self.s[self.i] == b'#') {
                                self.i += 1;
                            }
                            let f = String::from_utf8_lossy(&self.s[st..self.i]).to_string();
                            if !self.eat(b':') {
                                return Err(format!("expected ':' after field {} at {}", f, self.i));
                            }
                            let val = self.value()?;
                            v.push((f.trim_start_matches("r#").to_string(), val));
                            self.eat(b',');
                        }
                        Ok(Dbg::Struct(name, v))
                    }
                    _ => Ok(Dbg::Atom(name)),
                }
            }
        }
    }
}

pub fn parse(s: &str) -> Result<Dbg, String> {
    let mut p = P { s: s.as_bytes(), i: 0 };
    let v = p.value()?;
    p.ws();
    if p.i != s.len() {
        return Err(format!("trailing input at {}", p.i));
    }
    Ok(v)
}

impl Dbg {
    pub fn name(&self) -> &str {
        match self {
            Dbg::Atom(n) | Dbg::Tuple(n, _) | Dbg::Struct(n, _) => n,
            _ => "",
        }
    }
    pub fn field(&self, f: &str) -> Option<&Dbg> {
        match self {
            Dbg::Struct(_, fs) => fs.iter().find(|(n, _)| n == f).map(|(_, v)| v),
            _ => None,
        }
    }
    /// first node (depth first) with this struct/tuple name
    pub fn find_named(&self, name: &str) -> Option<&Dbg> {
        if self.name() == name {
            return Some(self);
        }
        match self {
            Dbg::Tuple(_, v) | Dbg::List(v) => v.iter().find_map(|x| x.find_named(name)),
            Dbg::Struct(_, fs) => fs.iter().find_map(|(_, x)| x.find_named(name)),
            Dbg::Map(m) => m.iter().find_map(|(_, x)| x.find_named(name)),
            _ => None,
        }
    }
    /// unwraps `Some(x)`, `Box`-less tuple wrappers and single-field newtypes down to an atom/string
    pub fn scalar(&self) -> Option<&Dbg> {
        match self {
            Dbg::Atom(_) | Dbg::Str(_) => Some(self),
            Dbg::Tuple(_, v) if v.len() == 1 => v[0].scalar(),
            Dbg::Struct(_, fs) if fs.len() == 1 => fs[0].1.scalar(),
            _ => None,
        }
    }
    pub fn as_i128(&self) -> Option<i128> {
        match self.scalar()? {
            Dbg::Atom(a) => {
                if a == "true" {
                    return Some(1);
                }
                if a == "false" {
                    return Some(0);
                }
                a.parse::<i128>().ok()
            }
            _ => None,
        }
    }
    pub fn as_f32_bits(&self) -> Option<u32> {
        match self.scalar()? {
            Dbg::Atom(a) => match a.as_str() {
                "inf" => Some(f32::INFINITY.to_bits()),
                "-inf" => Some(f32::NEG_INFINITY.to_bits()),
                "NaN" => None,
                _ => a.parse::<f32>().ok().map(|f| f.to_bits()),
            },
            _ => None,
        }
    }
    pub fn as_str(&self) -> Option<&str> {
        match self.scalar()? {
            Dbg::Str(s) => Some(s),
            _ => None,
        }
    }
    /// `Duration` Debug (`5s`, `1.5ms`, `100ns`, `2µs`) in nanoseconds
    pub fn as_duration_ns(&self) -> Option<u128> {
        let Dbg::Atom(a) = self.scalar()? else { return None };
        let (num, unit): (&str, u128) = if let Some(n) = a.strip_suffix("ns") {
            (n, 1)
        } else if let Some(n) = a.strip_suffix("µs") {
            (n, 1_000)
        } else if let Some(n) = a.strip_suffix("ms") {
            (n, 1_000_000)
        } else if let Some(n) = a.strip_suffix('s') {
            (n, 1_000_000_000)
        } else {
            return None;
        };
        let (ip, fp) = match num.split_once('.') {
            Some((i, f)) => (i, f),
            None => (num, ""),
        };
        let mut v: u128 = ip.parse::<u128>().ok()? * unit;
        let mut scale = unit;
        for c in fp.chars() {
            scale /= 10;
            v += c.to_digit(10)? as u128 * scale;
        }
        Some(v)
    }
}

#[cfg(test)]
mod tests {
    use super::*;
    #[test]
    fn parses() {
        let d = parse("Ok(CMSG_WHO(CMSG_WHO { minimum_level: Level { inner: 10 }, names: [\"a\\\"b\", \"c\"], f: -1.5e10, o: Some(X { y: 1 }), m: {2: 25}, u: Normal }))").unwrap();
        let w = d.find_named("CMSG_WHO").unwrap();
        assert!(w.find_named("Level").is_some());
        assert_eq!(parse("Duration(1.5ms)").unwrap().as_duration_ns(), Some(1_500_000));
    }
}
