//! C05: header encryption is transparent for whole message sequences.
use crate::c02_pool::*;
use crate::corpus::Corpus;
use crate::endpoints::{Ep, Flavor};
use crate::outcome::*;
use crate::typed;
use proptest::prelude::*;
use serde_json::json;
use vcommon::{Check, Tier};
use wowm_model::frame::*;
use wowm_model::resolve::*;

/// byte ranges of the headers in a plain stream of frames
fn header_ranges(ns: Ns, dir: Direction, frames: &[&Vec<u8>]) -> Vec<(usize, usize)> {
    let mut v = Vec::new();
    let mut pos = 0;
    for f in frames {
        let hl = split_header(ns, dir, f).map(|x| x.0).unwrap_or(0);
        v.push((pos, pos + hl));
        pos += f.len();
    }
    v
}

fn key_from(bytes: &[u8]) -> [u8; 40] {
    let mut k = [0u8; 40];
    for (i, b) in bytes.iter().enumerate().take(40) {
        k[i] = *b;
    }
    k
}

pub fn run(tier: Tier, replay: Option<String>) -> i32 {
    let mut c = Check::new("C05", tier);
    let corpus = match Corpus::load() {
        Ok(c) => c,
        Err(e) => {
            eprintln!("C05: {}", e);
            return 2;
        }
    };
    if replay.is_some() {
        println!("C05 replays re-run the quick tier with the seed stored in the replay file (pools are rebuilt from the seed)");
        if let Some(p) = &replay {
            let j = vcommon::read_json(std::path::Path::new(p));
            std::env::set_var("VERIF_SEED", j["seed"].as_u64().unwrap_or(1).to_string());
            c.seed = j["seed"].as_u64().unwrap_or(1);
        }
    }
    c.rule = "per expansion and direction: a 40-byte session key and a sequence of 1..16 written messages drawn by proptest from a pool of the library's own encodings (all message types, small and large, compressed ones, for Wrath server bodies on both sides of the 2/3-byte header boundary); crypto pairs come from wow_srp's public handshake; before that, every message of the pool once through each of the three encrypted writers and the decrypting reader of the same flavour. Oracle: ciphertext has the plaintext's length and differs from it only inside the header byte ranges computed from the plaintext; the peer's read_encrypted (sync, tokio, async-std) returns the plain reader's messages; one more probe message after the sequence still decrypts; sync/tokio/async-std encrypted writers emit identical bytes from equal cipher states; the typed expect_*_message_encryption helpers agree for the representative set. Non-trivial = sequence of >= 2 messages; distinct = (endpoint, flavors, message-name sequence).".into();
    c.assume("wow_srp's header cipher is the reference for what 'encrypted header' means; the random seeds of its handshake do not influence the cipher");
    let seed = c.seed;
    let typed_sets = typed::all();
    for (ei, ep) in corpus.eps.iter().enumerate() {
        let Ns::World(exp) = ep.ns() else { continue };
        let dir = ep.dir();
        let mut pool = build_pool(&corpus, ep.as_ref(), seed, 2, None);
        // bodies around the Wrath 2/3-byte boundary and a large one
        let warden = if dir == Direction::Server { "SMSG_WARDEN_DATA" } else { "CMSG_WARDEN_DATA" };
        let extra: &[usize] = if dir == Direction::Server { &[0x7FF0, 0x7FFC, 0x7FFD, 0x7FFE, 0x8000, 0x9000] } else { &[0x2000] };
        for n in extra {
            if let Ok(f) = typed::warden_write(exp, dir, *n) {
                if let Outcome::Ok { debug, .. } = ep.read_one(&f) {
                    pool.frames.push((warden.to_string(), f, debug));
                }
            }
        }
        // bodies above 64 KiB (bits 16..22 of the 3-byte Wrath size): counted integer arrays
        for (name, f) in corpus.counted_array_frames(ep.ns(), dir, &[0x1_0002, 0x2_0000]) {
            if let Outcome::Ok { debug, .. } = ep.read_only(&f) {
                pool.frames.push((name, f, debug));
            }
        }
        if pool.frames.is_empty() {
            continue;
        }
        let n = pool.frames.len();
        let big: Vec<usize> = (0..n).filter(|i| pool.frames[*i].1.len() > 0x7FF0).collect();
        let label = ep.label();
        // every message of the pool once through each of the three encrypted writers (their dispatch tables have one arm
        // per message and flavour): [message, probe], read back by the decrypting reader of the same flavour
        {
            let key = key_from(&(0..40u64).map(|i| (vcommon::mix(seed, 0xC05 + i) >> 16) as u8).collect::<Vec<u8>>());
            let probe = pool.frames[0].1.clone();
            let mut reported: std::collections::BTreeSet<String> = std::collections::BTreeSet::new();
            for i in 0..n {
                let (name, frame, debug) = &pool.frames[i];
                if frame.len() > 0x10_0000 {
                    continue;
                }
                let frames = vec![frame.clone()];
                let ranges = header_ranges(ep.ns(), dir, &frames.iter().collect::<Vec<_>>());
                let mut ciphers: Vec<Option<Vec<u8>>> = Vec::new();
                for fl in Flavor::ALL {
                    c.eval();
                    c.count("each_message_through_each_writer");
                    c.nontrivial(vcommon::fnv(format!("{}|each|{}|{}", label, fl.name(), name).as_bytes()));
                    let cyc = ep.encrypted_cycle(&key, &frames, fl, fl, Some(&probe)).expect("world endpoint");
                    let verdict: Result<(), String> = (|| {
                        let cipher = cyc.cipher.as_ref().map_err(|m| format!("encrypted-write|{}", m))?;
                        if cipher.len() != frame.len() {
                            return Err(format!("cipher-length|ciphertext {} bytes, plaintext {}", cipher.len(), frame.len()));
                        }
                        if let Some(p) = cipher.iter().zip(frame.iter()).enumerate().find(|(p, (a, b))| a != b && !ranges.iter().any(|(s, e)| p >= s && p < e)) {
                            return Err(format!("cipher-differs-outside-header|byte {} differs outside the header ranges {:?}", p.0, ranges));
                        }
                        match cyc.read_back.first() {
                            Some(Outcome::Ok { debug: d, consumed, .. }) if d == debug && *consumed == frame.len() && cyc.read_back.len() == 1 => {}
                            other => return Err(format!("decrypt-rejected|{} does not come back: {}", name, other.map(|o| o.short()).unwrap_or_default())),
                        }
                        if cyc.probe_ok == Some(false) {
                            return Err("cipher-desynchronised|the probe message after it does not decrypt".into());
                        }
                        Ok(())
                    })();
                    ciphers.push(cyc.cipher.as_ref().ok().cloned());
                    if let Err(msg) = verdict {
                        let (kind, detail) = msg.split_once('|').unwrap_or((&msg, ""));
                        if reported.insert(format!("{}:{}", fl.name(), kind)) {
                            c.fail(&format!("c05:{}:{}:{}", label, kind, fl.name()), &format!("{} through the {} encrypted writer: {}", name, fl.name(), detail), json!({"endpoint": label, "key": vcommon::hex(&key), "writer": fl.name(), "reader": fl.name(), "probe": pool.frames[0].0, "messages": [name], "frames": [vcommon::hex_short(frame)]}));
                        }
                    }
                }
                if ciphers.iter().any(|x| x != &ciphers[0]) && reported.insert("writer-flavors-differ".into()) {
                    c.fail(&format!("c05:{}:writer-flavors-differ", label), &format!("the three encrypted writers emit different bytes for {}", name), json!({"endpoint": label, "key": vcommon::hex(&key), "messages": [name], "frames": [vcommon::hex_short(frame)]}));
                }
            }
        }
        let strat = (prop::collection::vec(any::<u8>(), 40), prop::collection::vec((0..n, any::<bool>()), 1..=16), 0usize..3, 0usize..3, 0..n);
        let cc = std::cell::RefCell::new(&mut c);
        let fail = vcommon::prop_search(seed, 500 + ei as u64, tier.pick(500, 20_000), &strat, |(key, idx, wf, rf, probe), counting| {
            let key = key_from(key);
            // with probability 1/2 per slot and when available, use a large frame (3-byte header for Wrath server)
            let idx: Vec<usize> = idx.iter().enumerate().map(|(k, (i, lg))| if *lg && !big.is_empty() && k % 3 == 1 { big[*i % big.len()] } else { *i }).collect();
            let frames: Vec<Vec<u8>> = idx.iter().map(|i| pool.frames[*i].1.clone()).collect();
            let (wflavor, rflavor) = (Flavor::ALL[*wf], Flavor::ALL[*rf]);
            let cyc = ep.encrypted_cycle(&key, &frames, wflavor, rflavor, Some(&pool.frames[*probe].1)).expect("world endpoint");
            if counting {
                let mut c = cc.borrow_mut();
                c.eval();
                if frames.len() >= 2 {
                    c.nontrivial(vcommon::fnv(format!("{}|{}|{}|{:?}", label, wflavor.name(), rflavor.name(), idx.iter().map(|i| pool.frames[*i].0.as_str()).collect::<Vec<_>>()).as_bytes()));
                    c.count("sequence>=2");
                }
                if frames.iter().any(|f| f.len() > 0x8003) {
                    c.count("contains_3_byte_header_candidate");
                }
                c.count(&format!("writer.{}", wflavor.name()));
                c.count(&format!("reader.{}", rflavor.name()));
                if c.want_sample() && frames.len() >= 2 && c.evaluations % 331 == 7 {
                    c.sample(json!({"endpoint": label, "key": vcommon::hex_short(&key), "writer": wflavor.name(), "reader": rflavor.name(), "messages": idx.iter().map(|i| pool.frames[*i].0.clone()).collect::<Vec<_>>(), "plain_bytes": frames.iter().map(|f| f.len()).sum::<usize>()}));
                }
            }
            let cipher = match &cyc.cipher {
                Ok(cph) => cph,
                Err(m) => return Err(format!("encrypted-write|{}", m)),
            };
            let plain: Vec<u8> = frames.iter().flatten().copied().collect();
            if cipher.len() != plain.len() {
                return Err(format!("cipher-length|ciphertext {} bytes, plaintext {}", cipher.len(), plain.len()));
            }
            let ranges = header_ranges(ep.ns(), dir, &frames.iter().collect::<Vec<_>>());
            for (i, (a, b)) in cipher.iter().zip(plain.iter()).enumerate() {
                if a != b && !ranges.iter().any(|(s, e)| i >= *s && i < *e) {
                    return Err(format!("cipher-differs-outside-header|byte {} differs outside the header ranges {:?}", i, ranges));
                }
            }
            if cyc.read_back.len() != frames.len() {
                return Err(format!("decrypt-count|{} written, {} read back; last: {}", frames.len(), cyc.read_back.len(), cyc.read_back.last().map(|o| o.short()).unwrap_or_default()));
            }
            for (k, (o, i)) in cyc.read_back.iter().zip(idx.iter()).enumerate() {
                match o {
                    Outcome::Ok { debug, consumed, .. } => {
                        if *debug != pool.frames[*i].2 {
                            return Err(format!("decrypt-value|message {} ({}) decrypts to a different value", k, pool.frames[*i].0));
                        }
                        if *consumed != pool.frames[*i].1.len() {
                            return Err(format!("decrypt-consumed|message {} ({}) consumed {} of {}", k, pool.frames[*i].0, consumed, pool.frames[*i].1.len()));
                        }
                    }
                    other => return Err(format!("decrypt-rejected|message {} ({}): {}", k, pool.frames[*i].0, other.short())),
                }
            }
            if cyc.probe_ok == Some(false) {
                return Err("cipher-desynchronised|the probe message after the sequence does not decrypt".into());
            }
            // identical bytes from the three writers
            if *wf == 0 {
                for other in [Flavor::Tokio, Flavor::Astd] {
                    let c2 = ep.encrypted_cycle(&key, &frames, other, Flavor::Sync, None).expect("world endpoint");
                    if c2.cipher.as_ref().ok() != Some(cipher) {
                        return Err(format!("writer-flavors-differ|{} writer emits other bytes than the sync writer", other.name()));
                    }
                }
            }
            Ok(())
        });
        if let Some(((key, idx, wf, rf, probe), msg)) = fail {
            let (kind, detail) = msg.split_once('|').unwrap_or((&msg, ""));
            let j = json!({"endpoint": label, "key": vcommon::hex(&key), "writer": Flavor::ALL[wf].name(), "reader": Flavor::ALL[rf].name(), "probe": pool.frames[probe].0,
                "messages": idx.iter().map(|(i, _)| pool.frames[*i].0.clone()).collect::<Vec<_>>(), "frames": idx.iter().map(|(i, _)| vcommon::hex_short(&pool.frames[*i].1)).collect::<Vec<_>>()});
            c.fail(&format!("c05:{}:{}", label, kind), detail, j);
        }
        // typed helpers
        if let Some(ts) = typed::find(&typed_sets, exp, dir) {
            let mut tpool = build_pool(&corpus, ep.as_ref(), seed, 3, Some(ts.names));
            for n in extra {
                if let Ok(f) = typed::warden_write(exp, dir, *n) {
                    if let Outcome::Ok { debug, .. } = ep.read_one(&f) {
                        tpool.frames.push((warden.to_string(), f, debug));
                    }
                }
            }
            if !tpool.frames.is_empty() {
                let tn = tpool.frames.len();
                let strat = (prop::collection::vec(any::<u8>(), 40), prop::collection::vec(0..tn, 1..=10), 0usize..3);
                let cc = std::cell::RefCell::new(&mut c);
                let fail = vcommon::prop_search(seed, 600 + ei as u64, tier.pick(200, 8_000), &strat, |(key, idx, fl), counting| {
                    let key = key_from(key);
                    let flavor = Flavor::ALL[*fl];
                    let frames: Vec<(String, Vec<u8>)> = idx.iter().map(|i| (tpool.frames[*i].0.clone(), tpool.frames[*i].1.clone())).collect();
                    let Some(cyc) = (ts.encrypted_cycle)(&key, &frames, flavor) else { return Ok(()) };
                    if counting {
                        let mut c = cc.borrow_mut();
                        c.eval();
                        c.count(&format!("typed.{}", flavor.name()));
                        if idx.len() >= 2 {
                            c.nontrivial(vcommon::fnv(format!("{}|typed|{}|{:?}", label, flavor.name(), idx.iter().map(|i| tpool.frames[*i].0.as_str()).collect::<Vec<_>>()).as_bytes()));
                        }
                    }
                    let cipher = match &cyc.cipher {
                        Ok(cph) => cph,
                        Err(m) => return Err(format!("typed-encrypted-write|{}", m)),
                    };
                    let plain: Vec<u8> = frames.iter().flat_map(|f| f.1.iter()).copied().collect();
                    if cipher.len() != plain.len() {
                        return Err(format!("typed-cipher-length|{} vs {}", cipher.len(), plain.len()));
                    }
                    let ranges = header_ranges(ep.ns(), dir, &frames.iter().map(|f| &f.1).collect::<Vec<_>>());
                    for (i, (a, b)) in cipher.iter().zip(plain.iter()).enumerate() {
                        if a != b && !ranges.iter().any(|(s, e)| i >= *s && i < *e) {
                            return Err(format!("typed-cipher-differs-outside-header|byte {}", i));
                        }
                    }
                    if cyc.read_back.len() != frames.len() {
                        return Err(format!("typed-decrypt-count|{} written, {} read back; last: {}", frames.len(), cyc.read_back.len(), cyc.read_back.last().map(|o| o.short()).unwrap_or_default()));
                    }
                    for (k, (o, i)) in cyc.read_back.iter().zip(idx.iter()).enumerate() {
                        match o {
                            Outcome::Ok { debug, consumed, .. } => {
                                if !tpool.frames[*i].2.contains(debug.as_str()) {
                                    return Err(format!("typed-decrypt-value|message {} ({})", k, tpool.frames[*i].0));
                                }
                                if *consumed != tpool.frames[*i].1.len() {
                                    return Err(format!("typed-decrypt-consumed|message {} ({}) consumed {} of {}", k, tpool.frames[*i].0, consumed, tpool.frames[*i].1.len()));
                                }
                            }
                            other => return Err(format!("typed-decrypt-rejected|message {} ({}): {}", k, tpool.frames[*i].0, other.short())),
                        }
                    }
                    Ok(())
                });
                if let Some(((key, idx, fl), msg)) = fail {
                    let (kind, detail) = msg.split_once('|').unwrap_or((&msg, ""));
                    let j = json!({"endpoint": format!("{}/typed", label), "key": vcommon::hex(&key), "flavor": Flavor::ALL[fl].name(), "messages": idx.iter().map(|i| tpool.frames[*i].0.clone()).collect::<Vec<_>>(), "frames": idx.iter().map(|i| vcommon::hex_short(&tpool.frames[*i].1)).collect::<Vec<_>>()});
                    c.fail(&format!("c05:{}/typed:{}", label, kind), detail, j);
                }
            }
        }
    }
    c.finish()
}

#[allow(dead_code)]
fn _unused(_: &dyn Ep) {}
