//! Isolated workers: `catch_unwind` cannot see aborts (allocation failure, stack overflow) or runaway
//! loops, so entries are processed in worker processes of this same binary under an address-space
//! limit and a watchdog. A dying worker is attributed to the entry (and, by a traced re-run, to the
//! case) it was processing; the supervisor carries on with a fresh worker.
use serde_json::Value;
use std::io::{BufRead, BufReader, Read, Write};
use std::process::{Command, Stdio};
use std::sync::mpsc;
use std::sync::{Arc, Mutex};
use std::time::{Duration, Instant};

/// address-space budget of a decode call beyond the worker's footprint (DESIGN 1.4). As first built the limit was an
/// absolute 1 GiB + 768 MiB idle allowance over a ~415 MiB worker, i.e. ~1.35 GiB of real headroom; the honest 32 MiB
/// zlib bomb of the corruption set (3.3 million 10-byte elements) needs ~1.2 GiB of it. Now stated directly: 1.5 GiB.
pub const BUDGET_BYTES: u64 = 1536 << 20;
/// idle footprint allowance: binary, corpus, 256 MiB worker stack
pub const IDLE_BYTES: u64 = 768 << 20;

pub fn limit_address_space() {
    // C03 judges allocations: BUDGET_BYTES beyond the footprint. The other worker-based checks only need isolation from
    // aborts; their own bookkeeping (thousands of traced encodings per message in the thorough tier) must not be
    // mistaken for a library allocation failure, so they get a wide limit.
    let budget = std::env::var("VERIF_WORKER_BUDGET_MIB").ok().and_then(|v| v.parse::<u64>().ok()).map(|m| m << 20).unwrap_or(BUDGET_BYTES);
    // soft limit only: C03 re-bases it on the worker's current footprint while it works (rebase_address_space_limit)
    let lim = libc::rlimit { rlim_cur: budget + IDLE_BYTES, rlim_max: libc::RLIM_INFINITY };
    unsafe {
        libc::setrlimit(libc::RLIMIT_AS, &lim);
        // no core files
        let z = libc::rlimit { rlim_cur: 0, rlim_max: 0 };
        libc::setrlimit(libc::RLIMIT_CORE, &z);
    }
}

/// C03 judges what a decode call allocates, not what the harness holds (thousands of traced encodings per message in
/// the thorough tier): the limit becomes `current virtual size + budget`. Called between cases.
pub fn rebase_address_space_limit() {
    let budget = std::env::var("VERIF_WORKER_BUDGET_MIB").ok().and_then(|v| v.parse::<u64>().ok()).map(|m| m << 20).unwrap_or(BUDGET_BYTES);
    let vm = std::fs::read_to_string("/proc/self/statm").ok().and_then(|s| s.split_whitespace().next().and_then(|p| p.parse::<u64>().ok())).map(|p| p * 4096);
    if let Some(vm) = vm {
        if std::env::var("VERIF_DEBUG_LIMIT").is_ok() { eprintln!("rebase: vm={} MiB budget={} MiB", vm >> 20, budget >> 20); }
        let lim = libc::rlimit { rlim_cur: vm + budget, rlim_max: libc::RLIM_INFINITY };
        unsafe {
            libc::setrlimit(libc::RLIMIT_AS, &lim);
        }
    }
}

/// lifts the soft address-space limit (the hard one was never set): what the harness allocates between two decode
/// calls (a directed enumeration of thousands of encodings) is not judged
pub fn lift_address_space_limit() {
    let lim = libc::rlimit { rlim_cur: libc::RLIM_INFINITY, rlim_max: libc::RLIM_INFINITY };
    unsafe {
        libc::setrlimit(libc::RLIMIT_AS, &lim);
    }
}

/// runs one decode call under `current virtual size + budget`
pub fn with_decode_budget<T>(f: impl FnOnce() -> T) -> T {
    rebase_address_space_limit();
    let r = f();
    lift_address_space_limit();
    r
}

#[derive(Debug, Clone)]
pub struct Death {
    pub label: String,
    /// `alloc`, `stack-overflow`, `signal-N`, `exit-N`, `timeout`
    pub reason: String,
    pub stderr_tail: String,
    /// the last case the traced re-run logged before dying (if the death reproduced)
    pub case: Option<Value>,
}

/// deaths of a shared worker that did not happen again with the entry alone in a fresh worker
pub static NOT_REPRODUCED_ALONE: std::sync::atomic::AtomicUsize = std::sync::atomic::AtomicUsize::new(0);

pub struct Supervised {
    pub reports: Vec<Value>,
    pub deaths: Vec<Death>,
}

fn classify(status: &std::process::ExitStatus, stderr: &str) -> String {
    use std::os::unix::process::ExitStatusExt;
    if stderr.contains("memory allocation of") || stderr.contains("capacity overflow") && stderr.contains("abort") {
        return "alloc".into();
    }
    if stderr.contains("has overflowed its stack") {
        return "stack-overflow".into();
    }
    if let Some(s) = status.signal() {
        return format!("signal-{}", s);
    }
    format!("exit-{}", status.code().unwrap_or(-1))
}

struct RunResult {
    reports: Vec<Value>,
    /// Some((label in progress, reason, stderr tail)) when the worker did not finish its list
    death: Option<(String, String, String)>,
    done: usize,
}

fn run_worker(id: &str, tier: &str, labels: &[String], timeout: Duration, trace_file: Option<&std::path::Path>, extra_env: &[(String, String)]) -> RunResult {
    let exe = std::env::current_exe().expect("current exe");
    let mut cmd = Command::new(exe);
    cmd.env("RUST_BACKTRACE", "0");
    cmd.arg(id).arg(tier).arg("--worker").stdin(Stdio::piped()).stdout(Stdio::piped()).stderr(Stdio::piped());
    if let Some(t) = trace_file {
        cmd.env("VERIF_TRACE_CASES", t);
    }
    for (k, v) in extra_env {
        cmd.env(k, v);
    }
    let mut child = cmd.spawn().expect("spawn worker");
    {
        let mut stdin = child.stdin.take().unwrap();
        for l in labels {
            let _ = writeln!(stdin, "{}", l);
        }
    }
    let stdout = child.stdout.take().unwrap();
    let mut stderr = child.stderr.take().unwrap();
    let (tx, rx) = mpsc::channel::<String>();
    let reader = std::thread::spawn(move || {
        for line in BufReader::new(stdout).lines().map_while(Result::ok) {
            if tx.send(line).is_err() {
                break;
            }
        }
    });
    let err_reader = std::thread::spawn(move || {
        let mut s = Vec::new();
        let _ = stderr.read_to_end(&mut s);
        let s = String::from_utf8_lossy(&s).to_string();
        // the first lines carry the panic / allocation message, the last ones the end of a backtrace
        let head: String = s.lines().filter(|l| !l.trim_start().starts_with("at ") && !l.trim_start().chars().next().map(|c| c.is_ascii_digit()).unwrap_or(false)).take(6).collect::<Vec<_>>().join(" | ");
        head.chars().take(1200).collect::<String>()
    });
    let mut reports = Vec::new();
    let mut current: Option<String> = None;
    let mut done = 0usize;
    let mut timed_out = false;
    let mut last = Instant::now();
    loop {
        match rx.recv_timeout(Duration::from_millis(200)) {
            Ok(line) => {
                last = Instant::now();
                if let Some(l) = line.strip_prefix("START ") {
                    current = Some(l.to_string());
                } else if let Some(j) = line.strip_prefix("REPORT ") {
                    if let Ok(v) = serde_json::from_str::<Value>(j) {
                        if v["wall_ms"].as_u64().unwrap_or(0) > 120_000 {
                            eprintln!("[{}] slow entry: {} took {} s", id, v["label"].as_str().unwrap_or("?"), v["wall_ms"].as_u64().unwrap_or(0) / 1000);
                        }
                        reports.push(v);
                    }
                    current = None;
                    done += 1;
                }
            }
            Err(mpsc::RecvTimeoutError::Timeout) => {
                if last.elapsed() > timeout {
                    timed_out = true;
                    let _ = child.kill();
                    break;
                }
            }
            Err(mpsc::RecvTimeoutError::Disconnected) => break,
        }
    }
    let status = child.wait().expect("wait worker");
    let _ = reader.join();
    let stderr_tail = err_reader.join().unwrap_or_default();
    let death = if timed_out {
        Some((current.clone().unwrap_or_else(|| labels.get(done).cloned().unwrap_or_default()), "timeout".to_string(), stderr_tail))
    } else if done < labels.len() || !status.success() {
        Some((current.clone().unwrap_or_else(|| labels.get(done).cloned().unwrap_or_default()), classify(&status, &stderr_tail), stderr_tail))
    } else {
        None
    };
    RunResult { reports, death, done }
}

/// Processes `labels` in worker processes (`nworkers` at a time, `batch` labels per process).
pub fn supervise(id: &str, tier: &str, labels: Vec<String>, nworkers: usize, batch: usize, timeout: Duration, extra_env: Vec<(String, String)>) -> Supervised {
    supervise_batches(id, tier, labels.chunks(batch.max(1)).map(|c| c.to_vec()).collect(), nworkers, timeout, extra_env)
}

/// like `supervise` with the batches chosen by the caller (taken in the given order)
pub fn supervise_batches(id: &str, tier: &str, batches: Vec<Vec<String>>, nworkers: usize, timeout: Duration, extra_env: Vec<(String, String)>) -> Supervised {
    let queue: Arc<Mutex<Vec<Vec<String>>>> = Arc::new(Mutex::new(batches.into_iter().rev().collect()));
    let out: Arc<Mutex<(Vec<Value>, Vec<Death>)>> = Arc::new(Mutex::new((Vec::new(), Vec::new())));
    let mut handles = Vec::new();
    for w in 0..nworkers.max(1) {
        let queue = queue.clone();
        let out = out.clone();
        let id = id.to_string();
        let tier = tier.to_string();
        let extra_env = extra_env.clone();
        handles.push(std::thread::spawn(move || loop {
            let Some(mut list) = queue.lock().unwrap().pop() else { break };
            while !list.is_empty() {
                let r = run_worker(&id, &tier, &list, timeout, None, &extra_env);
                out.lock().unwrap().0.extend(r.reports);
                match r.death {
                    None => break,
                    Some((label, reason, stderr_tail)) => {
                        // traced re-run of the entry alone to find the killing case
                        let mut case = None;
                        if reason != "timeout" {
                            let tf = std::env::temp_dir().join(format!("verif_trace_{}_{}_{}.jsonl", id, std::process::id(), w));
                            let _ = std::fs::remove_file(&tf);
                            let rr = run_worker(&id, &tier, std::slice::from_ref(&label), timeout, Some(&tf), &extra_env);
                            if rr.death.is_some() {
                                if let Ok(s) = std::fs::read_to_string(&tf) {
                                    case = s.lines().last().and_then(|l| serde_json::from_str(l).ok());
                                }
                            }
                            let _ = std::fs::remove_file(&tf);
                            if rr.death.is_none() && !rr.reports.is_empty() {
                                // A worker's result for an entry is a pure function of (tree, seed, entry). The same
                                // entry, alone in a fresh worker under the same limits, ran every one of its cases to
                                // the end: what killed the first worker was what it had accumulated over the entries
                                // before this one (allocator fragmentation under RLIMIT_AS), not a call into the
                                // library. The fresh worker's report stands for the entry; the event is counted.
                                NOT_REPRODUCED_ALONE.fetch_add(1, std::sync::atomic::Ordering::Relaxed);
                                eprintln!("[{}] worker died ({}) in {} after {} earlier entries; the entry alone in a fresh worker completes: not attributed", id, reason, label, r.done);
                                out.lock().unwrap().0.extend(rr.reports);
                                let pos = list.iter().position(|l| *l == label).map(|p| p + 1).unwrap_or(r.done + 1);
                                list = list.split_off(pos.min(list.len()));
                                continue;
                            }
                        }
                        out.lock().unwrap().1.push(Death { label: label.clone(), reason, stderr_tail, case });
                        // continue after the entry that died
                        let pos = list.iter().position(|l| *l == label).map(|p| p + 1).unwrap_or(r.done + 1);
                        list = list.split_off(pos.min(list.len()));
                    }
                }
            }
        }));
    }
    for h in handles {
        let _ = h.join();
    }
    let (reports, deaths) = std::mem::take(&mut *out.lock().unwrap());
    Supervised { reports, deaths }
}

/// Worker side: reads labels from stdin, runs `f` for each on a big-stack thread, prints START/REPORT lines.
pub fn worker_loop(f: impl Fn(&str) -> Value + Send + Sync + 'static) -> i32 {
    limit_address_space();
    let f = Arc::new(f);
    let h = std::thread::Builder::new()
        .stack_size(256 << 20)
        .spawn(move || {
            let stdin = std::io::stdin();
            let labels: Vec<String> = stdin.lock().lines().map_while(Result::ok).filter(|l| !l.is_empty()).collect();
            let stdout = std::io::stdout();
            for l in labels {
                {
                    let mut o = stdout.lock();
                    let _ = writeln!(o, "START {}", l);
                    let _ = o.flush();
                }
                let t0 = Instant::now();
                let mut v = f(&l);
                if let Some(o) = v.as_object_mut() {
                    o.insert("wall_ms".into(), serde_json::json!(t0.elapsed().as_millis() as u64));
                }
                let mut o = stdout.lock();
                let _ = writeln!(o, "REPORT {}", v);
                let _ = o.flush();
            }
        })
        .expect("spawn worker thread");
    match h.join() {
        Ok(()) => 0,
        Err(_) => 3,
    }
}

/// appends a case to the trace file (only in traced re-runs)
pub fn trace_case(v: &dyn Fn() -> Value) {
    if let Ok(p) = std::env::var("VERIF_TRACE_CASES") {
        if let Ok(mut f) = std::fs::OpenOptions::new().create(true).append(true).open(p) {
            let _ = writeln!(f, "{}", v());
            let _ = f.flush();
        }
    }
}

pub fn tracing() -> bool {
    std::env::var("VERIF_TRACE_CASES").is_ok()
}
