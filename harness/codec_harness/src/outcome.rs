//! Normalised result of calling a public read/write function of the libraries.
use crate::dbg::{self, Dbg};
use std::cell::RefCell;

#[derive(Debug, Clone, PartialEq)]
pub enum ErrClass {
    Io,
    BufferTooSmall,
    Enum { name: String, value: i128 },
    String,
    DateTime,
    InvalidSize,
    AllocationTooLarge(u64),
    UnknownOpcode { opcode: u32 },
    Other(String),
}

impl ErrClass {
    /// class name without payload, for differential comparison
    pub fn kind(&self) -> &'static str {
        match self {
            ErrClass::Io => "Io",
            ErrClass::BufferTooSmall => "BufferTooSmall",
            ErrClass::Enum { .. } => "Enum",
            ErrClass::String => "String",
            ErrClass::DateTime => "DateTime",
            ErrClass::InvalidSize => "InvalidSize",
            ErrClass::AllocationTooLarge(_) => "AllocationTooLarge",
            ErrClass::UnknownOpcode { .. } => "UnknownOpcode",
            ErrClass::Other(_) => "Other",
        }
    }
}

#[derive(Debug, Clone)]
pub enum Outcome {
    Ok {
        debug: String,
        consumed: usize,
        /// bytes produced by writing the decoded value back (Err = write failed / panicked)
        rewritten: Result<Vec<u8>, String>,
    },
    Err {
        class: ErrClass,
        debug: String,
        consumed: usize,
    },
    Panic {
        message: String,
        location: String,
    },
}

impl Outcome {
    pub fn short(&self) -> String {
        match self {
            Outcome::Ok { debug, consumed, rewritten } => format!("Ok(consumed={}, rewritten={}, {})", consumed, rewritten.as_ref().map(|b| b.len().to_string()).unwrap_or_else(|e| format!("ERR {}", e)), trunc(debug, 300)),
            Outcome::Err { class, consumed, debug } => format!("Err({:?}, consumed={}, {})", class, consumed, trunc(debug, 200)),
            Outcome::Panic { message, location } => format!("PANIC '{}' at {}", trunc(message, 200), location),
        }
    }
    pub fn is_panic(&self) -> bool {
        matches!(self, Outcome::Panic { .. })
    }
    pub fn kind(&self) -> String {
        match self {
            Outcome::Ok { .. } => "Ok".into(),
            Outcome::Err { class, .. } => format!("Err:{}", class.kind()),
            Outcome::Panic { .. } => "Panic".into(),
        }
    }
}

pub fn trunc(s: &str, n: usize) -> String {
    if s.len() <= n {
        s.to_string()
    } else {
        let mut e = n;
        while !s.is_char_boundary(e) {
            e -= 1;
        }
        format!("{}…({} chars)", &s[..e], s.len())
    }
}

pub fn classify_error(debug: &str) -> ErrClass {
    let Ok(d) = dbg::parse(debug) else { return ErrClass::Other(format!("unparsable: {}", trunc(debug, 120))) };
    if let Some(pe) = d.find_named("ParseError") {
        if let Some(k) = pe.field("kind") {
            return match k.name() {
                "Io" => ErrClass::Io,
                "BufferSizeTooSmall" => ErrClass::BufferTooSmall,
                "String" => ErrClass::String,
                "DateTime" => ErrClass::DateTime,
                "InvalidSize" => ErrClass::InvalidSize,
                "AllocationTooLargeError" => ErrClass::AllocationTooLarge(match k {
                    Dbg::Tuple(_, v) => v.first().and_then(|x| x.as_i128()).unwrap_or(0) as u64,
                    _ => 0,
                }),
                "Enum" => {
                    let e = k.find_named("EnumError");
                    ErrClass::Enum {
                        name: e.and_then(|e| e.field("name")).and_then(|n| n.as_str()).unwrap_or("").to_string(),
                        value: e.and_then(|e| e.field("value")).and_then(|n| n.as_i128()).unwrap_or(i128::MIN),
                    }
                }
                other => ErrClass::Other(other.to_string()),
            };
        }
    }
    match &d {
        Dbg::Struct(n, _) if n == "Opcode" => ErrClass::UnknownOpcode { opcode: d.field("opcode").and_then(|x| x.as_i128()).unwrap_or(-1) as u32 },
        Dbg::Tuple(n, v) if n == "Opcode" => ErrClass::UnknownOpcode { opcode: v.first().and_then(|x| x.as_i128()).unwrap_or(-1) as u32 },
        Dbg::Tuple(n, _) if n == "Io" => ErrClass::Io,
        _ => ErrClass::Other(trunc(debug, 120)),
    }
}

thread_local! {
    static LAST_PANIC: RefCell<Option<(String, String)>> = const { RefCell::new(None) };
    static CATCH_DEPTH: std::cell::Cell<u32> = const { std::cell::Cell::new(0) };
}

pub fn install_panic_hook() {
    std::panic::set_hook(Box::new(|info| {
        let msg = if let Some(s) = info.payload().downcast_ref::<&str>() {
            s.to_string()
        } else if let Some(s) = info.payload().downcast_ref::<String>() {
            s.clone()
        } else {
            "<non-string panic>".to_string()
        };
        let loc = info.location().map(|l| format!("{}:{}", l.file(), l.line())).unwrap_or_default();
        if CATCH_DEPTH.with(|d| d.get()) == 0 {
            // a panic of the harness itself: report it
            eprintln!("harness panic: '{}' at {}", msg, loc);
        }
        LAST_PANIC.with(|p| *p.borrow_mut() = Some((msg, loc)));
    }));
}

/// runs `f`, turning a panic into Err((message, location))
pub fn catch<T>(f: impl FnOnce() -> T) -> Result<T, (String, String)> {
    LAST_PANIC.with(|p| *p.borrow_mut() = None);
    CATCH_DEPTH.with(|d| d.set(d.get() + 1));
    let r = std::panic::catch_unwind(std::panic::AssertUnwindSafe(f));
    CATCH_DEPTH.with(|d| d.set(d.get() - 1));
    match r {
        Ok(v) => Ok(v),
        Err(_) => Err(LAST_PANIC.with(|p| p.borrow_mut().take()).unwrap_or_else(|| ("<unknown>".into(), String::new()))),
    }
}

/// location relative to the repository (stable across checkouts)
pub fn rel_location(loc: &str) -> String {
    match loc.find("/wow_") {
        Some(i) => loc[i + 1..].to_string(),
        None => loc.rsplit('/').take(2).collect::<Vec<_>>().into_iter().rev().collect::<Vec<_>>().join("/"),
    }
}
