//! C03: decoding is total - any bytes give a message or an error, never a panic, abort, overflow,
//! hang or an allocation out of proportion to the frame. Structured corruptions of valid messages
//! (built from the model's trace) and random frames, executed in isolated workers under an
//! address-space limit.
use crate::corpus::Corpus;
use crate::endpoints::Flavor;
use crate::gen::*;
use crate::outcome::*;
use crate::suite::*;
use proptest::prelude::*;
use serde_json::{json, Value};
use std::collections::{BTreeMap, BTreeSet};
use vcommon::{Check, KnownFindings, Tier};
use wowm_model::frame::*;
use wowm_model::resolve::*;
use wowm_model::walk::{Leaf, Role};

pub struct Corruption {
    pub kind: String,
    pub site: String,
    pub frame: Vec<u8>,
    /// the corruption lies past the first field / reaches field reads
    pub deep: bool,
}

fn put(frame: &mut [u8], off: usize, width: usize, v: u128) {
    for i in 0..width {
        frame[off + i] = (v >> (8 * i)) as u8;
    }
}

fn with_header(e: &Entry, body: &[u8]) -> Option<Vec<u8>> {
    let mut f = header(e, body.len())?;
    f.extend_from_slice(body);
    Some(f)
}

/// zlib stream of `n` zero bytes
fn bomb(n: usize) -> Vec<u8> {
    miniz_oxide::deflate::compress_to_vec_zlib(&vec![0u8; n], 9)
}

pub fn corruptions(e: &Entry, enc: &Encoded, done: &mut BTreeSet<(String, String)>) -> Vec<Corruption> {
    let mut out = Vec::new();
    let hl = enc.header_len;
    let body = enc.body().to_vec();
    let leaves: Vec<&Leaf> = enc.trace.iter().filter(|l| l.region == 0 && l.width > 0).collect();
    // which (string-long kind, site) pairs exist already: their frames (a copy of the body each) are not built again
    let mut long_built: BTreeSet<String> = done.iter().filter(|(k, _)| k.starts_with("string-long-") && !k.contains(':')).map(|(k, s)| format!("{}|{}", k, s)).collect();
    let mut push = |kind: String, site: String, frame: Option<Vec<u8>>, deep: bool, out: &mut Vec<Corruption>| {
        if let Some(frame) = frame {
            if done.insert((kind.clone(), site.clone())) {
                out.push(Corruption { kind, site, frame, deep });
            }
        }
    };
    // truncation at each field boundary and mid-field; header consistent with the truncated body, and header left as it was
    for (i, l) in leaves.iter().enumerate() {
        let site = crate::oracle::strip_indices(&l.path);
        for (cut, k) in [(l.offset, "truncate-at"), (l.offset + l.width / 2, "truncate-mid")] {
            if cut >= body.len() || (k == "truncate-mid" && l.width < 2) {
                continue;
            }
            push(format!("{}:consistent-header", k), site.clone(), with_header(e, &body[..cut]), i > 0, &mut out);
            push(format!("{}:stale-header", k), site.clone(), Some(enc.frame[..hl + cut].to_vec()), i > 0, &mut out);
        }
    }
    // length / count / size fields
    for (i, l) in leaves.iter().enumerate() {
        let site = crate::oracle::strip_indices(&l.path);
        let bits = l.width * 8;
        let max: u128 = if bits >= 128 { u128::MAX } else { (1u128 << bits) - 1 };
        let cur = match &l.value {
            wowm_model::walk::Val::I(v) => (*v as u128) & max,
            _ => 0,
        };
        let vals: Vec<(u128, &str)> = match l.role {
            Role::LengthOf | Role::StrLen | Role::DecompressedSize | Role::SelfSize => vec![(0, "0"), (1, "1"), (cur.wrapping_sub(1) & max, "true-1"), ((cur + 1) & max, "true+1"), (max >> 1, "0x7f.."), (max, "0xff.."), (0x10000 & max, "65536"), (0x0100_0000 & max, "2^24")],
            Role::Enum | Role::Flag | Role::Bool => vec![(max, "0xff.."), (1u128 << (bits - 1), "0x80.."), (2, "2")],
            Role::Mask => vec![(max, "0xff.."), (max >> 1, "0x7f.."), (0, "0")],
            Role::DateTime => vec![(max, "0xff.."), (0x0007_d000, "day32")],
            Role::Terminator => vec![(0xff, "0xff")],
            Role::StrBytes => vec![],
            _ => vec![],
        };
        for (v, name) in vals {
            if v == cur {
                continue;
            }
            let mut f = enc.frame.clone();
            put(&mut f, hl + l.offset, l.width, v);
            push(format!("{:?}={}", l.role, name), site.clone(), Some(f), i > 0, &mut out);
        }
        if l.role == Role::StrBytes {
            let mut f = enc.frame.clone();
            f[hl + l.offset] = 0xFF;
            push("string-invalid-utf8".into(), site.clone(), Some(f), i > 0, &mut out);
            // string that never terminates: replace every byte to the end with 'A'
            let mut f = enc.frame.clone();
            for b in f[hl + l.offset..].iter_mut() {
                *b = b'A';
            }
            push("string-unterminated".into(), site.clone(), Some(f), i > 0, &mut out);
            // a NUL-terminated string replaced by one around the readers' 256-byte cut-off (with and without NUL), the rest
            // of the body kept, then the body cut at each of the following field boundaries: what the reader counted for
            // the string and what it consumed must not drift apart
            if leaves.get(i + 1).map(|n| n.role == Role::Terminator && n.offset == l.offset + l.width).unwrap_or(false) {
                let after = l.offset + l.width + 1;
                for n in [255usize, 256, 257, 300] {
                    for nul in [false, true] {
                        // (the frames are only built for a site that has not had them yet)
                        if !long_built.insert(format!("string-long-{}{}|{}", n, if nul { "-nul" } else { "" }, site)) {
                            continue;
                        }
                        let mut b: Vec<u8> = body[..l.offset].to_vec();
                        b.extend(std::iter::repeat(b'A').take(n));
                        if nul {
                            b.push(0);
                        }
                        let head = b.len();
                        b.extend_from_slice(&body[after.min(body.len())..]);
                        let tag = format!("string-long-{}{}", n, if nul { "-nul" } else { "" });
                        push(tag.clone(), site.clone(), with_header(e, &b), i > 0, &mut out);
                        for (k, later) in leaves.iter().skip(i + 2).take(12).enumerate() {
                            let cut = head + (later.offset + later.width).saturating_sub(after);
                            if cut < b.len() {
                                push(format!("{}:cut-after-field+{}", tag, k + 1), site.clone(), with_header(e, &b[..cut]), true, &mut out);
                            }
                        }
                    }
                }
            }
        }
    }
    // header size smaller / larger than the body
    if let Ns::World(exp) = e.ns {
        let opw = if e.dir == Direction::Client { 4usize } else { 2 };
        let true_size = body.len() + opw;
        for (sz, name) in [(0usize, "size=0"), (opw.saturating_sub(1), "size<opcode"), (opw, "size=opcode"), (true_size.saturating_sub(1), "size-1"), (true_size + 1, "size+1"), (true_size + 1000, "size+1000"), (0x7FFF, "size=0x7fff"), (0xFFFF, "size=0xffff")] {
            if sz == true_size {
                continue;
            }
            let mut f = enc.frame.clone();
            if hl == 5 {
                continue;
            }
            f[0] = (sz >> 8) as u8;
            f[1] = sz as u8;
            if exp == Expansion::Wrath && e.dir == Direction::Server && f[0] & 0x80 != 0 {
                // becomes a 3-byte header: still a byte string the reader must survive
            }
            push(format!("header:{}", name), "header".into(), Some(f), false, &mut out);
        }
        if exp == Expansion::Wrath && e.dir == Direction::Server {
            // 3-byte size announcing almost 8 MiB in front of a short body
            let mut f = vec![0xFF, 0xFF, 0xFF, e.opcode as u8, (e.opcode >> 8) as u8];
            f.extend_from_slice(&body);
            push("header:large-0x7fffff".into(), "header".into(), Some(f), false, &mut out);
        }
    }
    // compressed payloads
    for (ri, reg) in enc.regions.iter().enumerate() {
        if reg.parent != 0 {
            continue;
        }
        let zoff = reg.size_field_offset + 4;
        let stream = body[zoff.min(body.len())..].to_vec();
        let site = format!("region{}", ri + 1);
        let head = &body[..reg.size_field_offset];
        let build = |declared: u32, stream: &[u8]| {
            let mut b = head.to_vec();
            b.extend_from_slice(&declared.to_le_bytes());
            b.extend_from_slice(stream);
            with_header(e, &b)
        };
        let n = reg.payload.len() as u32;
        if !stream.is_empty() {
            push("zlib:truncated".into(), site.clone(), build(n, &stream[..stream.len() / 2]), true, &mut out);
            let mut s2 = stream.clone();
            let m = s2.len() / 2;
            s2[m] ^= 0x55;
            push("zlib:bitflip".into(), site.clone(), build(n, &s2), true, &mut out);
            push("zlib:header-only".into(), site.clone(), build(n, &stream[..2.min(stream.len())]), true, &mut out);
        }
        push("zlib:garbage".into(), site.clone(), build(n.max(16), &[0x13, 0x37, 0xde, 0xad, 0xbe, 0xef]), true, &mut out);
        push("zlib:declared-huge".into(), site.clone(), build(0xFFFF_FFFF, &stream), true, &mut out);
        push("zlib:declared-0-with-stream".into(), site.clone(), build(0, &stream), true, &mut out);
        push("zlib:declared-small".into(), site.clone(), build(1, &stream), true, &mut out);
        // bomb: 32 MiB of zeros in ~32 KiB of stream, declared honestly and declared tiny
        let b = bomb(32 << 20);
        push("zlib:bomb-declared".into(), site.clone(), build(32 << 20, &b), true, &mut out);
        push("zlib:bomb-undeclared".into(), site.clone(), build(4, &b), true, &mut out);
        push("zlib:valid-stream-of-garbage".into(), site.clone(), build(300, &miniz_oxide::deflate::compress_to_vec_zlib(&[0xFFu8; 300], 6)), true, &mut out);
    }
    out
}

fn process_entry(c: &Corpus, e: &Entry, tier: Tier, seed: u64, known: &KnownFindings) -> EntryReport {
    let mut r = EntryReport::new(e.label());
    let ep = c.ep(e);
    let encf = |t: &[u8], f: &BTreeMap<String, u32>| c.encode(e, t, f);
    let mut tapes: Vec<Vec<u8>> = vec![vec![]];
    for k in 0..tier.pick(1u64, 3) {
        let s = vcommon::mix(seed, vcommon::fnv(e.label().as_bytes()) ^ (0xC03 + k));
        tapes.push((0..512u64).map(|i| (vcommon::mix(s, i) >> 24) as u8).collect());
    }
    let mut failed: BTreeSet<String> = BTreeSet::new();
    let mut done: BTreeSet<(String, String)> = BTreeSet::new();
    let label = e.label();
    let mut judge = |r: &mut EntryReport, kind: &str, site: &str, frame: &[u8], deep: bool, origin: Value| {
        crate::iso::trace_case(&|| json!({"entry": label, "corruption": kind, "site": site, "frame": vcommon::hex(frame), "origin": origin}));
        r.evals += 1;
        let o = crate::iso::with_decode_budget(|| ep.read_only(frame));
        let reached_fields = !matches!(&o, Outcome::Err { class: ErrClass::InvalidSize, .. } | Outcome::Err { class: ErrClass::UnknownOpcode { .. }, .. });
        if deep || reached_fields {
            r.distinct.insert(vcommon::fnv(format!("{}|{}|{}", label, site, kind).as_bytes()));
        }
        r.count(&format!("result.{}", o.kind()));
        if let Outcome::Panic { message, location } = &o {
            let k = format!("panic:{}", rel_location(location));
            if let Some(s) = known_sig(known, "C03", "c03", &label, &k) {
                *r.known_hits.entry(s).or_insert(0) += 1;
            } else if failed.insert(k.clone()) {
                r.fails.push((format!("c03:{}:{}", label, k), format!("{} at {}: '{}'", kind, site, trunc(message, 160)), json!({"entry": label, "corruption": kind, "site": site, "frame": vcommon::hex(frame), "origin": origin, "library": o.short()})));
            }
        } else if r.samples.len() < 2 && deep {
            r.samples.push(json!({"entry": label, "corruption": kind, "site": site, "frame": vcommon::hex_short(frame), "library": o.short()}));
        }
    };
    for st in &tapes {
        let cases = match directed(&encf, st, tier.pick(800, 8000), &mut r.dstats) {
            Ok(cs) => cs,
            Err(p) => {
                r.problem = Some(p);
                break;
            }
        };
        for case in &cases {
            for cor in corruptions(e, &case.enc, &mut done) {
                r.count(&format!("corruption.{}", cor.kind.split(':').next().unwrap_or("").split('=').next().unwrap_or("")));
                judge(&mut r, &cor.kind, &cor.site, &cor.frame, cor.deep, json!({"tape": vcommon::hex(&case.tape), "forced": forced_json(&case.forced)}));
            }
        }
    }
    // random bodies for this opcode, with a header consistent with their length
    let n = tier.pick(60u32, 3000);
    let strat = (prop::collection::vec(any::<u8>(), 0..200), 0u8..4);
    let rc = std::cell::RefCell::new(&mut r);
    let jc = std::cell::RefCell::new(&mut judge);
    let _ = vcommon::prop_search(seed, vcommon::fnv(label.as_bytes()) ^ 0x3333, n, &strat, |(body, mode), counting| {
        let mut body = body.clone();
        match mode {
            1 => body.iter_mut().for_each(|b| *b &= 0x03), // small values: reaches deeper than uniform bytes
            2 => body.iter_mut().for_each(|b| *b = if *b < 200 { 0 } else { *b }),
            _ => {}
        }
        let Some(frame) = with_header(e, &body) else { return Ok(()) };
        if counting {
            let mut r = rc.borrow_mut();
            r.count("corruption.random-body");
            (jc.borrow_mut())(&mut r, "random-body", &format!("mode{}", mode), &frame, false, Value::Null);
        }
        Ok(())
    });
    r
}

pub fn worker(tier: Tier) -> i32 {
    let corpus = match Corpus::load() {
        Ok(c) => c,
        Err(e) => {
            eprintln!("C03 worker: {}", e);
            return 2;
        }
    };
    let seed = vcommon::env_seed();
    let known = KnownFindings::load();
    crate::iso::worker_loop(move |label| {
        if let Some(ep) = label.strip_prefix("raw:") {
            return raw_bytes(&corpus, ep, tier, seed, &known).to_json();
        }
        match corpus.entry(label) {
            Some(e) => process_entry(&corpus, e, tier, seed, &known).to_json(),
            None => EntryReport::new(label.to_string()).to_json(),
        }
    })
}

/// raw byte strings (no valid header) through one endpoint
fn raw_bytes(c: &Corpus, ep_label: &str, tier: Tier, seed: u64, known: &KnownFindings) -> EntryReport {
    let mut r = EntryReport::new(format!("raw:{}", ep_label));
    let Some(ep) = c.eps.iter().find(|e| e.label() == ep_label) else { return r };
    let strat = prop::collection::vec(any::<u8>(), 0..64);
    let mut failed = BTreeSet::new();
    // header sweep: every small / boundary value of the size field in the 2-byte and in the 3-byte (0x80 marker) form,
    // with a defined and an undefined opcode, several tail lengths, and every truncation of each such frame
    let mut sweep: Vec<Vec<u8>> = Vec::new();
    {
        let world = matches!(ep.ns(), Ns::World(_));
        let opcode_len = if !world { 1 } else if ep.dir() == Direction::Client { 4 } else { 2 };
        let defined: u32 = c.entries.iter().filter(|e| e.ns == ep.ns() && e.dir == ep.dir()).map(|e| e.opcode).min().unwrap_or(0);
        let mut frames: Vec<Vec<u8>> = Vec::new();
        for opcode in [defined, 0xFFFF_FFFFu32 >> (32 - 8 * opcode_len as u32).min(31), 0] {
            let ob: Vec<u8> = opcode.to_le_bytes()[..opcode_len].to_vec();
            for tail in [0usize, 1, 2, 9] {
                if !world {
                    let mut f = ob.clone();
                    f.extend(std::iter::repeat(0xA5).take(tail));
                    frames.push(f);
                    continue;
                }
                let sizes: Vec<u32> = (0..=10).chain([0x7FFE, 0x7FFF, 0x8000, 0xFFFF, 0x01_0000, 0x7F_FFFF]).collect();
                for s in sizes {
                    if s <= 0xFFFF {
                        let mut f = vec![(s >> 8) as u8, s as u8];
                        f.extend(&ob);
                        f.extend(std::iter::repeat(0xA5).take(tail));
                        frames.push(f);
                    }
                    let mut f = vec![0x80 | (s >> 16) as u8, (s >> 8) as u8, s as u8];
                    f.extend(&ob);
                    f.extend(std::iter::repeat(0xA5).take(tail));
                    frames.push(f);
                }
            }
        }
        for f in frames {
            for cut in 0..=f.len().min(8) {
                sweep.push(f[..f.len() - cut].to_vec());
            }
        }
        sweep.sort();
        sweep.dedup();
    }
    let whole = crate::sched::Schedule::whole();
    for bytes in &sweep {
        crate::iso::trace_case(&|| json!({"endpoint": ep_label, "frame": vcommon::hex(bytes)}));
        // the six copies of the header code: plain and decrypting reader of each flavour
        let outs: Vec<(&'static str, Outcome)> = crate::iso::with_decode_budget(|| {
            let mut outs: Vec<(&'static str, Outcome)> = vec![("sync", ep.read_only(bytes))];
            outs.push(("tokio", ep.read_async(Flavor::Tokio, bytes, &whole)));
            outs.push(("async-std", ep.read_async(Flavor::Astd, bytes, &whole)));
            for (n, fl) in [("sync-encrypted", Flavor::Sync), ("tokio-encrypted", Flavor::Tokio), ("async-std-encrypted", Flavor::Astd)] {
                if let Some(o) = ep.read_encrypted_raw(fl, bytes) {
                    outs.push((n, o));
                }
            }
            outs
        });
        for (variant, o) in outs {
            r.evals += 1;
            r.count(&format!("header-sweep.{}.{}", variant, o.kind()));
            r.distinct.insert(vcommon::fnv(bytes) ^ vcommon::fnv(variant.as_bytes()));
            if let Outcome::Panic { message, location } = &o {
                let k = format!("panic:{}", rel_location(location));
                if let Some(s) = known_sig(known, "C03", "c03", &format!("raw:{}", ep_label), &k) {
                    *r.known_hits.entry(s).or_insert(0) += 1;
                } else if failed.insert(k.clone()) {
                    r.fails.push((format!("c03:raw:{}:{}", ep_label, k), trunc(message, 160), json!({"endpoint": ep_label, "reader": variant, "frame": vcommon::hex(bytes), "library": o.short()})));
                }
            }
        }
    }
    let rc = std::cell::RefCell::new(&mut r);
    let _ = vcommon::prop_search(seed, vcommon::fnv(ep_label.as_bytes()), tier.pick(20_000, 2_000_000), &strat, |bytes, counting| {
        if !counting {
            return Ok(());
        }
        crate::iso::trace_case(&|| json!({"endpoint": ep_label, "frame": vcommon::hex(bytes)}));
        let o = crate::iso::with_decode_budget(|| ep.read_only(bytes));
        let mut r = rc.borrow_mut();
        r.evals += 1;
        r.count(&format!("raw.{}", o.kind()));
        if bytes.len() >= 8 {
            r.distinct.insert(vcommon::fnv(bytes));
        }
        if let Outcome::Panic { message, location } = &o {
            let k = format!("panic:{}", rel_location(location));
            if let Some(s) = known_sig(known, "C03", "c03", &format!("raw:{}", ep_label), &k) {
                *r.known_hits.entry(s).or_insert(0) += 1;
            } else if failed.insert(k.clone()) {
                r.fails.push((format!("c03:raw:{}:{}", ep_label, k), trunc(message, 160), json!({"endpoint": ep_label, "frame": vcommon::hex(bytes), "library": o.short()})));
            }
        }
        Ok(())
    });
    r
}

pub fn run(tier: Tier, replay: Option<String>) -> i32 {
    let mut c = Check::new("C03", tier);
    c.level = "fault_enumeration".into();
    let corpus = match Corpus::load() {
        Ok(c) => c,
        Err(e) => {
            eprintln!("C03: {}", e);
            return 2;
        }
    };
    if let Some(p) = replay {
        // strict mode: one frame through the reader in an isolated worker
        let j = vcommon::read_json(std::path::Path::new(&p));
        let frame = vcommon::unhex(j["frame"].as_str().unwrap_or(""));
        let label = j["entry"].as_str().map(|s| s.to_string()).or_else(|| j["endpoint"].as_str().map(|s| s.to_string())).unwrap_or_default();
        if std::env::var("VERIF_C03_REPLAY_CHILD").is_ok() {
            crate::iso::limit_address_space();
            let ep: &dyn crate::endpoints::Ep = match corpus.entry(&label) {
                Some(e) => corpus.ep(e),
                None => match corpus.eps.iter().find(|e| e.label() == label) {
                    Some(e) => e.as_ref(),
                    None => return 2,
                },
            };
            let o = std::thread::scope(|s| {
                std::thread::Builder::new().stack_size(256 << 20).spawn_scoped(s, || ep.read_only(&frame)).unwrap().join().unwrap()
            });
            println!("library: {}", o.short());
            return if o.is_panic() { 1 } else { 0 };
        }
        let st = std::process::Command::new(std::env::current_exe().unwrap()).args(["C03", tier.as_str(), "--replay", &p]).env("VERIF_C03_REPLAY_CHILD", "1").status();
        return match st {
            Ok(s) if s.success() => {
                println!("replay: returns a value or an error");
                0
            }
            Ok(s) => {
                println!("child: {:?}", s);
                println!("VIOLATION property=C03 replay={}", p);
                1
            }
            Err(_) => 2,
        };
    }
    c.rule = "per message: structured corruptions of the encodings reached by directed enumeration, built from the model's trace - truncation at every field boundary and mid-field (header consistent and stale), every count/length/size field set to 0, 1, true+-1, 0x7f.., 0xff.., 2^16, 2^24, every enum/bool/flag/mask/date field set to out-of-range patterns, strings made invalid UTF-8 / unterminated / 255..300 bytes long with the body cut after each of the next fields, header size 0/<opcode/-1/+1/+1000/max, zlib payloads truncated/bit-flipped/garbage/declared huge/zero/small/bombs - then random bodies under a consistent header and raw byte strings per endpoint. Each case runs in an isolated worker (address-space limit during each decode call = the worker's footprint at that moment + 1.5 GiB, lifted again afterwards; watchdog). Oracle: the call returns Ok or Err. Non-trivial = the corruption lies past the first field or the read got past the size window / opcode dispatch; distinct = (entry, corrupted site without indices, corruption kind).".into();
    c.assume("a worker killed by its watchdog is reported as inconclusive (exit 2), never as a violation");
    c.assume("memory budget per decode: 1.5 GiB beyond the footprint of the worker at that time (soft RLIMIT_AS set from /proc/self/statm around every decode call, so what the harness holds or builds in between does not count); a frame is at most 64 KiB (Vanilla/TBC) or 8 MiB (Wrath server)");
    let only = std::env::var("VERIF_ONLY").ok();
    let mut labels: Vec<String> = corpus.entries.iter().map(|e| e.label()).filter(|l| only.as_ref().map(|o| l.contains(o.as_str())).unwrap_or(true)).collect();
    if only.is_none() {
        labels.extend(corpus.eps.iter().map(|e| format!("raw:{}", e.label())));
    }
    // the entries that take minutes in the thorough tier (update objects, compressed containers, the raw sweeps) go
    // first, each in a worker of its own, so that the run does not end with one worker finishing a heavy batch
    let heavy = |l: &String| l.contains("UPDATE_OBJECT") || l.contains("COMPRESSED") || l.starts_with("raw:");
    let mut batches: Vec<Vec<String>> = labels.iter().filter(|l| heavy(l)).map(|l| vec![l.clone()]).collect();
    let light: Vec<String> = labels.iter().filter(|l| !heavy(l)).cloned().collect();
    batches.extend(light.chunks(tier.pick(12, 4)).map(|c| c.to_vec()));
    let sup = crate::iso::supervise_batches("C03", tier.as_str(), batches, 16, std::time::Duration::from_secs(tier.pick(240, 3600)), vec![]);
    let reports: Vec<EntryReport> = sup.reports.iter().map(EntryReport::from_json).collect();
    report_deaths(&mut c, "c03", &sup.deaths);
    c.extra.insert("entries".into(), json!(corpus.entries.len()));
    c.extra.insert("worker_deaths".into(), json!(sup.deaths.len()));
    merge(&mut c, reports, 10);
    c.finish()
}
