//! Generic entry points into the libraries, keyed by (namespace, direction), without per-message code:
//! the public opcode enums dispatch on the opcode contained in the bytes.
use crate::outcome::*;
use crate::sched::*;
use std::io::Cursor;
use wowm_model::frame::Direction;
use wowm_model::resolve::{Expansion, Ns};

include!(concat!(env!("OUT_DIR"), "/login_glue.rs"));

#[derive(Debug, Clone, Copy, PartialEq, Eq, Hash)]
pub enum Flavor {
    Sync,
    Tokio,
    Astd,
}

impl Flavor {
    pub const ALL: [Flavor; 3] = [Flavor::Sync, Flavor::Tokio, Flavor::Astd];
    pub fn name(&self) -> &'static str {
        match self {
            Flavor::Sync => "sync",
            Flavor::Tokio => "tokio",
            Flavor::Astd => "async-std",
        }
    }
}

#[derive(Debug, Clone)]
pub struct EncCycle {
    /// bytes produced by the encrypting writer for the whole sequence (Err: a write failed or panicked)
    pub cipher: Result<Vec<u8>, String>,
    /// what the peer's decrypting reader returned, message by message
    pub read_back: Vec<Outcome>,
    /// one more probe message written and read after the sequence decrypts correctly
    pub probe_ok: Option<bool>,
}

pub trait Ep: Sync + Send {
    fn ns(&self) -> Ns;
    fn dir(&self) -> Direction;
    fn label(&self) -> String {
        format!("{}/{}", self.ns().text(), self.dir().name())
    }
    fn read_one_opt(&self, stream: &[u8], rewrite: bool) -> Outcome;
    fn read_one(&self, stream: &[u8]) -> Outcome {
        self.read_one_opt(stream, true)
    }
    /// like read_one but the decoded value is not written back
    fn read_only(&self, stream: &[u8]) -> Outcome {
        self.read_one_opt(stream, false)
    }
    fn read_many(&self, stream: &[u8], max: usize) -> Vec<Outcome>;
    fn read_async(&self, flavor: Flavor, stream: &[u8], sched: &Schedule) -> Outcome;
    fn write_flavors(&self, frame: &[u8], sched: &Schedule) -> Result<[Vec<u8>; 3], String>;
    fn encrypted_cycle(&self, key: &[u8; 40], frames: &[Vec<u8>], wflavor: Flavor, rflavor: Flavor, probe: Option<&[u8]>) -> Option<EncCycle> {
        self.encrypted_cycle_sched(key, frames, wflavor, rflavor, probe, &Schedule::whole())
    }
    /// one frame whose header bytes are encrypted for this direction, through the decrypting reader of `flavor`
    /// (None for login endpoints): the decrypting readers are separate copies of the header code
    fn read_encrypted_raw(&self, _flavor: Flavor, _plain_frame: &[u8]) -> Option<Outcome> {
        None
    }
    /// like encrypted_cycle, the asynchronous decrypting reader gets each message through `read_sched`
    fn encrypted_cycle_sched(&self, key: &[u8; 40], frames: &[Vec<u8>], wflavor: Flavor, rflavor: Flavor, probe: Option<&[u8]>, read_sched: &Schedule) -> Option<EncCycle>;
}

const MAX_POLLS: usize = 50_000_000;

fn driven<T>(d: Driven<T>, what: &str) -> Result<T, Outcome> {
    match d {
        Driven::Done(v) => Ok(v),
        Driven::Stalled => Err(Outcome::Panic { message: format!("{}: future returned Pending without a wake-up (would hang)", what), location: "sched".into() }),
        Driven::TooManyPolls => Err(Outcome::Panic { message: format!("{}: more than {} polls", what, MAX_POLLS), location: "sched".into() }),
    }
}

fn crypto_username() -> wow_srp::normalized_string::NormalizedString {
    wow_srp::normalized_string::NormalizedString::new("VERIF").unwrap()
}

macro_rules! crypto_pair {
    ($m:ident, $key:expr) => {{
        let user = crypto_username();
        let server_seed = wow_srp::$m::ProofSeed::new();
        let client_seed = wow_srp::$m::ProofSeed::new();
        let ss = server_seed.seed();
        let cs = client_seed.seed();
        let (proof, client) = client_seed.into_client_header_crypto(&user, *$key, ss);
        let server = server_seed.into_server_header_crypto(&user, *$key, proof, cs).expect("proof matches");
        (client, server)
    }};
}

/// `$Msg`: opcode enum holding messages travelling in direction `$dir`.
/// `$wp/$we`: its plain / encrypted sync writers, `$twp..`: tokio, `$awp..`: async-std.
/// `$pick_enc`: which half of (client crypto, server crypto) encrypts this direction.
macro_rules! world_ep {
    ($ty:ident, $exp:expr, $dir:expr, $Msg:ty, $srp:ident, $writer_side:ident,
     $wp:ident, $we:ident, $twp:ident, $twe:ident, $awp:ident, $awe:ident) => {
        pub struct $ty;
        impl Ep for $ty {
            fn ns(&self) -> Ns {
                Ns::World($exp)
            }
            fn dir(&self) -> Direction {
                $dir
            }
            fn read_one_opt(&self, stream: &[u8], rewrite: bool) -> Outcome {
                let mut c = Cursor::new(stream);
                match catch(|| <$Msg>::read_unencrypted(&mut c)) {
                    Err((message, location)) => Outcome::Panic { message, location },
                    Ok(Err(e)) => {
                        let debug = format!("{:?}", e);
                        Outcome::Err { class: classify_error(&debug), debug, consumed: c.position() as usize }
                    }
                    Ok(Ok(m)) => {
                        let consumed = c.position() as usize;
                        let debug = format!("{:?}", m);
                        if !rewrite {
                            return Outcome::Ok { debug, consumed, rewritten: Err("skipped".into()) };
                        }
                        let rewritten = match catch(|| {
                            let mut v = Vec::new();
                            m.$wp(&mut v).map(|_| v)
                        }) {
                            Ok(Ok(v)) => Ok(v),
                            Ok(Err(e)) => Err(format!("write error {:?}", e)),
                            Err((msg, loc)) => Err(format!("write panicked: '{}' at {}", msg, rel_location(&loc))),
                        };
                        Outcome::Ok { debug, consumed, rewritten }
                    }
                }
            }
            fn read_many(&self, stream: &[u8], max: usize) -> Vec<Outcome> {
                let mut out = Vec::new();
                let mut pos = 0usize;
                while out.len() < max && pos < stream.len() {
                    let o = self.read_one(&stream[pos..]);
                    let adv = match &o {
                        Outcome::Ok { consumed, .. } => Some(*consumed),
                        _ => None,
                    };
                    out.push(o);
                    match adv {
                        Some(n) if n > 0 => pos += n,
                        _ => break,
                    }
                }
                out
            }
            fn read_async(&self, flavor: Flavor, stream: &[u8], sched: &Schedule) -> Outcome {
                if flavor == Flavor::Sync {
                    return self.read_one(stream);
                }
                let mut s = Scripted::new(stream, sched);
                let r = catch(|| match flavor {
                    Flavor::Tokio => driven(drive(<$Msg>::tokio_read_unencrypted(&mut s), MAX_POLLS), "tokio_read_unencrypted"),
                    _ => driven(drive(<$Msg>::astd_read_unencrypted(&mut s), MAX_POLLS), "astd_read_unencrypted"),
                });
                match r {
                    Err((message, location)) => Outcome::Panic { message, location },
                    Ok(Err(o)) => o,
                    Ok(Ok(Err(e))) => {
                        let debug = format!("{:?}", e);
                        Outcome::Err { class: classify_error(&debug), debug, consumed: s.pos }
                    }
                    Ok(Ok(Ok(m))) => Outcome::Ok { debug: format!("{:?}", m), consumed: s.pos, rewritten: Err("not rewritten".into()) },
                }
            }
            fn write_flavors(&self, frame: &[u8], sched: &Schedule) -> Result<[Vec<u8>; 3], String> {
                let m = match catch(|| <$Msg>::read_unencrypted(&mut Cursor::new(frame))) {
                    Ok(Ok(m)) => m,
                    Ok(Err(e)) => return Err(format!("decode failed: {:?}", e)),
                    Err((m, l)) => return Err(format!("decode panicked: {} at {}", m, l)),
                };
                let r = catch(|| -> Result<[Vec<u8>; 3], String> {
                    let mut a = Vec::new();
                    m.$wp(&mut a).map_err(|e| format!("sync write: {:?}", e))?;
                    let mut t = ScriptedSink::new(sched);
                    match drive(m.$twp(&mut t), MAX_POLLS) {
                        Driven::Done(r) => r.map_err(|e| format!("tokio write: {:?}", e))?,
                        _ => return Err("tokio write stalled".into()),
                    }
                    let mut s = ScriptedSink::new(sched);
                    match drive(m.$awp(&mut s), MAX_POLLS) {
                        Driven::Done(r) => r.map_err(|e| format!("async-std write: {:?}", e))?,
                        _ => return Err("async-std write stalled".into()),
                    }
                    Ok([a, t.out, s.out])
                });
                match r {
                    Ok(x) => x,
                    Err((m, l)) => Err(format!("write panicked: '{}' at {}", m, rel_location(&l))),
                }
            }
            fn read_encrypted_raw(&self, flavor: Flavor, plain_frame: &[u8]) -> Option<Outcome> {
                let key = [0x3Cu8; 40];
                let whole = Schedule::whole();
                let (client, server) = crypto_pair!($srp, &key);
                let (mut client_enc, mut client_dec) = client.split();
                let (mut server_enc, mut server_dec) = server.split();
                let _ = (&mut client_enc, &mut client_dec, &mut server_enc, &mut server_dec);
                let (enc, dec) = world_ep!(@halves $writer_side, client_enc, client_dec, server_enc, server_dec);
                // header length of this direction (Wrath server: 5 when the marker bit is set)
                let h = if $dir == Direction::Client { 6 } else if $exp == Expansion::Wrath && plain_frame.first().map(|b| b & 0x80 != 0).unwrap_or(false) { 5 } else { 4 };
                let mut buf = plain_frame.to_vec();
                let n = h.min(buf.len());
                enc.encrypt(&mut buf[..n]);
                Some(match flavor {
                    Flavor::Sync => {
                        let mut c = Cursor::new(&buf[..]);
                        match catch(|| <$Msg>::read_encrypted(&mut c, dec)) {
                            Err((message, location)) => Outcome::Panic { message, location },
                            Ok(Err(e)) => {
                                let debug = format!("{:?}", e);
                                Outcome::Err { class: classify_error(&debug), debug, consumed: c.position() as usize }
                            }
                            Ok(Ok(m)) => Outcome::Ok { debug: format!("{:?}", m), consumed: c.position() as usize, rewritten: Err("n/a".into()) },
                        }
                    }
                    _ => {
                        let mut s = Scripted::new(&buf, &whole);
                        let r = catch(|| match flavor {
                            Flavor::Tokio => driven(drive(<$Msg>::tokio_read_encrypted(&mut s, dec), MAX_POLLS), "tokio_read_encrypted"),
                            _ => driven(drive(<$Msg>::astd_read_encrypted(&mut s, dec), MAX_POLLS), "astd_read_encrypted"),
                        });
                        let consumed = s.pos;
                        match r {
                            Err((message, location)) => Outcome::Panic { message, location },
                            Ok(Err(o)) => o,
                            Ok(Ok(Err(e))) => {
                                let debug = format!("{:?}", e);
                                Outcome::Err { class: classify_error(&debug), debug, consumed }
                            }
                            Ok(Ok(Ok(m))) => Outcome::Ok { debug: format!("{:?}", m), consumed, rewritten: Err("n/a".into()) },
                        }
                    }
                })
            }
            fn encrypted_cycle_sched(&self, key: &[u8; 40], frames: &[Vec<u8>], wflavor: Flavor, rflavor: Flavor, probe: Option<&[u8]>, read_sched: &Schedule) -> Option<EncCycle> {
                let whole = Schedule::whole();
                let (client, server) = crypto_pair!($srp, key);
                let (mut client_enc, mut client_dec) = client.split();
                let (mut server_enc, mut server_dec) = server.split();
                let _ = (&mut client_enc, &mut client_dec, &mut server_enc, &mut server_dec);
                // the writer of this direction and the reader on the other side
                let (enc, dec) = world_ep!(@halves $writer_side, client_enc, client_dec, server_enc, server_dec);
                // decode the plain frames
                let mut msgs = Vec::new();
                for f in frames.iter().chain(probe.map(|p| p.to_vec()).iter()) {
                    match catch(|| <$Msg>::read_unencrypted(&mut Cursor::new(&f[..]))) {
                        Ok(Ok(m)) => msgs.push(m),
                        Ok(Err(e)) => return Some(EncCycle { cipher: Err(format!("plain decode failed: {:?}", e)), read_back: vec![], probe_ok: None }),
                        Err((m, l)) => return Some(EncCycle { cipher: Err(format!("plain decode panicked: {} at {}", m, l)), read_back: vec![], probe_ok: None }),
                    }
                }
                let nseq = frames.len();
                let mut cipher = Vec::new();
                let mut write_one = |m: &$Msg, enc: &mut _, cipher: &mut Vec<u8>| -> Result<(), String> {
                    let r = catch(|| -> Result<Vec<u8>, String> {
                        match wflavor {
                            Flavor::Sync => {
                                let mut v = Vec::new();
                                m.$we(&mut v, enc).map_err(|e| format!("{:?}", e))?;
                                Ok(v)
                            }
                            Flavor::Tokio => {
                                let mut t = ScriptedSink::new(&whole);
                                match drive(m.$twe(&mut t, enc), MAX_POLLS) {
                                    Driven::Done(r) => r.map_err(|e| format!("{:?}", e))?,
                                    _ => return Err("stalled".into()),
                                }
                                Ok(t.out)
                            }
                            Flavor::Astd => {
                                let mut t = ScriptedSink::new(&whole);
                                match drive(m.$awe(&mut t, enc), MAX_POLLS) {
                                    Driven::Done(r) => r.map_err(|e| format!("{:?}", e))?,
                                    _ => return Err("stalled".into()),
                                }
                                Ok(t.out)
                            }
                        }
                    });
                    match r {
                        Ok(Ok(v)) => {
                            cipher.extend_from_slice(&v);
                            Ok(())
                        }
                        Ok(Err(e)) => Err(format!("encrypted write error: {}", e)),
                        Err((m, l)) => Err(format!("encrypted write panicked: '{}' at {}", m, rel_location(&l))),
                    }
                };
                for m in &msgs[..nseq] {
                    if let Err(e) = write_one(m, enc, &mut cipher) {
                        return Some(EncCycle { cipher: Err(e), read_back: vec![], probe_ok: None });
                    }
                }
                // read back with the peer's decrypting reader
                let mut read_back = Vec::new();
                let mut pos = 0usize;
                let mut read_one = |buf: &[u8], dec: &mut _| -> (Outcome, usize) {
                    match rflavor {
                        Flavor::Sync => {
                            let mut c = Cursor::new(buf);
                            let r = catch(|| <$Msg>::read_encrypted(&mut c, dec));
                            let consumed = c.position() as usize;
                            (
                                match r {
                                    Err((message, location)) => Outcome::Panic { message, location },
                                    Ok(Err(e)) => {
                                        let debug = format!("{:?}", e);
                                        Outcome::Err { class: classify_error(&debug), debug, consumed }
                                    }
                                    Ok(Ok(m)) => Outcome::Ok { debug: format!("{:?}", m), consumed, rewritten: Err("n/a".into()) },
                                },
                                consumed,
                            )
                        }
                        _ => {
                            let mut s = Scripted::new(buf, read_sched);
                            let r = catch(|| match rflavor {
                                Flavor::Tokio => driven(drive(<$Msg>::tokio_read_encrypted(&mut s, dec), MAX_POLLS), "tokio_read_encrypted"),
                                _ => driven(drive(<$Msg>::astd_read_encrypted(&mut s, dec), MAX_POLLS), "astd_read_encrypted"),
                            });
                            let consumed = s.pos;
                            (
                                match r {
                                    Err((message, location)) => Outcome::Panic { message, location },
                                    Ok(Err(o)) => o,
                                    Ok(Ok(Err(e))) => {
                                        let debug = format!("{:?}", e);
                                        Outcome::Err { class: classify_error(&debug), debug, consumed }
                                    }
                                    Ok(Ok(Ok(m))) => Outcome::Ok { debug: format!("{:?}", m), consumed, rewritten: Err("n/a".into()) },
                                },
                                consumed,
                            )
                        }
                    }
                };
                for _ in 0..nseq {
                    let (o, n) = read_one(&cipher[pos.min(cipher.len())..], dec);
                    let ok = matches!(o, Outcome::Ok { .. });
                    read_back.push(o);
                    if !ok {
                        break;
                    }
                    pos += n;
                }
                let mut probe_ok = None;
                if probe.is_some() && read_back.len() == nseq && read_back.iter().all(|o| matches!(o, Outcome::Ok { .. })) && pos == cipher.len() {
                    let mut pc = Vec::new();
                    let pm = &msgs[nseq];
                    probe_ok = Some(match write_one(pm, enc, &mut pc) {
                        Err(_) => false,
                        Ok(()) => {
                            let (o, n) = read_one(&pc, dec);
                            matches!(&o, Outcome::Ok { debug, .. } if *debug == format!("{:?}", pm)) && n == pc.len()
                        }
                    });
                }
                Some(EncCycle { cipher: Ok(cipher), read_back, probe_ok })
            }
        }
    };
    (@halves client, $ce:ident, $cd:ident, $se:ident, $sd:ident) => {
        (&mut $ce, &mut $sd)
    };
    (@halves server, $ce:ident, $cd:ident, $se:ident, $sd:ident) => {
        (&mut $se, &mut $cd)
    };
}

world_ep!(VanillaClient, Expansion::Vanilla, Direction::Client, wow_world_messages::vanilla::opcodes::ClientOpcodeMessage, vanilla_header, client,
    write_unencrypted_client, write_encrypted_client, tokio_write_unencrypted_client, tokio_write_encrypted_client, astd_write_unencrypted_client, astd_write_encrypted_client);
world_ep!(VanillaServer, Expansion::Vanilla, Direction::Server, wow_world_messages::vanilla::opcodes::ServerOpcodeMessage, vanilla_header, server,
    write_unencrypted_server, write_encrypted_server, tokio_write_unencrypted_server, tokio_write_encrypted_server, astd_write_unencrypted_server, astd_write_encrypted_server);
world_ep!(TbcClient, Expansion::Tbc, Direction::Client, wow_world_messages::tbc::opcodes::ClientOpcodeMessage, tbc_header, client,
    write_unencrypted_client, write_encrypted_client, tokio_write_unencrypted_client, tokio_write_encrypted_client, astd_write_unencrypted_client, astd_write_encrypted_client);
world_ep!(TbcServer, Expansion::Tbc, Direction::Server, wow_world_messages::tbc::opcodes::ServerOpcodeMessage, tbc_header, server,
    write_unencrypted_server, write_encrypted_server, tokio_write_unencrypted_server, tokio_write_encrypted_server, astd_write_unencrypted_server, astd_write_encrypted_server);
world_ep!(WrathClient, Expansion::Wrath, Direction::Client, wow_world_messages::wrath::opcodes::ClientOpcodeMessage, wrath_header, client,
    write_unencrypted_client, write_encrypted_client, tokio_write_unencrypted_client, tokio_write_encrypted_client, astd_write_unencrypted_client, astd_write_encrypted_client);
world_ep!(WrathServer, Expansion::Wrath, Direction::Server, wow_world_messages::wrath::opcodes::ServerOpcodeMessage, wrath_header, server,
    write_unencrypted_server, write_encrypted_server, tokio_write_unencrypted_server, tokio_write_encrypted_server, astd_write_unencrypted_server, astd_write_encrypted_server);

macro_rules! login_ep {
    ($ty:ident, $v:expr, $dir:expr, $glue:ident, $Msg:ident, $w:ident, $tw:ident, $aw:ident) => {
        pub struct $ty;
        impl Ep for $ty {
            fn ns(&self) -> Ns {
                Ns::Login($v)
            }
            fn dir(&self) -> Direction {
                $dir
            }
            fn read_one_opt(&self, stream: &[u8], rewrite: bool) -> Outcome {
                let mut c = Cursor::new(stream);
                match catch(|| $glue::$Msg::read(&mut c)) {
                    Err((message, location)) => Outcome::Panic { message, location },
                    Ok(Err(e)) => {
                        let debug = format!("{:?}", e);
                        Outcome::Err { class: classify_error(&debug), debug, consumed: c.position() as usize }
                    }
                    Ok(Ok(m)) => {
                        let consumed = c.position() as usize;
                        let debug = format!("{:?}", m);
                        if !rewrite {
                            return Outcome::Ok { debug, consumed, rewritten: Err("skipped".into()) };
                        }
                        let rewritten = match catch(|| {
                            let mut v = Vec::new();
                            $glue::$w(&m, &mut v).map(|_| v)
                        }) {
                            Ok(Ok(v)) => Ok(v),
                            Ok(Err(e)) => Err(format!("write error {:?}", e)),
                            Err((msg, loc)) => Err(format!("write panicked: '{}' at {}", msg, rel_location(&loc))),
                        };
                        Outcome::Ok { debug, consumed, rewritten }
                    }
                }
            }
            fn read_many(&self, stream: &[u8], max: usize) -> Vec<Outcome> {
                let mut out = Vec::new();
                let mut pos = 0usize;
                while out.len() < max && pos < stream.len() {
                    let o = self.read_one(&stream[pos..]);
                    let adv = match &o {
                        Outcome::Ok { consumed, .. } => Some(*consumed),
                        _ => None,
                    };
                    out.push(o);
                    match adv {
                        Some(n) if n > 0 => pos += n,
                        _ => break,
                    }
                }
                out
            }
            fn read_async(&self, flavor: Flavor, stream: &[u8], sched: &Schedule) -> Outcome {
                if flavor == Flavor::Sync {
                    return self.read_one(stream);
                }
                let mut s = Scripted::new(stream, sched);
                let r = catch(|| match flavor {
                    Flavor::Tokio => driven(drive($glue::$Msg::tokio_read(&mut s), MAX_POLLS), "tokio_read"),
                    _ => driven(drive($glue::$Msg::astd_read(&mut s), MAX_POLLS), "astd_read"),
                });
                match r {
                    Err((message, location)) => Outcome::Panic { message, location },
                    Ok(Err(o)) => o,
                    Ok(Ok(Err(e))) => {
                        let debug = format!("{:?}", e);
                        Outcome::Err { class: classify_error(&debug), debug, consumed: s.pos }
                    }
                    Ok(Ok(Ok(m))) => Outcome::Ok { debug: format!("{:?}", m), consumed: s.pos, rewritten: Err("not rewritten".into()) },
                }
            }
            fn write_flavors(&self, frame: &[u8], sched: &Schedule) -> Result<[Vec<u8>; 3], String> {
                let m = match catch(|| $glue::$Msg::read(&mut Cursor::new(frame))) {
                    Ok(Ok(m)) => m,
                    Ok(Err(e)) => return Err(format!("decode failed: {:?}", e)),
                    Err((m, l)) => return Err(format!("decode panicked: {} at {}", m, l)),
                };
                let r = catch(|| -> Result<[Vec<u8>; 3], String> {
                    let mut a = Vec::new();
                    $glue::$w(&m, &mut a).map_err(|e| format!("sync write: {:?}", e))?;
                    let mut t = ScriptedSink::new(sched);
                    match drive($glue::$tw(&m, &mut t), MAX_POLLS) {
                        Driven::Done(r) => r.map_err(|e| format!("tokio write: {:?}", e))?,
                        _ => return Err("tokio write stalled".into()),
                    }
                    let mut s = ScriptedSink::new(sched);
                    match drive($glue::$aw(&m, &mut s), MAX_POLLS) {
                        Driven::Done(r) => r.map_err(|e| format!("async-std write: {:?}", e))?,
                        _ => return Err("async-std write stalled".into()),
                    }
                    Ok([a, t.out, s.out])
                });
                match r {
                    Ok(x) => x,
                    Err((m, l)) => Err(format!("write panicked: '{}' at {}", m, rel_location(&l))),
                }
            }
            fn encrypted_cycle_sched(&self, _: &[u8; 40], _: &[Vec<u8>], _: Flavor, _: Flavor, _: Option<&[u8]>, _: &Schedule) -> Option<EncCycle> {
                None
            }
        }
    };
}

macro_rules! login_eps {
    ($($c:ident, $s:ident, $v:expr, $glue:ident;)*) => {
        $(
            login_ep!($c, $v, Direction::Client, $glue, ClientOpcodeMessage, write_client, tokio_write_client, astd_write_client);
            login_ep!($s, $v, Direction::Server, $glue, ServerOpcodeMessage, write_server, tokio_write_server, astd_write_server);
        )*
    };
}

login_eps! {
    Login2Client, Login2Server, 2, login_v2;
    Login3Client, Login3Server, 3, login_v3;
    Login5Client, Login5Server, 5, login_v5;
    Login6Client, Login6Server, 6, login_v6;
    Login7Client, Login7Server, 7, login_v7;
    Login8Client, Login8Server, 8, login_v8;
}

pub fn all() -> Vec<Box<dyn Ep>> {
    vec![
        Box::new(VanillaClient),
        Box::new(VanillaServer),
        Box::new(TbcClient),
        Box::new(TbcServer),
        Box::new(WrathClient),
        Box::new(WrathServer),
        Box::new(Login2Client),
        Box::new(Login2Server),
        Box::new(Login3Client),
        Box::new(Login3Server),
        Box::new(Login5Client),
        Box::new(Login5Server),
        Box::new(Login6Client),
        Box::new(Login6Server),
        Box::new(Login7Client),
        Box::new(Login7Server),
        Box::new(Login8Client),
        Box::new(Login8Server),
    ]
}

pub fn find(eps: &[Box<dyn Ep>], ns: Ns, dir: Direction) -> Option<&dyn Ep> {
    eps.iter().find(|e| e.ns() == ns && e.dir() == dir).map(|b| b.as_ref())
}
