//! Pools of frames the library itself wrote (re-encodings of canonical encodings it accepted).
use crate::corpus::Corpus;
use crate::endpoints::Ep;
use crate::outcome::*;
use std::collections::BTreeMap;

pub struct Pool {
    pub frames: Vec<(String, Vec<u8>, String)>, // (message name, frame, Debug of the individual decode)
}

pub fn build_pool(c: &Corpus, ep: &dyn Ep, seed: u64, per_entry: usize, only_names: Option<&[&str]>) -> Pool {
    let forced = BTreeMap::new();
    let mut frames = Vec::new();
    for e in c.entries.iter().filter(|e| e.ns == ep.ns() && e.dir == ep.dir()) {
        if c.skip_entry.contains(&e.label()) || c.skip_write.contains(&e.label()) {
            continue;
        }
        if let Some(n) = only_names {
            if !n.contains(&e.name.as_str()) {
                continue;
            }
        }
        for k in 0..per_entry {
            let s = vcommon::mix(seed, vcommon::fnv(e.label().as_bytes()) ^ (k as u64));
            let tape: Vec<u8> = if k == 0 { vec![] } else { (0..128u64).map(|i| (vcommon::mix(s, i) >> 24) as u8).collect() };
            if let Ok(enc) = c.encode(e, &tape, &forced) {
                if enc.frame.len() > 20_000 {
                    continue;
                }
                // only frames the reader accepts and rewrites identically belong to a stream of *written* messages
                if let Outcome::Ok { debug, consumed, rewritten: Ok(rw) } = ep.read_one(&enc.frame) {
                    if consumed == enc.frame.len() {
                        frames.push((e.name.clone(), rw, debug));
                    }
                }
            }
        }
    }
    Pool { frames }
}

