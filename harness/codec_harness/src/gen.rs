//! Drivers of the model's encoder: directed enumeration of decision sites, and proptest tapes.
use proptest::prelude::*;
use std::collections::{BTreeMap, BTreeSet};
use wowm_model::frame::*;
use wowm_model::walk::DecKind;

#[derive(Debug, Clone)]
pub struct Case {
    pub enc: Encoded,
    pub tape: Vec<u8>,
    pub forced: BTreeMap<String, u32>,
}

/// alternatives of a decision site that the directed enumeration forces
pub fn alternatives(kind: DecKind, arity: u32) -> Vec<u32> {
    match kind {
        DecKind::Enum => (0..arity).collect(),
        // 0 none, 1..=n single enumerators, n+1 all (n+2 = tape subset, left to the tapes)
        DecKind::Flag => (0..arity.saturating_sub(1)).collect(),
        DecKind::Optional => {
            if arity == 2 {
                vec![0, 1]
            } else {
                vec![]
            }
        }
        DecKind::Count => vec![0, 1, 2, 3, 7],
        DecKind::StrLen => vec![0, 1, 2, 6],
        DecKind::Int => vec![0, 1, 4, 6, 7],
        DecKind::Float => vec![0, 2, 4, 6, 7],
        DecKind::Guid => vec![0, 1, 3, 4, 7],
        DecKind::Mask => (0..arity).collect(),
        DecKind::Bool => vec![0, 1],
        DecKind::Date => vec![],
    }
}

#[derive(Debug, Default, Clone)]
pub struct DirectedStats {
    pub sites: usize,
    pub runs: usize,
    pub not_canonical: usize,
    pub truncated: bool,
    pub dropped_large: usize,
}

const RETAIN_BUDGET: usize = 1 << 30;
const RETAIN_SMALL: usize = 256 << 10;
const LEAF_BUDGET: usize = 40_000_000;

/// rough heap footprint of a held case (frame, trace leaves with their path strings, decisions)
fn case_cost(e: &Encoded) -> usize {
    e.frame.len() + e.trace.len() * 160 + e.decisions.len() * 96 + e.regions.len() * 64
}

/// Explores every alternative of every decision site that any explored encoding reveals.
/// `seed_tape` gives the values of everything that is not forced.
pub fn directed(enc: &dyn Fn(&[u8], &BTreeMap<String, u32>) -> Result<Encoded, EncodeError>, seed_tape: &[u8], max_runs: usize, stats: &mut DirectedStats) -> Result<Vec<Case>, String> {
    let mut out = Vec::new();
    let mut seen_sites: BTreeSet<String> = BTreeSet::new();
    // (context that revealed the site, site, alternative): a site inside an array element or a conditional block only
    // exists while the decision that revealed it (count >= 1, that branch) is held
    let mut work: Vec<(BTreeMap<String, u32>, String, u32)> = Vec::new();
    let base_forced = BTreeMap::new();
    let mut push_sites = |enc: &Encoded, ctx: &BTreeMap<String, u32>, seen: &mut BTreeSet<String>, work: &mut Vec<(BTreeMap<String, u32>, String, u32)>| {
        for d in &enc.decisions {
            if d.arity == 0 {
                continue;
            }
            if seen.insert(d.site.clone()) {
                for a in alternatives(d.kind, d.arity) {
                    work.push((ctx.clone(), d.site.clone(), a));
                }
            }
        }
    };
    match enc(seed_tape, &base_forced) {
        Ok(enc) => {
            push_sites(&enc, &base_forced, &mut seen_sites, &mut work);
            out.push(Case { enc, tape: seed_tape.to_vec(), forced: base_forced.clone() });
        }
        Err(EncodeError::Problem(p)) => return Err(p),
        Err(EncodeError::NotCanonical(_)) => stats.not_canonical += 1,
    }
    stats.runs += 1;
    // extremal cases first (a truncated enumeration must not lose them): every decision at its largest alternative at
    // once - all flags, optional present, three elements per array, longest guids, full masks - iterated until no new site
    // appears, then each enum site varied over its enumerators with everything else held there
    {
        let largest = |kind: DecKind, arity: u32| -> Option<u32> {
            match kind {
                DecKind::Flag => Some(if arity >= 3 { arity - 2 } else { arity.saturating_sub(1) }),
                DecKind::Optional => if arity == 2 { Some(1) } else { None },
                // counts and strings stay moderate: every array at its cap at once gives megabyte frames, and each
                // site is taken to its cap on its own by the work list below
                DecKind::Count => Some(3),
                DecKind::StrLen => Some(2),
                DecKind::Int => Some(7),
                DecKind::Guid => Some(7),
                DecKind::Mask => Some(arity.saturating_sub(1)),
                DecKind::Bool => Some(1),
                DecKind::Enum | DecKind::Float | DecKind::Date => None,
            }
        };
        let mut fmax: BTreeMap<String, u32> = BTreeMap::new();
        let mut last: Option<Encoded> = None;
        for _ in 0..8 {
            stats.runs += 1;
            match enc(seed_tape, &fmax) {
                Ok(e) => {
                    let mut grew = false;
                    for d in &e.decisions {
                        if d.arity == 0 || fmax.contains_key(&d.site) {
                            continue;
                        }
                        if let Some(a) = largest(d.kind, d.arity) {
                            fmax.insert(d.site.clone(), a);
                            grew = true;
                        }
                    }
                    last = Some(e);
                    if !grew {
                        break;
                    }
                }
                Err(EncodeError::Problem(p)) => return Err(p),
                Err(EncodeError::NotCanonical(_)) => {
                    stats.not_canonical += 1;
                    break;
                }
            }
        }
        if let Some(e) = last {
            let enum_sites: Vec<(String, u32)> = e.decisions.iter().filter(|d| d.kind == DecKind::Enum && d.arity > 0).map(|d| (d.site.clone(), d.arity)).collect();
            push_sites(&e, &fmax, &mut seen_sites, &mut work);
            out.push(Case { enc: e, tape: seed_tape.to_vec(), forced: fmax.clone() });
            for (site, arity) in enum_sites.into_iter().take(6) {
                for a in 0..arity.min(24) {
                    let mut f = fmax.clone();
                    f.insert(site.clone(), a);
                    stats.runs += 1;
                    match enc(seed_tape, &f) {
                        Ok(e2) => out.push(Case { enc: e2, tape: seed_tape.to_vec(), forced: f }),
                        Err(EncodeError::Problem(p)) => return Err(p),
                        Err(EncodeError::NotCanonical(_)) => stats.not_canonical += 1,
                    }
                }
            }
        }
    }
    let mut retained: usize = out.iter().map(|c| case_cost(&c.enc)).sum();
    let mut leaves_total: usize = 0;
    let mut i = 0;
    while i < work.len() {
        if stats.runs >= max_runs {
            stats.truncated = true;
            break;
        }
        let (ctx, site, alt) = work[i].clone();
        i += 1;
        let mut forced = ctx;
        forced.insert(site, alt);
        stats.runs += 1;
        match enc(seed_tape, &forced) {
            Ok(enc) => {
                // work bound of the enumeration itself: encodings with tens of thousands of traced leaves (every array at
                // its cap) cost tens of milliseconds each; past LEAF_BUDGET leaves in total the enumeration is cut
                leaves_total += enc.trace.len();
                if leaves_total > LEAF_BUDGET {
                    stats.truncated = true;
                    break;
                }
                push_sites(&enc, &forced, &mut seen_sites, &mut work);
                // the cases are held until the caller has used them: a context that holds an outer array at its cap
                // makes every case below it megabytes of trace, and two thousand of those are the worker's whole
                // budget. Once the held cases pass RETAIN_BUDGET only the small ones are still kept (the sites the
                // large ones reveal are explored all the same).
                let cost = case_cost(&enc);
                if retained + cost > RETAIN_BUDGET && cost > RETAIN_SMALL {
                    stats.dropped_large += 1;
                    continue;
                }
                retained += cost;
                out.push(Case { enc, tape: seed_tape.to_vec(), forced });
            }
            Err(EncodeError::Problem(p)) => return Err(p),
            Err(EncodeError::NotCanonical(_)) => stats.not_canonical += 1,
        }
    }
    stats.sites = seen_sites.len();
    Ok(out)
}

pub fn tape_strategy(max_len: usize) -> impl Strategy<Value = Vec<u8>> {
    prop::collection::vec(any::<u8>(), 0..max_len)
}

pub fn forced_json(f: &BTreeMap<String, u32>) -> serde_json::Value {
    serde_json::Value::Object(f.iter().map(|(k, v)| (k.clone(), serde_json::json!(v))).collect())
}

pub fn forced_from_json(v: &serde_json::Value) -> BTreeMap<String, u32> {
    v.as_object().map(|o| o.iter().map(|(k, v)| (k.clone(), v.as_u64().unwrap_or(0) as u32)).collect()).unwrap_or_default()
}
