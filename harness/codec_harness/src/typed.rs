//! Typed `expect_*` helpers for a fixed representative set of message types per expansion/direction
//! (the helpers are generic over the message type, so they need a monomorphic instance per type).
use crate::endpoints::{EncCycle, Flavor};
use crate::outcome::*;
use crate::sched::*;
use std::io::Cursor;
use wowm_model::frame::Direction;
use wowm_model::resolve::Expansion;

const MAX_POLLS: usize = 50_000_000;

pub struct TypedSet {
    pub exp: Expansion,
    pub dir: Direction,
    pub names: &'static [&'static str],
    /// expect_{client,server}_message::<M> on `stream` (flavor), then write the value back unencrypted
    pub expect: fn(name: &str, flavor: Flavor, stream: &[u8], sched: &Schedule) -> Option<Outcome>,
    /// whole sequence through the encrypted typed writer and the peer's `expect_*_message_encryption`
    pub encrypted_cycle: fn(key: &[u8; 40], frames: &[(String, Vec<u8>)], flavor: Flavor) -> Option<EncCycle>,
}

fn outcome_of<M: std::fmt::Debug, E: std::fmt::Debug>(r: Result<Result<M, E>, (String, String)>, consumed: usize, rewrite: impl FnOnce(&M) -> Result<Vec<u8>, String>) -> Outcome {
    match r {
        Err((message, location)) => Outcome::Panic { message, location },
        Ok(Err(e)) => {
            let debug = format!("{:?}", e);
            Outcome::Err { class: classify_error(&debug), debug, consumed }
        }
        Ok(Ok(m)) => {
            let debug = format!("{:?}", m);
            let rewritten = rewrite(&m);
            Outcome::Ok { debug, consumed, rewritten }
        }
    }
}

macro_rules! typed_set {
    ($fname:ident, $exp:ident, $expv:expr, $dir:expr, $srp:ident, $writer_side:ident,
     $expect:ident, $texpect:ident, $aexpect:ident, $expect_enc:ident, $texpect_enc:ident, $aexpect_enc:ident,
     $wp:ident, $we:ident, $twe:ident, $awe:ident, [$($M:ident),* $(,)?]) => {
        pub fn $fname() -> TypedSet {
            use wow_world_messages::$exp as x;
            #[allow(unused_imports)]
            use wow_world_messages::$exp::{ClientMessage, ServerMessage};
            fn expect_one<M: std::fmt::Debug>(
                flavor: Flavor,
                stream: &[u8],
                sched: &Schedule,
                sync: impl FnOnce(&mut Cursor<&[u8]>) -> Result<M, wow_world_messages::errors::ExpectedOpcodeError>,
                run_async: impl FnOnce(&mut Scripted) -> Result<Result<M, wow_world_messages::errors::ExpectedOpcodeError>, Outcome>,
                write: impl FnOnce(&M) -> Result<Vec<u8>, String>,
            ) -> Outcome {
                match flavor {
                    Flavor::Sync => {
                        let mut c = Cursor::new(stream);
                        let r = catch(|| sync(&mut c));
                        let consumed = c.position() as usize;
                        outcome_of(r, consumed, write)
                    }
                    _ => {
                        let mut s = Scripted::new(stream, sched);
                        let r = catch(|| run_async(&mut s));
                        let consumed = s.pos;
                        match r {
                            Err((message, location)) => Outcome::Panic { message, location },
                            Ok(Err(o)) => o,
                            Ok(Ok(x)) => outcome_of(Ok(x), consumed, write),
                        }
                    }
                }
            }
            fn drv<T>(d: Driven<T>, what: &str) -> Result<T, Outcome> {
                match d {
                    Driven::Done(v) => Ok(v),
                    _ => Err(Outcome::Panic { message: format!("{}: future stalled", what), location: "sched".into() }),
                }
            }
            fn expect(name: &str, flavor: Flavor, stream: &[u8], sched: &Schedule) -> Option<Outcome> {
                match name {
                    $(stringify!($M) => Some(expect_one::<x::$M>(
                        flavor, stream, sched,
                        |c| x::$expect::<x::$M, _>(c),
                        |s| match flavor {
                            Flavor::Tokio => drv(drive(x::$texpect::<x::$M, _>(s), MAX_POLLS), "tokio expect"),
                            _ => drv(drive(x::$aexpect::<x::$M, _>(s), MAX_POLLS), "astd expect"),
                        },
                        |m| match catch(|| { let mut v = Vec::new(); m.$wp(&mut v).map(|_| v) }) {
                            Ok(Ok(v)) => Ok(v),
                            Ok(Err(e)) => Err(format!("write error {:?}", e)),
                            Err((msg, loc)) => Err(format!("write panicked: '{}' at {}", msg, rel_location(&loc))),
                        },
                    )),)*
                    _ => None,
                }
            }
            fn encrypted_cycle(key: &[u8; 40], frames: &[(String, Vec<u8>)], flavor: Flavor) -> Option<EncCycle> {
                let whole = Schedule::whole();
                let user = wow_srp::normalized_string::NormalizedString::new("VERIF").unwrap();
                let server_seed = wow_srp::$srp::ProofSeed::new();
                let client_seed = wow_srp::$srp::ProofSeed::new();
                let (ss, cs) = (server_seed.seed(), client_seed.seed());
                let (proof, client) = client_seed.into_client_header_crypto(&user, *key, ss);
                let server = server_seed.into_server_header_crypto(&user, *key, proof, cs).expect("proof");
                let (mut client_enc, mut client_dec) = client.split();
                let (mut server_enc, mut server_dec) = server.split();
                let _ = (&mut client_enc, &mut client_dec, &mut server_enc, &mut server_dec);
                let (enc, dec) = typed_set!(@halves $writer_side, client_enc, client_dec, server_enc, server_dec);
                let mut cipher: Vec<u8> = Vec::new();
                let mut debugs: Vec<String> = Vec::new();
                // write
                for (name, f) in frames {
                    let r: Result<Result<(Vec<u8>, String), String>, (String, String)> = catch(|| match name.as_str() {
                        $(stringify!($M) => {
                            let m = x::$expect::<x::$M, _>(&mut Cursor::new(&f[..])).map_err(|e| format!("plain decode failed: {:?}", e))?;
                            let d = format!("{:?}", m);
                            let bytes = match flavor {
                                Flavor::Sync => { let mut v = Vec::new(); m.$we(&mut v, enc).map_err(|e| format!("{:?}", e))?; v }
                                Flavor::Tokio => { let mut t = ScriptedSink::new(&whole); match drive(m.$twe(&mut t, enc), MAX_POLLS) { Driven::Done(r) => r.map_err(|e| format!("{:?}", e))?, _ => return Err("stalled".into()) }; t.out }
                                Flavor::Astd => { let mut t = ScriptedSink::new(&whole); match drive(m.$awe(&mut t, enc), MAX_POLLS) { Driven::Done(r) => r.map_err(|e| format!("{:?}", e))?, _ => return Err("stalled".into()) }; t.out }
                            };
                            Ok((bytes, d))
                        })*
                        _ => Err(format!("type {} not in the typed set", name)),
                    });
                    match r {
                        Ok(Ok((b, d))) => { cipher.extend_from_slice(&b); debugs.push(d); }
                        Ok(Err(e)) => return Some(EncCycle { cipher: Err(format!("encrypted write error: {}", e)), read_back: vec![], probe_ok: None }),
                        Err((m, l)) => return Some(EncCycle { cipher: Err(format!("encrypted write panicked: '{}' at {}", m, rel_location(&l))), read_back: vec![], probe_ok: None }),
                    }
                }
                // read back
                let mut read_back = Vec::new();
                let mut pos = 0usize;
                for (name, _) in frames {
                    let buf = &cipher[pos.min(cipher.len())..];
                    let o: Outcome = match name.as_str() {
                        $(stringify!($M) => match flavor {
                            Flavor::Sync => {
                                let mut c = Cursor::new(buf);
                                let r = catch(|| x::$expect_enc::<x::$M, _>(&mut c, dec));
                                let consumed = c.position() as usize;
                                outcome_of(r, consumed, |_| Err("n/a".into()))
                            }
                            _ => {
                                let mut s = Scripted::new(buf, &whole);
                                let r = catch(|| match flavor {
                                    Flavor::Tokio => drv(drive(x::$texpect_enc::<x::$M, _>(&mut s, dec), MAX_POLLS), "tokio expect enc"),
                                    _ => drv(drive(x::$aexpect_enc::<x::$M, _>(&mut s, dec), MAX_POLLS), "astd expect enc"),
                                });
                                let consumed = s.pos;
                                match r {
                                    Err((message, location)) => Outcome::Panic { message, location },
                                    Ok(Err(o)) => o,
                                    Ok(Ok(x)) => outcome_of(Ok(x), consumed, |_| Err("n/a".into())),
                                }
                            }
                        },)*
                        _ => return None,
                    };
                    let adv = match &o { Outcome::Ok { consumed, .. } => Some(*consumed), _ => None };
                    read_back.push(o);
                    match adv { Some(n) => pos += n, None => break }
                }
                let _ = debugs;
                Some(EncCycle { cipher: Ok(cipher), read_back, probe_ok: None })
            }
            TypedSet { exp: $expv, dir: $dir, names: &[$(stringify!($M)),*], expect, encrypted_cycle }
        }
    };
    (@halves client, $ce:ident, $cd:ident, $se:ident, $sd:ident) => { (&mut $ce, &mut $sd) };
    (@halves server, $ce:ident, $cd:ident, $se:ident, $sd:ident) => { (&mut $se, &mut $cd) };
}

macro_rules! server_set {
    ($fname:ident, $exp:ident, $expv:expr, $srp:ident) => {
        typed_set!($fname, $exp, $expv, Direction::Server, $srp, server,
            expect_server_message, tokio_expect_server_message, astd_expect_server_message,
            expect_server_message_encryption, tokio_expect_server_message_encryption, astd_expect_server_message_encryption,
            write_unencrypted_server, write_encrypted_server, tokio_write_encrypted_server, astd_write_encrypted_server,
            [SMSG_AUTH_CHALLENGE, SMSG_PONG, SMSG_WARDEN_DATA, SMSG_CHAR_ENUM, SMSG_MESSAGECHAT, SMSG_UPDATE_OBJECT, SMSG_COMPRESSED_UPDATE_OBJECT,
             SMSG_NAME_QUERY_RESPONSE, SMSG_LOGIN_VERIFY_WORLD, SMSG_TUTORIAL_FLAGS, SMSG_MONSTER_MOVE, SMSG_CHAR_CREATE, SMSG_ACCOUNT_DATA_TIMES,
             SMSG_ITEM_QUERY_SINGLE_RESPONSE, SMSG_WHO, SMSG_LOGOUT_COMPLETE]);
    };
}
macro_rules! client_set {
    ($fname:ident, $exp:ident, $expv:expr, $srp:ident) => {
        typed_set!($fname, $exp, $expv, Direction::Client, $srp, client,
            expect_client_message, tokio_expect_client_message, astd_expect_client_message,
            expect_client_message_encryption, tokio_expect_client_message_encryption, astd_expect_client_message_encryption,
            write_unencrypted_client, write_encrypted_client, tokio_write_encrypted_client, astd_write_encrypted_client,
            [CMSG_PING, CMSG_WARDEN_DATA, CMSG_CHAR_ENUM, CMSG_AUTH_SESSION, CMSG_NAME_QUERY, CMSG_MESSAGECHAT, CMSG_PLAYER_LOGIN, CMSG_CHAR_CREATE,
             CMSG_WHO, CMSG_UPDATE_ACCOUNT_DATA, CMSG_JOIN_CHANNEL, CMSG_ITEM_QUERY_SINGLE, CMSG_LOGOUT_REQUEST]);
    };
}

server_set!(vanilla_server, vanilla, Expansion::Vanilla, vanilla_header);
server_set!(tbc_server, tbc, Expansion::Tbc, tbc_header);
server_set!(wrath_server, wrath, Expansion::Wrath, wrath_header);
client_set!(vanilla_client, vanilla, Expansion::Vanilla, vanilla_header);
client_set!(tbc_client, tbc, Expansion::Tbc, tbc_header);
client_set!(wrath_client, wrath, Expansion::Wrath, wrath_header);

pub fn all() -> Vec<TypedSet> {
    vec![vanilla_server(), tbc_server(), wrath_server(), vanilla_client(), tbc_client(), wrath_client()]
}

pub fn find(sets: &[TypedSet], exp: Expansion, dir: Direction) -> Option<&TypedSet> {
    sets.iter().find(|s| s.exp == exp && s.dir == dir)
}

/// a message value of exactly `n` body bytes, built directly from its public field, written by the public writer
pub fn warden_write(exp: Expansion, dir: Direction, n: usize) -> Result<Vec<u8>, String> {
    macro_rules! go {
        ($exp:ident) => {{
            use wow_world_messages::$exp::{ClientMessage, ServerMessage};
            let r = catch(|| -> Result<Vec<u8>, String> {
                let mut v = Vec::new();
                match dir {
                    Direction::Server => wow_world_messages::$exp::SMSG_WARDEN_DATA { encrypted_data: vec![0x5A; n] }.write_unencrypted_server(&mut v).map_err(|e| format!("{:?}", e))?,
                    Direction::Client => wow_world_messages::$exp::CMSG_WARDEN_DATA { encrypted_data: vec![0x5A; n] }.write_unencrypted_client(&mut v).map_err(|e| format!("{:?}", e))?,
                }
                Ok(v)
            });
            match r {
                Ok(x) => x,
                Err((m, l)) => Err(format!("write panicked: '{}' at {}", m, rel_location(&l))),
            }
        }};
    }
    match exp {
        Expansion::Vanilla => go!(vanilla),
        Expansion::Tbc => go!(tbc),
        Expansion::Wrath => go!(wrath),
    }
}
