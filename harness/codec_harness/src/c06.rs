//! C06: blocking, tokio and async-std variants agree under every stream chunking.
use crate::corpus::Corpus;
use crate::endpoints::{Ep, Flavor};
use crate::gen::*;
use crate::outcome::*;
use crate::sched::Schedule;
use proptest::prelude::*;
use serde_json::json;
use std::collections::{BTreeMap, BTreeSet};
use vcommon::{Check, Tier};
use wowm_model::frame::*;
use wowm_model::resolve::*;

/// all compositions of n into chunk lengths (2^(n-1) of them), each with `pend` Pendings before every chunk
fn compositions(n: usize, pend: u8) -> Vec<Schedule> {
    if n == 0 {
        return vec![Schedule::whole()];
    }
    let mut out = Vec::new();
    for mask in 0u32..(1u32 << (n - 1)) {
        let mut steps = Vec::new();
        let mut len = 1usize;
        for i in 0..n - 1 {
            if mask >> i & 1 == 1 {
                steps.push((pend, len));
                len = 1;
            } else {
                len += 1;
            }
        }
        steps.push((pend, len));
        out.push(Schedule { steps });
    }
    out
}

fn same(sync: &Outcome, other: &Outcome) -> Result<(), String> {
    match (sync, other) {
        (Outcome::Ok { debug: a, consumed: ca, .. }, Outcome::Ok { debug: b, consumed: cb, .. }) => {
            if a != b {
                return Err("value".into());
            }
            if ca != cb {
                return Err(format!("consumed:{}-vs-{}", ca, cb));
            }
            Ok(())
        }
        (Outcome::Err { class: a, .. }, Outcome::Err { class: b, .. }) => {
            if a.kind() != b.kind() {
                return Err(format!("error-kind:{}-vs-{}", a.kind(), b.kind()));
            }
            if let (ErrClass::Enum { value: va, .. }, ErrClass::Enum { value: vb, .. }) = (a, b) {
                if va != vb {
                    return Err("enum-value".into());
                }
            }
            Ok(())
        }
        (Outcome::Panic { .. }, Outcome::Panic { .. }) => Ok(()),
        (a, b) => Err(format!("outcome:{}-vs-{}", a.kind(), b.kind())),
    }
}

pub fn run(tier: Tier, replay: Option<String>) -> i32 {
    let mut c = Check::new("C06", tier);
    let corpus = match Corpus::load() {
        Ok(c) => c,
        Err(e) => {
            eprintln!("C06: {}", e);
            return 2;
        }
    };
    if let Some(p) = replay {
        let j = vcommon::read_json(std::path::Path::new(&p));
        if j["kind"] == "protocol" {
            let steps: Vec<(u8, usize)> = j["schedule"].as_array().map(|a| a.iter().map(|s| (s[0].as_u64().unwrap_or(0) as u8, s[1].as_u64().unwrap_or(1) as usize)).collect()).unwrap_or_default();
            let input = vcommon::unhex(j["input"].as_str().unwrap_or(""));
            return match crate::c14::protocol_replay(j["family"].as_str().unwrap_or(""), j["version"].as_u64().unwrap_or(8) as u8, &input, Schedule { steps }) {
                None => 2,
                Some(Ok(())) => {
                    println!("replay: blocking, tokio and async-std protocol readers agree");
                    0
                }
                Some(Err(m)) => {
                    println!("VIOLATION property=C06 replay={}", p);
                    println!("  {}", m);
                    1
                }
            };
        }
        let frame = vcommon::unhex(j["frame"].as_str().unwrap_or(""));
        let steps: Vec<(u8, usize)> = j["schedule"].as_array().map(|a| a.iter().map(|s| (s[0].as_u64().unwrap_or(0) as u8, s[1].as_u64().unwrap_or(1) as usize)).collect()).unwrap_or_default();
        let sched = Schedule { steps };
        let Some(ep) = corpus.eps.iter().find(|e| e.label() == j["endpoint"].as_str().unwrap_or("")) else { return 2 };
        let flavor = if j["flavor"] == "tokio" { Flavor::Tokio } else { Flavor::Astd };
        let s = ep.read_only(&frame);
        let a = ep.read_async(flavor, &frame, &sched);
        println!("sync:  {}\n{}: {}", s.short(), flavor.name(), a.short());
        return match same(&s, &a) {
            Ok(()) => 0,
            Err(m) => {
                println!("VIOLATION property=C06 replay={}", p);
                println!("  {}", m);
                1
            }
        };
    }
    c.rule = "for every login message x protocol version and for the world opcode-enum readers (header + body): canonical encodings (directed enumeration) and malformed variants (truncations, bad enums, bad UTF-8, bad lengths from the C03 corruption set) are delivered through a scripted transport the harness owns: all 2^(n-1) chunk compositions for frames up to 12 bytes (with 0 and 1 Pending before every chunk), and for longer frames single-byte delivery, halves, a cut inside every multi-byte field, and proptest-drawn cut sets with Pending counts. Oracle: the tokio and async-std readers return what the blocking reader returns on the whole buffer (same value and bytes consumed, or an error of the same kind / same enum number); the three writers emit identical bytes through a sink accepting partial writes; the protocol-parameterised login readers (expect_*_message_protocol, 15 families x protocol versions) on canonical encodings and their truncations: tokio and async-std against the blocking one under all compositions (inputs up to 9 bytes) or whole / single-byte / halves / a cut after each of the first 48 bytes. Non-trivial = schedule with >= 2 chunks or >= 1 Pending; distinct = (endpoint, message, frame shape, schedule shape).".into();
    c.assume("futures are driven by a single-threaded poll loop with a counting waker; a future that returns Pending without arranging a wake-up is reported as a stall");
    let seed = c.seed;
    let forced0 = BTreeMap::new();
    for ep in corpus.eps.iter() {
        let is_login = matches!(ep.ns(), Ns::Login(_));
        let entries: Vec<&Entry> = corpus.entries.iter().filter(|e| e.ns == ep.ns() && e.dir == ep.dir() && !corpus.skip_entry.contains(&e.label())).collect();
        // world: a spread of entries (the per-message body readers are sync-only; the async part is header + body transfer)
        let step = if is_login { 1 } else { tier.pick(12, 2) };
        for (k, e) in entries.iter().enumerate() {
            if k % step != 0 {
                // outside the spread: the writer dispatch tables still have one arm per message and flavour
                if !corpus.skip_write.contains(&e.label()) {
                    if let Ok(enc) = corpus.encode(e, &[], &forced0) {
                        if enc.frame.len() <= 70_000 && !ep.read_only(&enc.frame).is_panic() {
                            c.eval();
                            c.nontrivial(vcommon::fnv(format!("{}|{}|writers-only", ep.label(), e.name).as_bytes()));
                            match ep.write_flavors(&enc.frame, &Schedule { steps: vec![(1, 3), (0, 1), (1, 7)] }) {
                                Ok([a, t, s]) => {
                                    if a != t || a != s {
                                        c.fail(&format!("c06:{}/{}:writers-differ", ep.label(), e.name), "sync, tokio and async-std writers emit different bytes", json!({"endpoint": ep.label(), "message": e.name, "frame": vcommon::hex(&enc.frame), "sync": vcommon::hex_short(&a), "tokio": vcommon::hex_short(&t), "astd": vcommon::hex_short(&s)}));
                                    }
                                    c.count("writers_compared_outside_the_spread");
                                }
                                Err(m) => {
                                    if m.contains("tokio write") || m.contains("async-std write") {
                                        c.fail(&format!("c06:{}/{}:async-writer-failed", ep.label(), e.name), &m, json!({"endpoint": ep.label(), "message": e.name, "frame": vcommon::hex(&enc.frame)}));
                                    } else {
                                        c.count("writer_failure_left_to_C01");
                                    }
                                }
                            }
                        }
                    }
                }
                continue;
            }
            let encf = |t: &[u8], fo: &BTreeMap<String, u32>| corpus.encode(e, t, fo);
            let mut ds = DirectedStats::default();
            let cases = directed(&encf, &[], tier.pick(if is_login { 400 } else { 12 }, if is_login { 4000 } else { 100 }), &mut ds).unwrap_or_default();
            let mut frames: Vec<(Vec<u8>, &'static str, Option<Encoded>)> = Vec::new();
            let mut done = BTreeSet::new();
            for case in &cases {
                frames.push((case.enc.frame.clone(), "canonical", Some(case.enc.clone())));
                if is_login || frames.len() < 40 {
                    for cor in crate::c03::corruptions(e, &case.enc, &mut done) {
                        if cor.frame.len() <= 4096 {
                            frames.push((cor.frame, "malformed", None));
                        }
                    }
                }
            }
            for (frame, class, enc) in &frames {
                if frame.len() > 70_000 {
                    continue;
                }
                let sync = ep.read_only(frame);
                if sync.is_panic() {
                    // totality is C03's subject; nothing to compare against
                    c.count("sync_panic_skipped");
                    continue;
                }
                let mut scheds: Vec<Schedule> = Vec::new();
                if frame.len() <= 12 {
                    scheds.extend(compositions(frame.len(), 0));
                    scheds.extend(compositions(frame.len(), 1));
                    c.count("exhaustive_compositions");
                } else {
                    scheds.push(Schedule::whole());
                    scheds.push(Schedule::single_bytes(frame.len().min(5000), 0));
                    scheds.push(Schedule::single_bytes(frame.len().min(2000), 2));
                    scheds.push(Schedule { steps: vec![(1, frame.len() / 2), (3, frame.len())] });
                    // a cut inside every multi-byte field
                    if let Some(enc) = enc {
                        let mut cuts: Vec<usize> = enc.trace.iter().filter(|l| l.region == 0 && l.width >= 2).map(|l| enc.header_len + l.offset + l.width / 2).collect();
                        cuts.sort();
                        cuts.dedup();
                        let mut steps = Vec::new();
                        let mut prev = 0;
                        for cut in cuts.iter().take(200) {
                            if *cut > prev {
                                steps.push((1u8, cut - prev));
                                prev = *cut;
                            }
                        }
                        scheds.push(Schedule { steps });
                        // header split byte by byte, then the rest
                        scheds.push(Schedule { steps: (0..enc.header_len).map(|_| (1u8, 1usize)).collect() });
                    }
                }
                for sched in &scheds {
                    for flavor in [Flavor::Tokio, Flavor::Astd] {
                        c.eval();
                        let nontrivial = sched.steps.len() >= 2 || sched.pendings() >= 1;
                        if nontrivial {
                            c.nontrivial(vcommon::fnv(format!("{}|{}|{}|{:?}|{}", ep.label(), e.name, vcommon::fnv(frame), sched.steps.iter().take(16).collect::<Vec<_>>(), flavor.name()).as_bytes()));
                        }
                        c.count(&format!("{}.{}", class, flavor.name()));
                        let a = ep.read_async(flavor, frame, sched);
                        if let Err(m) = same(&sync, &a) {
                            let kind = m.split(':').next().unwrap_or("").to_string();
                            c.fail(&format!("c06:{}/{}:{}:{}", ep.label(), e.name, flavor.name(), kind), &format!("{} reader under schedule {:?}: {}; sync: {}; async: {}", flavor.name(), &sched.steps[..sched.steps.len().min(8)], m, sync.short(), a.short()),
                                json!({"endpoint": ep.label(), "message": e.name, "flavor": flavor.name(), "frame": vcommon::hex(frame), "schedule": sched.steps.iter().map(|s| json!([s.0, s.1])).collect::<Vec<_>>()}));
                        } else if c.samples.len() < 6 && nontrivial && c.evaluations % 5003 == 1 {
                            c.sample(json!({"endpoint": ep.label(), "message": e.name, "class": class, "flavor": flavor.name(), "frame": vcommon::hex_short(frame), "schedule": sched.steps.iter().take(12).map(|s| json!([s.0, s.1])).collect::<Vec<_>>(), "result": a.kind()}));
                        }
                    }
                }
                // writers through a sink that accepts partial writes
                if *class == "canonical" && !corpus.skip_write.contains(&e.label()) {
                    for sched in [Schedule::whole(), Schedule::single_bytes(frame.len().min(3000), 1), Schedule { steps: vec![(2, 3), (0, 1), (1, 7)] }] {
                        c.eval();
                        match ep.write_flavors(frame, &sched) {
                            Ok([a, t, s]) => {
                                if a != t || a != s {
                                    c.fail(&format!("c06:{}/{}:writers-differ", ep.label(), e.name), "sync, tokio and async-std writers emit different bytes", json!({"endpoint": ep.label(), "message": e.name, "frame": vcommon::hex(frame), "sync": vcommon::hex_short(&a), "tokio": vcommon::hex_short(&t), "astd": vcommon::hex_short(&s)}));
                                }
                                c.count("writers_compared");
                            }
                            Err(m) => {
                                // a failing writer is C01/C02's subject unless only one flavor fails
                                if m.contains("tokio write") || m.contains("async-std write") {
                                    c.fail(&format!("c06:{}/{}:async-writer-failed", ep.label(), e.name), &m, json!({"endpoint": ep.label(), "message": e.name, "frame": vcommon::hex(frame)}));
                                } else {
                                    c.count("writer_failure_left_to_C01");
                                }
                            }
                        }
                    }
                }
            }
            // proptest: random cut sets with pending counts, on this entry's canonical encodings from tapes
            let strat = (tape_strategy(64), prop::collection::vec((0u8..3, 1usize..40), 0..24), any::<bool>());
            let cc = std::cell::RefCell::new(&mut c);
            let fail = vcommon::prop_search(seed, vcommon::fnv(e.label().as_bytes()) ^ 0xC06, tier.pick(if is_login { 150 } else { 10 }, if is_login { 5000 } else { 300 }), &strat, |(tape, steps, tok), counting| {
                let Ok(enc) = corpus.encode(e, tape, &forced0) else { return Ok(()) };
                if enc.frame.len() > 70_000 {
                    return Ok(());
                }
                let sched = Schedule { steps: steps.clone() };
                let flavor = if *tok { Flavor::Tokio } else { Flavor::Astd };
                let sync = ep.read_only(&enc.frame);
                if sync.is_panic() {
                    return Ok(());
                }
                let a = ep.read_async(flavor, &enc.frame, &sched);
                if counting {
                    let mut c = cc.borrow_mut();
                    c.eval();
                    c.count("proptest_schedules");
                    if steps.len() >= 2 {
                        c.nontrivial(vcommon::fnv(format!("{}|{}|{:?}|{}", e.label(), enc.shape(), steps, tok).as_bytes()));
                    }
                }
                same(&sync, &a).map_err(|m| format!("{}|{}", m.split(':').next().unwrap_or(""), m))
            });
            if let Some(((tape, steps, tok), msg)) = fail {
                let (kind, detail) = msg.split_once('|').unwrap_or((&msg, ""));
                let frame = corpus.encode(e, &tape, &forced0).map(|e| e.frame).unwrap_or_default();
                c.fail(&format!("c06:{}/{}:{}:{}", ep.label(), e.name, if tok { "tokio" } else { "async-std" }, kind), detail, json!({"endpoint": ep.label(), "message": e.name, "flavor": if tok { "tokio" } else { "async-std" }, "frame": vcommon::hex(&frame), "schedule": steps.iter().map(|s| json!([s.0, s.1])).collect::<Vec<_>>()}));
            }
        }
    }
    // world: large frames (3-byte Wrath server header included) through the plain asynchronous readers, and
    // the DECRYPTING readers of all three flavours under delivery schedules (they are separate copies of the header reader)
    for ep in corpus.eps.iter() {
        let Ns::World(exp) = ep.ns() else { continue };
        let dir = ep.dir();
        let sizes: &[usize] = if dir == Direction::Server { &[0, 5, 0x7FF0, 0x7FFC, 0x7FFD, 0x7FFE, 0x7FFF, 0x8000, 0xFFFA, 0xFFFD, 0x10000, 0x12345] } else { &[0, 5, 0x2000, 0x27F0] };
        let mut frames: Vec<Vec<u8>> = Vec::new();
        for n in sizes {
            if let Ok(f) = crate::typed::warden_write(exp, dir, *n) {
                // only frames the blocking plain reader accepts (recorded findings about size limits stay with C02 / C09)
                if matches!(ep.read_only(&f), Outcome::Ok { .. }) {
                    frames.push(f);
                }
            }
        }
        for (_, f) in corpus.counted_array_frames(ep.ns(), dir, &[0x1_0002, 0x2_0000, 0x7_FFF0]) {
            if matches!(ep.read_only(&f), Outcome::Ok { .. }) {
                frames.push(f);
            }
        }
        if frames.is_empty() {
            continue;
        }
        let scheds = |len: usize| -> Vec<Schedule> { vec![Schedule::whole(), Schedule::single_bytes(12.min(len), 1), Schedule { steps: vec![(1, 1), (0, 2), (2, 1), (1, len / 2)] }, Schedule { steps: vec![(0, 3), (1, 2), (0, len.saturating_sub(6)), (1, 1)] }] };
        for f in &frames {
            let sync = ep.read_only(f);
            for sched in scheds(f.len()) {
                for flavor in [Flavor::Tokio, Flavor::Astd] {
                    c.eval();
                    c.count("large-frame.plain");
                    c.nontrivial(vcommon::fnv(format!("large|{}|{}|{:?}|{}", ep.label(), f.len(), sched.steps, flavor.name()).as_bytes()));
                    let a = ep.read_async(flavor, f, &sched);
                    let a = match a {
                        Outcome::Ok { debug, consumed, .. } => Outcome::Ok { debug, consumed, rewritten: Err("skipped".into()) },
                        o => o,
                    };
                    if let Err(m) = same(&sync, &a) {
                        c.fail(&format!("c06:{}/large-frame:{}:{}", ep.label(), flavor.name(), m.split(':').next().unwrap_or("")), &format!("{} reader, body of {} bytes, schedule {:?}: {}", flavor.name(), f.len(), sched.steps, m), json!({"endpoint": ep.label(), "frame_len": f.len(), "flavor": flavor.name(), "schedule": sched.steps.iter().map(|s| json!([s.0, s.1])).collect::<Vec<_>>()}));
                    }
                }
            }
        }
        // sequences small / large / small through the encrypted stream
        let key = [0x5Au8; 40];
        for big in frames.iter().filter(|f| f.len() > 64) {
            let seq = vec![frames[0].clone(), big.clone(), frames[1.min(frames.len() - 1)].clone()];
            let Some(reference) = ep.encrypted_cycle(&key, &seq, Flavor::Sync, Flavor::Sync, None) else { continue };
            if reference.cipher.is_err() {
                c.count("encrypted-reference-write-failed (left to C05)");
                continue;
            }
            for sched in scheds(big.len()) {
                for flavor in [Flavor::Tokio, Flavor::Astd] {
                    c.eval();
                    c.count("large-frame.encrypted");
                    c.nontrivial(vcommon::fnv(format!("enc|{}|{}|{:?}|{}", ep.label(), big.len(), sched.steps, flavor.name()).as_bytes()));
                    let Some(cyc) = ep.encrypted_cycle_sched(&key, &seq, Flavor::Sync, flavor, None, &sched) else { continue };
                    let mut bad: Option<String> = None;
                    if cyc.read_back.len() != reference.read_back.len() {
                        bad = Some(format!("count: blocking reader returns {} messages, {} returns {}", reference.read_back.len(), flavor.name(), cyc.read_back.len()));
                    } else {
                        for (k, (a, b)) in reference.read_back.iter().zip(cyc.read_back.iter()).enumerate() {
                            if let Err(m) = same(a, b) {
                                bad = Some(format!("message {}: {}", k, m));
                                break;
                            }
                        }
                    }
                    if let Some(m) = bad {
                        c.fail(&format!("c06:{}/encrypted-stream:{}:{}", ep.label(), flavor.name(), m.split(':').next().unwrap_or("")), &format!("decrypting {} reader, sequence with a body of {} bytes, schedule {:?}: {}", flavor.name(), big.len(), sched.steps, m), json!({"endpoint": ep.label(), "big_frame_len": big.len(), "flavor": flavor.name(), "schedule": sched.steps.iter().map(|s| json!([s.0, s.1])).collect::<Vec<_>>()}));
                    }
                }
            }
        }
    }
    // the protocol-parameterised login entry points (hand-written dispatch over the per-version readers)
    crate::c14::protocol_readers_under_schedules(&corpus, &mut c, tier, &|input: &[u8]| {
        let n = input.len();
        if n <= 9 {
            let mut v = compositions(n, 0);
            v.extend(compositions(n, 1));
            v
        } else {
            let mut v = vec![Schedule::whole(), Schedule::single_bytes(n, 0), Schedule::single_bytes(n, 1), Schedule { steps: vec![(1, n / 2), (2, n)] }];
            // a cut after every one of the first 48 bytes
            for cut in 1..n.min(48) {
                v.push(Schedule { steps: vec![(0, cut), (1, n)] });
            }
            v
        }
    });
    c.finish()
}

#[allow(dead_code)]
fn _unused(_: &dyn Ep) {}
