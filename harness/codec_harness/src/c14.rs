//! C14: login protocol-version views of a message are lossless and codec-equivalent.
use crate::corpus::Corpus;
use crate::gen::*;
use crate::outcome::*;
use crate::sched::*;
use serde_json::json;
use std::collections::{BTreeMap, BTreeSet};
use std::io::Cursor;
use vcommon::{Check, Tier};
use wow_login_messages::all::ProtocolVersion;
use wow_login_messages::CollectiveMessage;
use wowm_model::frame::*;
use wowm_model::resolve::*;

const MAX_POLLS: usize = 10_000_000;

fn pv(v: u8) -> ProtocolVersion {
    match v {
        2 => ProtocolVersion::Two,
        3 => ProtocolVersion::Three,
        5 => ProtocolVersion::Five,
        6 => ProtocolVersion::Six,
        7 => ProtocolVersion::Seven,
        _ => ProtocolVersion::Eight,
    }
}

type Fail = (String, String);

fn kind_of<T: std::fmt::Debug, E: std::fmt::Debug>(r: &Result<Result<T, E>, (String, String)>) -> String {
    match r {
        Err((_, l)) => format!("Panic:{}", rel_location(l)),
        Ok(Ok(_)) => "Ok".into(),
        Ok(Err(e)) => format!("Err:{}", classify_error(&format!("{:?}", e)).kind()),
    }
}

macro_rules! family_fn {
    ($fname:ident, $Marker:ident, $expect:ident, $expect_protocol:ident, $texpect_protocol:ident, $aexpect_protocol:ident) => {
        /// one (family, version) case: `frame` is a canonical encoding of version `v`'s message, `malformed` are corruptions of it
        #[allow(clippy::too_many_arguments)]
        fn $fname<M, V>(v: u8, frame: &[u8], malformed: &[Vec<u8>], from: fn(V) -> M, to: fn(&M) -> V, stats: &mut BTreeMap<String, u64>) -> Result<(), Fail>
        where
            M: CollectiveMessage + wow_login_messages::$Marker + std::fmt::Debug + PartialEq + Clone,
            V: wow_login_messages::Message + wow_login_messages::$Marker + std::fmt::Debug + PartialEq + Clone,
        {
            use wow_login_messages::helper::*;
            let p = pv(v);
            // the version's own codec
            let x: V = match catch(|| $expect::<V, _>(&mut Cursor::new(frame))) {
                Ok(Ok(x)) => x,
                other => return Err(("own-codec-rejects".into(), format!("version {}'s own reader: {}", v, kind_of(&other)))),
            };
            // lift / lower
            let lifted = catch(|| from(x.clone())).map_err(|(m, l)| (format!("lift-panic:{}", rel_location(&l)), m))?;
            let lowered = catch(|| to(&lifted)).map_err(|(m, l)| (format!("lower-panic:{}", rel_location(&l)), m))?;
            if lowered != x {
                return Err(("lift-lower-not-identity".into(), format!("version {}: {:?} became {:?}", v, x, lowered)));
            }
            // protocol-parameterised API: value and bytes of the version's own codec
            let own_bytes = {
                let mut b = Vec::new();
                x.write(&mut b).map_err(|e| ("own-write".to_string(), format!("{:?}", e)))?;
                b
            };
            let m: M = match catch(|| $expect_protocol::<M, _>(&mut Cursor::new(frame), p)) {
                Ok(Ok(m)) => m,
                other => return Err(("protocol-read-rejects".into(), format!("expect_*_message_protocol(version {}): {}", v, kind_of(&other)))),
            };
            if m != lifted {
                return Err(("protocol-read-value".into(), format!("version {}: read_protocol gives {:?}, lifting the version's own value gives {:?}", v, m, lifted)));
            }
            let mut pb = Vec::new();
            match catch(|| m.write_protocol(&mut pb, p)) {
                Ok(Ok(())) => {}
                Ok(Err(e)) => return Err(("protocol-write-error".into(), format!("{:?}", e))),
                Err((msg, l)) => return Err((format!("protocol-write-panic:{}", rel_location(&l)), msg)),
            }
            if pb != own_bytes {
                return Err(("protocol-write-bytes".into(), format!("version {}: write_protocol gives {} but the version's own write gives {}", v, vcommon::hex_short(&pb), vcommon::hex_short(&own_bytes))));
            }
            *stats.entry("roundtrips".into()).or_insert(0) += 1;
            // async variants of the protocol API agree (whole and byte-by-byte delivery)
            for sched in [Schedule::whole(), Schedule::single_bytes(frame.len(), 1)] {
                let mut s = Scripted::new(frame, &sched);
                match drive($texpect_protocol::<M, _>(&mut s, p), MAX_POLLS) {
                    Driven::Done(Ok(t)) => {
                        if t != m {
                            return Err(("tokio-protocol-value".into(), format!("version {}: tokio gives {:?}", v, t)));
                        }
                    }
                    Driven::Done(Err(e)) => return Err(("tokio-protocol-rejects".into(), format!("{:?}", e))),
                    _ => return Err(("tokio-protocol-stalled".into(), String::new())),
                }
                let mut s = Scripted::new(frame, &sched);
                match drive($aexpect_protocol::<M, _>(&mut s, p), MAX_POLLS) {
                    Driven::Done(Ok(t)) => {
                        if t != m {
                            return Err(("astd-protocol-value".into(), format!("version {}: async-std gives {:?}", v, t)));
                        }
                    }
                    Driven::Done(Err(e)) => return Err(("astd-protocol-rejects".into(), format!("{:?}", e))),
                    _ => return Err(("astd-protocol-stalled".into(), String::new())),
                }
                // async writers
                let mut t = ScriptedSink::new(&sched);
                match drive(m.tokio_write_protocol(&mut t, p), MAX_POLLS) {
                    Driven::Done(Ok(())) => {
                        if t.out != own_bytes {
                            return Err(("tokio-protocol-write-bytes".into(), format!("version {}", v)));
                        }
                    }
                    _ => return Err(("tokio-protocol-write-failed".into(), String::new())),
                }
                let mut t = ScriptedSink::new(&sched);
                match drive(m.astd_write_protocol(&mut t, p), MAX_POLLS) {
                    Driven::Done(Ok(())) => {
                        if t.out != own_bytes {
                            return Err(("astd-protocol-write-bytes".into(), format!("version {}", v)));
                        }
                    }
                    _ => return Err(("astd-protocol-write-failed".into(), String::new())),
                }
            }
            // malformed input: both paths fail (or succeed) in the same way
            for bad in malformed {
                let a = catch(|| $expect::<V, _>(&mut Cursor::new(&bad[..])));
                let b = catch(|| $expect_protocol::<M, _>(&mut Cursor::new(&bad[..]), p));
                let (ka, kb) = (kind_of(&a), kind_of(&b));
                *stats.entry("malformed_compared".into()).or_insert(0) += 1;
                if ka != kb {
                    return Err(("malformed-differs".into(), format!("version {} on {}: own codec {} but protocol API {}", v, vcommon::hex_short(bad), ka, kb)));
                }
                if let (Ok(Ok(xa)), Ok(Ok(mb))) = (&a, &b) {
                    if from(xa.clone()) != *mb {
                        return Err(("malformed-value-differs".into(), format!("version {} on {}", v, vcommon::hex_short(bad))));
                    }
                    // whatever produced the bytes: a value the version's own codec accepts (flag bits the version does not
                    // name, boundary numbers) is a value of that version, and the views must be lossless for it too
                    // OBSERVED, NOT JUDGED: the property quantifies over canonical encodings (DESIGN 1.10: no undeclared
                    // flag bits). On the unchanged tree the views drop the undeclared bits of SecurityFlag (0x80 of a
                    // version 5 logon proof comes back as 0); the counters make a change of that behaviour visible.
                    *stats.entry("accepted_noncanonical_inputs".into()).or_insert(0) += 1;
                    if let Ok(low) = catch(|| to(mb)) {
                        if low != *xa {
                            *stats.entry("accepted_noncanonical_inputs_changed_by_lift_and_lower__not_judged".into()).or_insert(0) += 1;
                        }
                    }
                }
            }
            Ok(())
        }
    };
}

family_fn!(client_case, ClientMessage, expect_client_message, expect_client_message_protocol, tokio_expect_client_message_protocol, astd_expect_client_message_protocol);
family_fn!(server_case, ServerMessage, expect_server_message, expect_server_message_protocol, tokio_expect_server_message_protocol, astd_expect_server_message_protocol);

type CaseFn = fn(u8, &[u8], &[Vec<u8>], &mut BTreeMap<String, u64>) -> Result<(), Fail>;

macro_rules! family {
    ($case:ident, $M:ty) => {{
        fn f(v: u8, frame: &[u8], malformed: &[Vec<u8>], stats: &mut BTreeMap<String, u64>) -> Result<(), Fail> {
            type M = $M;
            match v {
                2 => $case::<M, <M as CollectiveMessage>::Version2>(v, frame, malformed, M::from_version_2, M::to_version_2, stats),
                3 => $case::<M, <M as CollectiveMessage>::Version3>(v, frame, malformed, M::from_version_3, M::to_version_3, stats),
                5 => $case::<M, <M as CollectiveMessage>::Version5>(v, frame, malformed, M::from_version_5, M::to_version_5, stats),
                6 => $case::<M, <M as CollectiveMessage>::Version6>(v, frame, malformed, M::from_version_6, M::to_version_6, stats),
                7 => $case::<M, <M as CollectiveMessage>::Version7>(v, frame, malformed, M::from_version_7, M::to_version_7, stats),
                _ => $case::<M, M>(v, frame, malformed, |x| x, |x| x.clone(), stats),
            }
        }
        f as CaseFn
    }};
}

/// (wowm message name, direction, checker); the 15 families of `wow_login_messages::collective`
fn families() -> Vec<(&'static str, Direction, CaseFn)> {
    use wow_login_messages::all as a;
    use wow_login_messages::version_8 as v8;
    vec![
        ("CMD_AUTH_LOGON_CHALLENGE_Client", Direction::Client, family!(client_case, a::CMD_AUTH_LOGON_CHALLENGE_Client)),
        ("CMD_AUTH_RECONNECT_CHALLENGE_Client", Direction::Client, family!(client_case, a::CMD_AUTH_RECONNECT_CHALLENGE_Client)),
        ("CMD_AUTH_LOGON_PROOF_Client", Direction::Client, family!(client_case, v8::CMD_AUTH_LOGON_PROOF_Client)),
        ("CMD_AUTH_RECONNECT_PROOF_Client", Direction::Client, family!(client_case, v8::CMD_AUTH_RECONNECT_PROOF_Client)),
        ("CMD_REALM_LIST_Client", Direction::Client, family!(client_case, v8::CMD_REALM_LIST_Client)),
        ("CMD_XFER_ACCEPT", Direction::Client, family!(client_case, v8::CMD_XFER_ACCEPT)),
        ("CMD_XFER_CANCEL", Direction::Client, family!(client_case, v8::CMD_XFER_CANCEL)),
        ("CMD_XFER_RESUME", Direction::Client, family!(client_case, v8::CMD_XFER_RESUME)),
        ("CMD_AUTH_LOGON_CHALLENGE_Server", Direction::Server, family!(server_case, v8::CMD_AUTH_LOGON_CHALLENGE_Server)),
        ("CMD_AUTH_LOGON_PROOF_Server", Direction::Server, family!(server_case, v8::CMD_AUTH_LOGON_PROOF_Server)),
        ("CMD_AUTH_RECONNECT_CHALLENGE_Server", Direction::Server, family!(server_case, v8::CMD_AUTH_RECONNECT_CHALLENGE_Server)),
        ("CMD_AUTH_RECONNECT_PROOF_Server", Direction::Server, family!(server_case, v8::CMD_AUTH_RECONNECT_PROOF_Server)),
        ("CMD_REALM_LIST_Server", Direction::Server, family!(server_case, v8::CMD_REALM_LIST_Server)),
        ("CMD_XFER_DATA", Direction::Server, family!(server_case, v8::CMD_XFER_DATA)),
        ("CMD_XFER_INITIATE", Direction::Server, family!(server_case, v8::CMD_XFER_INITIATE)),
    ]
}

// ---- the protocol-parameterised readers under chosen schedules (driven from C06) ----

macro_rules! proto_sched_fn {
    ($fname:ident, $Marker:ident, $expect_protocol:ident, $texpect_protocol:ident, $aexpect_protocol:ident) => {
        /// blocking `expect_*_message_protocol` on the whole input against the tokio and async-std ones under every schedule
        fn $fname<M>(v: u8, input: &[u8], scheds: &[Schedule]) -> Result<u64, (String, String, Schedule)>
        where
            M: CollectiveMessage + wow_login_messages::$Marker + std::fmt::Debug + PartialEq + Clone,
        {
            use wow_login_messages::helper::*;
            let p = pv(v);
            let mut cur = Cursor::new(input);
            let s = catch(|| $expect_protocol::<M, _>(&mut cur, p));
            if s.is_err() {
                // totality is C03's subject
                return Ok(0);
            }
            let s_pos = cur.position() as usize;
            let ks = kind_of(&s);
            let mut n = 0u64;
            for sched in scheds {
                macro_rules! one {
                    ($flavor:literal, $f:ident) => {{
                        let mut tr = Scripted::new(input, sched);
                        let r = catch(|| drive($f::<M, _>(&mut tr, p), MAX_POLLS));
                        let pos = tr.pos;
                        n += 1;
                        match r {
                            Err((m, l)) => return Err((format!("{}-protocol-panic:{}", $flavor, rel_location(&l)), m, sched.clone())),
                            Ok(Driven::Stalled) => return Err((format!("{}-protocol-stalled", $flavor), "returned Pending without arranging a wake-up".into(), sched.clone())),
                            Ok(Driven::TooManyPolls) => {}
                            Ok(Driven::Done(a)) => {
                                let a = Ok(a);
                                let ka = kind_of(&a);
                                if ka != ks {
                                    return Err((format!("{}-protocol-outcome", $flavor), format!("version {}: blocking {} but {} {}", v, ks, $flavor, ka), sched.clone()));
                                }
                                if let (Ok(Ok(x)), Ok(Ok(y))) = (&s, &a) {
                                    if x != y {
                                        return Err((format!("{}-protocol-value", $flavor), format!("version {}: blocking gives {:?}, {} gives {:?}", v, x, $flavor, y), sched.clone()));
                                    }
                                    if pos != s_pos {
                                        return Err((format!("{}-protocol-consumed", $flavor), format!("version {}: blocking consumed {} bytes, {} consumed {}", v, s_pos, $flavor, pos), sched.clone()));
                                    }
                                }
                            }
                        }
                    }};
                }
                one!("tokio", $texpect_protocol);
                one!("astd", $aexpect_protocol);
            }
            Ok(n)
        }
    };
}

proto_sched_fn!(client_sched, ClientMessage, expect_client_message_protocol, tokio_expect_client_message_protocol, astd_expect_client_message_protocol);
proto_sched_fn!(server_sched, ServerMessage, expect_server_message_protocol, tokio_expect_server_message_protocol, astd_expect_server_message_protocol);

type SchedFn = fn(u8, &[u8], &[Schedule]) -> Result<u64, (String, String, Schedule)>;

fn sched_families() -> Vec<(&'static str, Direction, SchedFn)> {
    use wow_login_messages::all as a;
    use wow_login_messages::version_8 as v8;
    vec![
        ("CMD_AUTH_LOGON_CHALLENGE_Client", Direction::Client, client_sched::<a::CMD_AUTH_LOGON_CHALLENGE_Client> as SchedFn),
        ("CMD_AUTH_RECONNECT_CHALLENGE_Client", Direction::Client, client_sched::<a::CMD_AUTH_RECONNECT_CHALLENGE_Client> as SchedFn),
        ("CMD_AUTH_LOGON_PROOF_Client", Direction::Client, client_sched::<v8::CMD_AUTH_LOGON_PROOF_Client> as SchedFn),
        ("CMD_AUTH_RECONNECT_PROOF_Client", Direction::Client, client_sched::<v8::CMD_AUTH_RECONNECT_PROOF_Client> as SchedFn),
        ("CMD_REALM_LIST_Client", Direction::Client, client_sched::<v8::CMD_REALM_LIST_Client> as SchedFn),
        ("CMD_XFER_ACCEPT", Direction::Client, client_sched::<v8::CMD_XFER_ACCEPT> as SchedFn),
        ("CMD_XFER_CANCEL", Direction::Client, client_sched::<v8::CMD_XFER_CANCEL> as SchedFn),
        ("CMD_XFER_RESUME", Direction::Client, client_sched::<v8::CMD_XFER_RESUME> as SchedFn),
        ("CMD_AUTH_LOGON_CHALLENGE_Server", Direction::Server, server_sched::<v8::CMD_AUTH_LOGON_CHALLENGE_Server> as SchedFn),
        ("CMD_AUTH_LOGON_PROOF_Server", Direction::Server, server_sched::<v8::CMD_AUTH_LOGON_PROOF_Server> as SchedFn),
        ("CMD_AUTH_RECONNECT_CHALLENGE_Server", Direction::Server, server_sched::<v8::CMD_AUTH_RECONNECT_CHALLENGE_Server> as SchedFn),
        ("CMD_AUTH_RECONNECT_PROOF_Server", Direction::Server, server_sched::<v8::CMD_AUTH_RECONNECT_PROOF_Server> as SchedFn),
        ("CMD_REALM_LIST_Server", Direction::Server, server_sched::<v8::CMD_REALM_LIST_Server> as SchedFn),
        ("CMD_XFER_DATA", Direction::Server, server_sched::<v8::CMD_XFER_DATA> as SchedFn),
        ("CMD_XFER_INITIATE", Direction::Server, server_sched::<v8::CMD_XFER_INITIATE> as SchedFn),
    ]
}

/// C06's share of the protocol-parameterised entry points: every family x protocol version, canonical encodings and
/// their truncations, blocking reader against the tokio / async-std readers under the caller's schedules
pub fn protocol_readers_under_schedules(corpus: &Corpus, c: &mut Check, tier: Tier, scheds_for: &dyn Fn(&[u8]) -> Vec<Schedule>) {
    for (name, dir, f) in sched_families() {
        for v in LOGIN_VERSIONS {
            let Some(e) = corpus.entries.iter().find(|e| e.ns == Ns::Login(v) && e.name == name && e.dir == dir) else { continue };
            let encf = |t: &[u8], fo: &BTreeMap<String, u32>| corpus.encode(e, t, fo);
            let mut ds = DirectedStats::default();
            let cases = directed(&encf, &[], tier.pick(60, 600), &mut ds).unwrap_or_default();
            let mut seen: BTreeSet<Vec<u8>> = BTreeSet::new();
            for case in &cases {
                let full = &case.enc.frame;
                let mut inputs: Vec<Vec<u8>> = vec![full.clone()];
                if full.len() > 1 {
                    inputs.push(full[..full.len() - 1].to_vec());
                    inputs.push(full[..full.len() / 2].to_vec());
                }
                for input in inputs {
                    if input.len() > 4096 || !seen.insert(input.clone()) {
                        continue;
                    }
                    let scheds = scheds_for(&input);
                    c.count("protocol_reader_inputs");
                    match f(v, &input, &scheds) {
                        Ok(n) => {
                            c.evals(n);
                            if n > 0 && scheds.iter().any(|s| s.chunks() >= 2 || s.pendings() >= 1) {
                                c.nontrivial(vcommon::fnv(format!("proto|{}|{}|{}|{}", name, v, case.enc.shape(), input.len() == full.len()).as_bytes()));
                            }
                        }
                        Err((k, d, sched)) => {
                            c.fail(&format!("c06:protocol:{}:v{}:{}", name, v, k), &d, json!({"kind": "protocol", "family": name, "version": v, "input": vcommon::hex(&input), "schedule": sched.steps.iter().map(|(p, l)| json!([p, l])).collect::<Vec<_>>()}));
                        }
                    }
                }
            }
        }
    }
}

/// replay of one (family, version, input, schedule) of the section above; Err = the violation text
pub fn protocol_replay(name: &str, v: u8, input: &[u8], sched: Schedule) -> Option<Result<(), String>> {
    let f = sched_families().into_iter().find(|f| f.0 == name)?.2;
    Some(match f(v, input, &[sched]) {
        Ok(_) => Ok(()),
        Err((k, d, _)) => Err(format!("{} {}", k, d)),
    })
}

pub fn run(tier: Tier, replay: Option<String>) -> i32 {
    let mut c = Check::new("C14", tier);
    let corpus = match Corpus::load() {
        Ok(c) => c,
        Err(e) => {
            eprintln!("C14: {}", e);
            return 2;
        }
    };
    let fams = families();
    // the family list is checked against the library's collective directory, so that a new family cannot be missed silently
    let fam_names: BTreeSet<String> = fams.iter().map(|f| f.0.to_lowercase()).collect();
    let dir_names: BTreeSet<String> = std::fs::read_dir(vcommon::repo_root().join("wow_login_messages/src/collective"))
        .map(|rd| rd.flatten().filter_map(|e| e.file_name().to_str().map(|s| s.to_string())).filter(|n| n.ends_with(".rs") && n != "mod.rs").map(|n| n.trim_end_matches(".rs").to_string()).collect())
        .unwrap_or_default();
    if fam_names != dir_names {
        c.inconclusive(&format!("the harness' family table {:?} does not match wow_login_messages/src/collective {:?}", fam_names, dir_names));
    }
    let login_names: BTreeSet<&str> = corpus.entries.iter().filter(|e| matches!(e.ns, Ns::Login(_))).map(|e| e.name.as_str()).collect();
    let without: Vec<&str> = login_names.iter().copied().filter(|n| !fams.iter().any(|f| f.0 == *n)).collect();
    c.extra.insert("login_messages_without_a_collective_family".into(), json!(without));
    if let Some(p) = replay {
        let j = vcommon::read_json(std::path::Path::new(&p));
        let name = j["family"].as_str().unwrap_or("");
        let v = j["version"].as_u64().unwrap_or(8) as u8;
        let frame = vcommon::unhex(j["frame"].as_str().unwrap_or(""));
        let mal: Vec<Vec<u8>> = j["malformed"].as_array().map(|a| a.iter().map(|x| vcommon::unhex(x.as_str().unwrap_or(""))).collect()).unwrap_or_default();
        let Some(f) = fams.iter().find(|f| f.0 == name) else { return 2 };
        let mut st = BTreeMap::new();
        return match (f.2)(v, &frame, &mal, &mut st) {
            Ok(()) => {
                println!("replay: holds");
                0
            }
            Err((k, d)) => {
                println!("VIOLATION property=C14 replay={}", p);
                println!("  sig=c14:{}:v{}:{} {}", name, v, k, d);
                1
            }
        };
    }
    c.rule = "for each of the 15 message families and each protocol version 2,3,5,6,7,8 that the wowm sources define the message for: canonical encodings of that version's message (directed enumeration + proptest tapes) and corruptions of them; oracle: to_version_v(from_version_v(x)) == x for the value x of the version's own codec, expect_*_message_protocol gives the lifted value, write_protocol gives the bytes of the version's own write, tokio/async-std protocol readers and writers agree under whole and byte-by-byte delivery, malformed input fails identically on both paths (where the version's own codec accepts a corrupted input - undeclared flag bits - whether lift/lower keeps it is counted, not judged: outside the canonical domain). Non-trivial = encoding with a non-default decision or non-zero byte; distinct = (family, version, control shape).".into();
    c.assume("the version's own codec is judged by C01; here it is the reference for the protocol-parameterised API");
    let seed = c.seed;
    let forced = BTreeMap::new();
    let mut stats: BTreeMap<String, u64> = BTreeMap::new();
    for (name, dir, f) in &fams {
        for v in LOGIN_VERSIONS {
            let Some(e) = corpus.entries.iter().find(|e| e.ns == Ns::Login(v) && e.name == *name && e.dir == *dir) else {
                c.count("family_version_without_definition");
                continue;
            };
            let label = format!("{}:v{}", name, v);
            let mut judge = |c: &mut Check, enc: &Encoded, tape: &[u8], forced: &BTreeMap<String, u32>| -> bool {
                let mut done = BTreeSet::new();
                // value corruptions first (they are the ones a reader may accept), truncations after them
                let (tr, other): (Vec<_>, Vec<_>) = crate::c03::corruptions(e, enc, &mut done).into_iter().partition(|x| x.kind.starts_with("truncate") || x.kind.starts_with("string-long"));
                let mal: Vec<Vec<u8>> = other.into_iter().chain(tr).map(|x| x.frame).take(60).collect();
                c.eval();
                if enc.nontrivial() {
                    c.nontrivial(enc.shape() ^ vcommon::fnv(label.as_bytes()));
                }
                match f(v, &enc.frame, &mal, &mut stats) {
                    Ok(()) => {
                        if c.samples.len() < 8 && enc.nontrivial() && c.evaluations % 97 == 3 {
                            c.sample(json!({"family": name, "version": v, "frame": vcommon::hex_short(&enc.frame)}));
                        }
                        true
                    }
                    Err((k, d)) => {
                        c.fail(&format!("c14:{}:{}", label, k), &d, json!({"family": name, "version": v, "frame": vcommon::hex(&enc.frame), "malformed": mal.iter().map(|m| vcommon::hex(m)).collect::<Vec<_>>(), "tape": vcommon::hex(tape), "forced": forced_json(forced)}));
                        false
                    }
                }
            };
            let encf = |t: &[u8], fo: &BTreeMap<String, u32>| corpus.encode(e, t, fo);
            let mut ds = DirectedStats::default();
            let cases = directed(&encf, &[], tier.pick(400, 4000), &mut ds).unwrap_or_default();
            for case in &cases {
                judge(&mut c, &case.enc, &case.tape, &case.forced);
            }
            let strat = tape_strategy(96);
            let cc = std::cell::RefCell::new((&mut c, &mut judge));
            let _ = vcommon::prop_search(seed, vcommon::fnv(label.as_bytes()), tier.pick(300, 10_000), &strat, |tape, counting| {
                if !counting {
                    return Ok(());
                }
                if let Ok(enc) = corpus.encode(e, tape, &forced) {
                    let mut g = cc.borrow_mut();
                    let (c, j) = &mut *g;
                    j(c, &enc, tape, &forced);
                }
                Ok(())
            });
        }
    }
    for (k, v) in stats {
        c.count_n(&k, v);
    }
    c.finish()
}
