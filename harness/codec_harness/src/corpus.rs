//! The corpus as the checks see it: universe, entries, endpoints.
use crate::endpoints::{self, Ep};
use wowm_model::frame::{entries, Entry};
use wowm_model::resolve::Universe;

pub struct Corpus {
    pub u: Universe,
    pub entries: Vec<Entry>,
    pub eps: Vec<Box<dyn Ep>>,
    pub known: vcommon::KnownFindings,
    /// known findings excluded by construction (tokens `avoid=...` of known_findings.txt)
    pub avoid_flag_bits: std::collections::BTreeMap<(wowm_model::resolve::Ns, String), i128>,
    pub skip_write: std::collections::BTreeSet<String>,
    pub skip_entry: std::collections::BTreeSet<String>,
    /// entries re-run without the exclusions to confirm that a listed finding still reproduces
    pub probes: Vec<String>,
    /// set in probe runs: no exclusions
    pub no_avoid: bool,
}

impl Corpus {
    pub fn load() -> Result<Corpus, String> {
        let u = wowm_model::load_corpus(&vcommon::repo_root())?;
        if !u.problems.is_empty() {
            return Err(format!("model could not resolve the corpus: {}", u.problems.join("; ")));
        }
        let entries = entries(&u);
        let known = vcommon::KnownFindings::load();
        let mut c = Corpus { u, entries, eps: endpoints::all(), known, avoid_flag_bits: Default::default(), skip_write: Default::default(), skip_entry: Default::default(), probes: vec![], no_avoid: false };
        let findings = c.known.findings.clone();
        for f in &findings {
            for tok in f.text.split_whitespace() {
                if let Some(a) = tok.strip_prefix("avoid=flagbits:") {
                    let p: Vec<&str> = a.split(':').collect();
                    if p.len() == 3 {
                        if let (Some(ns), Ok(mask)) = (wowm_model::resolve::Ns::all().into_iter().find(|n| n.text() == p[0]), i128::from_str_radix(p[2].trim_start_matches("0x"), 16)) {
                            *c.avoid_flag_bits.entry((ns, p[1].to_string())).or_insert(0) |= mask;
                        }
                    }
                } else if tok == "avoid=elseif-const-flag-chains" {
                    // every flag `else if` chain whose branches all have a constant size
                    for ns in wowm_model::resolve::Ns::all() {
                        for (definer, mask) in const_elseif_flag_chains(&c.u, ns) {
                            *c.avoid_flag_bits.entry((ns, definer)).or_insert(0) |= mask;
                        }
                    }
                } else if let Some(a) = tok.strip_prefix("avoid=write:") {
                    c.skip_write.insert(a.to_string());
                } else if let Some(a) = tok.strip_prefix("avoid=entry:") {
                    c.skip_entry.insert(a.to_string());
                } else if let Some(a) = tok.strip_prefix("probe=") {
                    if !c.probes.contains(&a.to_string()) {
                        c.probes.push(a.to_string());
                    }
                }
            }
        }
        Ok(c)
    }
    pub fn limits(&self, ns: wowm_model::resolve::Ns) -> wowm_model::walk::Limits {
        let mut l = wowm_model::walk::Limits::standard();
        if !self.no_avoid {
            for ((n, d), m) in &self.avoid_flag_bits {
                if *n == ns {
                    l.avoid_flag_bits.insert(d.clone(), *m);
                }
            }
        }
        l
    }
    pub fn encode(&self, e: &Entry, tape: &[u8], forced: &std::collections::BTreeMap<String, u32>) -> Result<wowm_model::frame::Encoded, wowm_model::frame::EncodeError> {
        wowm_model::frame::encode_with(&self.u, e, tape, forced, Some(self.limits(e.ns)))
    }
    pub fn writes_skipped(&self, e: &Entry) -> bool {
        !self.no_avoid && self.skip_write.contains(&e.label())
    }
    pub fn ep(&self, e: &Entry) -> &dyn Ep {
        endpoints::find(&self.eps, e.ns, e.dir).expect("endpoint")
    }
    pub fn entry(&self, label: &str) -> Option<&Entry> {
        self.entries.iter().find(|e| e.label() == label)
    }
}

/// (definer name, bits of the chain's enumerators) of every flag `else if` chain with constant-sized branches
pub fn const_elseif_flag_chains(u: &Universe, ns: wowm_model::resolve::Ns) -> Vec<(String, i128)> {
    use wowm_model::ast::*;
    fn visit(u: &Universe, ns: wowm_model::resolve::Ns, c: &Container, members: &[Member], sizer: &mut wowm_model::sizes::Sizer, out: &mut Vec<(String, i128)>) {
        for m in members {
            match m {
                Member::If(ifs) => {
                    if !ifs.else_ifs.is_empty() && ifs.first.conds[0].op == CondOp::And {
                        let all_const = ifs.branches().all(|b| sizer.body_interval(c, &b.body).is_constant() && !b.body.iter().any(|m| matches!(m, Member::If(_))));
                        if all_const {
                            // the definer of the variable
                            fn find<'a>(ms: &'a [Member], n: &str) -> Option<&'a Field> {
                                for m in ms {
                                    match m {
                                        Member::Field(f) if f.name == n => return Some(f),
                                        Member::If(i) => {
                                            for b in i.branches() {
                                                if let Some(f) = find(&b.body, n) {
                                                    return Some(f);
                                                }
                                            }
                                            if let Some(e) = &i.else_body {
                                                if let Some(f) = find(e, n) {
                                                    return Some(f);
                                                }
                                            }
                                        }
                                        Member::Optional(o) => {
                                            if let Some(f) = find(&o.body, n) {
                                                return Some(f);
                                            }
                                        }
                                        _ => {}
                                    }
                                }
                                None
                            }
                            if let Some(TypeRef::Simple { name, .. }) = find(&c.members, ifs.var()).map(|f| &f.ty) {
                                if let Some(d) = u.lookup(ns, name).and_then(|o| o.definer()) {
                                    let mut mask = 0i128;
                                    for b in ifs.branches() {
                                        for cnd in &b.conds {
                                            if let Some(v) = d.members.iter().find(|m| m.name == cnd.value).and_then(|m| wowm_model::parser::parse_int(&m.value_text)) {
                                                mask |= v;
                                            }
                                        }
                                    }
                                    out.push((d.name.clone(), mask));
                                }
                            }
                        }
                    }
                    for b in ifs.branches() {
                        visit(u, ns, c, &b.body, sizer, out);
                    }
                    if let Some(e) = &ifs.else_body {
                        visit(u, ns, c, e, sizer, out);
                    }
                }
                Member::Optional(o) => visit(u, ns, c, &o.body, sizer, out),
                _ => {}
            }
        }
    }
    let mut out = Vec::new();
    let mut sizer = wowm_model::sizes::Sizer::new(u, ns);
    for i in u.objects_in(ns) {
        if let Some(c) = u.objects[i].container() {
            visit(u, ns, c, &c.members, &mut sizer, &mut out);
        }
    }
    out
}


impl Corpus {
    /// frames of messages that consist of a u32 count and an array of that many fixed-size integers, with bodies of
    /// (about) the requested sizes: the only way to reach bodies above 64 KiB (3-byte Wrath header with bits 16..22 used)
    pub fn counted_array_frames(&self, ns: wowm_model::resolve::Ns, dir: wowm_model::frame::Direction, body_sizes: &[usize]) -> Vec<(String, Vec<u8>)> {
        use wowm_model::ast::{ArraySize, Member, TypeRef};
        let mut out = Vec::new();
        for e in self.entries.iter().filter(|e| e.ns == ns && e.dir == dir) {
            let Some(c) = self.u.objects[e.obj].container() else { continue };
            if self.u.objects[e.obj].tags.is_true("compressed") || c.members.len() != 2 {
                continue;
            }
            let (Member::Field(a), Member::Field(b)) = (&c.members[0], &c.members[1]) else { continue };
            let TypeRef::Simple { name: cty, upcast: None } = &a.ty else { continue };
            if cty != "u32" || a.value.is_some() {
                continue;
            }
            let TypeRef::Array { inner, size: ArraySize::Variable(v) } = &b.ty else { continue };
            if *v != a.name || b.tags.is_true("compressed") {
                continue;
            }
            let w = match inner.as_str() {
                "u8" => 1,
                "u16" => 2,
                "u32" => 4,
                "u64" => 8,
                _ => continue,
            };
            for bs in body_sizes {
                let n = bs.saturating_sub(4) / w;
                let mut body = (n as u32).to_le_bytes().to_vec();
                body.extend(std::iter::repeat(0x11u8).take(n * w));
                if let Some(mut h) = wowm_model::frame::header(e, body.len()) {
                    h.extend_from_slice(&body);
                    out.push((e.name.clone(), h));
                }
            }
            break;
        }
        out
    }
}
