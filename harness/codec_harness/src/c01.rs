//! C01: every message decodes from and re-encodes to the bytes its wowm definition says.
use crate::corpus::Corpus;
use crate::gen::*;
use crate::oracle::*;

use serde_json::{json, Value};
use std::collections::{BTreeMap, BTreeSet};
use vcommon::{Check, KnownFindings, Tier};
use wowm_model::frame::*;

pub struct EntryReport {
    pub label: String,
    pub evals: u64,
    pub distinct: BTreeSet<u64>,
    pub classes: BTreeMap<String, u64>,
    pub fails: Vec<(String, String, Value)>,
    pub known_hits: BTreeMap<String, u64>,
    pub samples: Vec<Value>,
    pub vs: ValueStats,
    pub problem: Option<String>,
    pub dstats: DirectedStats,
}

impl EntryReport {
    pub fn new(label: String) -> Self {
        EntryReport { label, evals: 0, distinct: BTreeSet::new(), classes: BTreeMap::new(), fails: vec![], known_hits: BTreeMap::new(), samples: vec![], vs: ValueStats::default(), problem: None, dstats: DirectedStats::default() }
    }
    pub fn count(&mut self, k: &str) {
        *self.classes.entry(k.to_string()).or_insert(0) += 1;
    }
    pub fn to_json(&self) -> Value {
        json!({
            "label": self.label, "evals": self.evals, "distinct": self.distinct.iter().map(|d| format!("{:x}", d)).collect::<Vec<_>>(),
            "classes": self.classes, "fails": self.fails.iter().map(|(a, b, c)| json!([a, b, c])).collect::<Vec<_>>(),
            "known_hits": self.known_hits, "samples": self.samples,
            "vs": [self.vs.checked, self.vs.unlocated, self.vs.skipped_kinds], "problem": self.problem,
            "dstats": [self.dstats.sites, self.dstats.runs, self.dstats.not_canonical, self.dstats.truncated as usize],
        })
    }
    pub fn from_json(v: &Value) -> EntryReport {
        let mut r = EntryReport::new(v["label"].as_str().unwrap_or("").to_string());
        r.evals = v["evals"].as_u64().unwrap_or(0);
        r.distinct = v["distinct"].as_array().map(|a| a.iter().filter_map(|x| u64::from_str_radix(x.as_str()?, 16).ok()).collect()).unwrap_or_default();
        r.classes = v["classes"].as_object().map(|o| o.iter().map(|(k, v)| (k.clone(), v.as_u64().unwrap_or(0))).collect()).unwrap_or_default();
        r.fails = v["fails"].as_array().map(|a| a.iter().map(|x| (x[0].as_str().unwrap_or("").to_string(), x[1].as_str().unwrap_or("").to_string(), x[2].clone())).collect()).unwrap_or_default();
        r.known_hits = v["known_hits"].as_object().map(|o| o.iter().map(|(k, v)| (k.clone(), v.as_u64().unwrap_or(0))).collect()).unwrap_or_default();
        r.samples = v["samples"].as_array().cloned().unwrap_or_default();
        r.vs = ValueStats { checked: v["vs"][0].as_u64().unwrap_or(0) as u32, unlocated: v["vs"][1].as_u64().unwrap_or(0) as u32, skipped_kinds: v["vs"][2].as_u64().unwrap_or(0) as u32 };
        r.problem = v["problem"].as_str().map(|s| s.to_string());
        r.dstats = DirectedStats { sites: v["dstats"][0].as_u64().unwrap_or(0) as usize, runs: v["dstats"][1].as_u64().unwrap_or(0) as usize, not_canonical: v["dstats"][2].as_u64().unwrap_or(0) as usize, truncated: v["dstats"][3].as_u64().unwrap_or(0) != 0 };
        r
    }
}

pub fn case_json(e: &Entry, c: &Case) -> Value {
    json!({"entry": e.label(), "tape": vcommon::hex(&c.tape), "forced": forced_json(&c.forced), "frame": vcommon::hex_short(&c.enc.frame), "frame_len": c.enc.frame.len()})
}

/// which of the two signature granularities is listed as a known finding
pub fn known_sig(k: &KnownFindings, prop: &str, prefix: &str, label: &str, kind: &str) -> Option<String> {
    // full kind first, then the kind cut at its first ':' (e.g. any `write-failed` of one entry)
    let short = kind.split(':').next().unwrap_or(kind);
    for kd in [kind, short] {
        let a = format!("{}:{}:{}", prefix, label, kd);
        if k.has(prop, &a) {
            return Some(a);
        }
    }
    let b = format!("{}:*:{}", prefix, kind);
    if k.has(prop, &b) {
        return Some(b);
    }
    None
}

fn classes_of(enc: &Encoded, r: &mut EntryReport) {
    for (k, v) in &enc.features {
        if *v > 0 {
            r.count(k);
        }
    }
    if enc.frame.len() > 1024 {
        r.count("frame>1KiB");
    }
}

fn process_entry(c: &Corpus, e: &Entry, tier: Tier, seed: u64, known: &KnownFindings, probe: bool) -> EntryReport {
    let mut r = EntryReport::new(if probe { format!("probe:{}", e.label()) } else { e.label() });
    let ep = c.ep(e);
    let skip_write = c.writes_skipped(e);
    if skip_write {
        r.count("excluded_known_finding_write_skipped");
    }
    let encf = |t: &[u8], f: &BTreeMap<String, u32>| c.encode(e, t, f);
    let max_runs = tier.pick(600, 6000);
    let mut seed_tapes: Vec<Vec<u8>> = vec![vec![]];
    let n_extra = if probe { 0 } else { tier.pick(1, 4) };
    for k in 0..n_extra {
        let s = vcommon::mix(seed, vcommon::fnv(e.label().as_bytes()) ^ (k as u64 + 1));
        seed_tapes.push((0..512u64).map(|i| (vcommon::mix(s, i) >> 24) as u8).collect());
    }
    let mut failed_kinds: BTreeSet<String> = BTreeSet::new();
    for st in &seed_tapes {
        let cases = match directed(&encf, st, max_runs, &mut r.dstats) {
            Ok(cs) => cs,
            Err(p) => {
                r.problem = Some(p);
                return r;
            }
        };
        for case in cases {
            r.evals += 1;
            classes_of(&case.enc, &mut r);
            if case.enc.nontrivial() {
                r.distinct.insert(case.enc.shape() ^ vcommon::fnv(e.label().as_bytes()));
            }
            crate::iso::trace_case(&|| case_json(e, &case));
            match judge_roundtrip(&c.u, ep, e, &case.enc, &mut r.vs, skip_write) {
                Ok(()) => {
                    if r.samples.is_empty() && case.enc.nontrivial() && !case.forced.is_empty() {
                        r.samples.push(case_json(e, &case));
                    }
                }
                Err(f) => {
                    if let Some(s) = known_sig(known, "C01", "c01", &e.label(), &f.kind) {
                        *r.known_hits.entry(s).or_insert(0) += 1;
                    } else if failed_kinds.insert(f.kind.clone()) {
                        let mut j = case_json(e, &case);
                        j["detail"] = json!(f.detail);
                        r.fails.push((format!("c01:{}:{}", e.label(), f.kind), f.detail.clone(), j));
                    }
                }
            }
        }
    }
    if probe {
        return r;
    }
    // proptest tapes
    let cases = tier.pick(40u32, 1500);
    let forced = BTreeMap::new();
    let strat = tape_strategy(tier.pick(96, 256));
    let rc = std::cell::RefCell::new(&mut r);
    let salt = vcommon::fnv(e.label().as_bytes());
    let fail = vcommon::prop_search(seed, salt, cases, &strat, |tape, counting| {
        let enc = match c.encode(e, tape, &forced) {
            Ok(enc) => enc,
            Err(EncodeError::NotCanonical(_)) => {
                if counting {
                    rc.borrow_mut().count("not_canonical_discarded");
                }
                return Ok(());
            }
            Err(EncodeError::Problem(p)) => return Err(format!("problem|{}", p)),
        };
        let mut vs = ValueStats::default();
        crate::iso::trace_case(&|| json!({"entry": e.label(), "tape": vcommon::hex(tape), "forced": {}, "frame": vcommon::hex_short(&enc.frame)}));
        let res = judge_roundtrip(&c.u, ep, e, &enc, &mut vs, skip_write);
        if counting {
            let mut r = rc.borrow_mut();
            r.evals += 1;
            classes_of(&enc, &mut r);
            r.vs.checked += vs.checked;
            r.vs.unlocated += vs.unlocated;
            r.vs.skipped_kinds += vs.skipped_kinds;
            if enc.nontrivial() {
                r.distinct.insert(enc.shape() ^ salt);
            }
        }
        match res {
            Ok(()) => Ok(()),
            Err(f) => {
                if let Some(s) = known_sig(known, "C01", "c01", &e.label(), &f.kind) {
                    if counting {
                        *rc.borrow_mut().known_hits.entry(s).or_insert(0) += 1;
                    }
                    return Ok(());
                }
                if failed_kinds.contains(&f.kind) {
                    // already reported from the directed phase
                    return Ok(());
                }
                Err(format!("{}|{}", f.kind, f.detail))
            }
        }
    });
    if let Some((tape, msg)) = fail {
        let (kind, detail) = msg.split_once('|').unwrap_or((&msg, ""));
        let enc = c.encode(e, &tape, &forced).ok();
        let j = json!({"entry": e.label(), "tape": vcommon::hex(&tape), "forced": {}, "frame": enc.as_ref().map(|x| vcommon::hex_short(&x.frame)), "detail": detail});
        r.fails.push((format!("c01:{}:{}", e.label(), kind), detail.to_string(), j));
    }
    r
}

pub fn replay_case(c: &Corpus, j: &Value) -> Option<(Entry, Case)> {
    let label = j["entry"].as_str()?;
    let e = c.entry(label)?.clone();
    let tape = vcommon::unhex(j["tape"].as_str().unwrap_or(""));
    let forced = forced_from_json(&j["forced"]);
    let enc = c.encode(&e, &tape, &forced).ok()?;
    Some((e, Case { enc, tape, forced }))
}

pub fn merge(c: &mut Check, reports: Vec<EntryReport>, max_samples: usize) {
    let mut problems = Vec::new();
    let (mut checked, mut unlocated, mut skipped) = (0u64, 0u64, 0u64);
    let (mut sites, mut runs, mut truncated, mut nc) = (0usize, 0usize, 0usize, 0usize);
    let n = reports.len().max(1);
    for (i, r) in reports.into_iter().enumerate() {
        c.evals(r.evals);
        for d in &r.distinct {
            c.nontrivial(*d);
        }
        for (k, v) in &r.classes {
            c.count_n(k, *v);
        }
        for (s, n) in &r.known_hits {
            for _ in 0..(*n).min(1) {
                c.fail(s, "", Value::Null);
            }
            c.count_n(&format!("known:{}", s), n.saturating_sub(1));
        }
        for (sig, what, j) in r.fails {
            c.fail(&sig, &what, j);
        }
        // samples spread over the entries
        if c.samples.len() < max_samples && i % (n / max_samples.max(1)).max(1) == 0 {
            for s in r.samples {
                c.sample(s);
            }
        }
        checked += r.vs.checked as u64;
        unlocated += r.vs.unlocated as u64;
        skipped += r.vs.skipped_kinds as u64;
        sites += r.dstats.sites;
        runs += r.dstats.runs;
        nc += r.dstats.not_canonical;
        truncated += r.dstats.truncated as usize;
        if let Some(p) = r.problem {
            problems.push(format!("{}: {}", r.label, p));
        }
    }
    c.extra.insert("value_leaves_checked".into(), json!(checked));
    c.extra.insert("value_leaves_unlocated".into(), json!(unlocated));
    c.extra.insert("value_leaves_of_unchecked_kinds".into(), json!(skipped));
    c.extra.insert("directed_sites".into(), json!(sites));
    c.extra.insert("directed_runs".into(), json!(runs));
    c.extra.insert("directed_not_canonical_discarded".into(), json!(nc));
    c.extra.insert("entries_with_truncated_directed_enumeration".into(), json!(truncated));
    c.extra.insert("entries_the_model_cannot_encode".into(), json!(problems));
}

/// deaths of isolated workers: timeouts are inconclusive, everything else is a failed case
pub fn report_deaths(c: &mut Check, prefix: &str, deaths: &[crate::iso::Death]) {
    for d in deaths {
        if d.reason == "timeout" {
            c.inconclusive(&format!("worker watchdog expired while processing {}", d.label));
            continue;
        }
        let kind = format!("abort:{}", d.reason);
        let sig = match known_sig(&c.known, &c.id.clone(), prefix, &d.label, &kind) {
            Some(s) => s,
            None => format!("{}:{}:{}", prefix, d.label, kind),
        };
        let mut j = d.case.clone().unwrap_or_else(|| json!({"entry": d.label}));
        j["stderr_tail"] = json!(d.stderr_tail);
        c.fail(&sig, &format!("worker process died ({}) while processing {}: {}", d.reason, d.label, d.stderr_tail.lines().last().unwrap_or("")), j);
    }
}

pub fn worker(tier: Tier) -> i32 {
    let mut corpus = match Corpus::load() {
        Ok(c) => c,
        Err(e) => {
            eprintln!("C01 worker: {}", e);
            return 2;
        }
    };
    let seed = vcommon::env_seed();
    let known = KnownFindings::load();
    // a worker given probe labels runs without the exclusions of known findings
    let probe_mode = std::env::var("VERIF_PROBE").is_ok();
    corpus.no_avoid = probe_mode;
    crate::iso::worker_loop(move |label| match corpus.entry(label) {
        Some(e) => process_entry(&corpus, e, tier, seed, &known, probe_mode).to_json(),
        None => EntryReport::new(label.to_string()).to_json(),
    })
}

pub fn run(tier: Tier, replay: Option<String>) -> i32 {
    let mut c = Check::new("C01", tier);
    let corpus = match Corpus::load() {
        Ok(c) => c,
        Err(e) => {
            eprintln!("C01: {}", e);
            return 2;
        }
    };
    if let Some(p) = replay {
        let j = vcommon::read_json(std::path::Path::new(&p));
        let Some((e, case)) = replay_case(&corpus, &j) else {
            eprintln!("cannot rebuild the case of {}", p);
            return 2;
        };
        let mut vs = ValueStats::default();
        println!("entry {} frame {}", e.label(), vcommon::hex_short(&case.enc.frame));
        let o = corpus.ep(&e).read_one(&case.enc.frame);
        println!("library: {}", o.short());
        if let crate::outcome::Outcome::Ok { rewritten: Ok(rw), .. } = &o {
            println!("rewritten: {}", vcommon::hex_short(rw));
            println!("library on rewritten: {}", corpus.ep(&e).read_one(rw).short());
        }
        return match judge_roundtrip(&corpus.u, corpus.ep(&e), &e, &case.enc, &mut vs, false) {
            Ok(()) => {
                println!("replay: holds");
                0
            }
            Err(f) => {
                println!("VIOLATION property=C01 replay={}", p);
                println!("  sig=c01:{}:{} {}", e.label(), f.kind, f.detail);
                1
            }
        };
    }
    c.rule = "for every (message, expansion | login version, direction) the model derives from the wowm sources: directed enumeration of every alternative of every decision site any explored encoding reveals (each enumerator, flag none/each single/all, optional absent/present, array counts 0/1/2/3/cap, string lengths 0/1/short/max, integer classes 0/1/random/max/sign bit, guid and mask shapes) over a zero tape and seeded tapes, then proptest tapes; oracle = public reader accepts, consumes exactly the frame, public writer reproduces the bytes (compressed: same members and payload, second cycle a fixed point), decoded field values equal what the model wrote. Non-trivial = some control decision non-default or some body byte non-zero; distinct = (entry, control decisions, array/string length classes).".into();
    c.assume("the independent wowm model (harness/model) is the reference for canonical encodings; it reproduces all test vectors of the corpus");
    c.assume("canonical domain as in DESIGN.md 1.10: Bool 0/1, Level16/32 <= 255, CString <= 255 bytes UTF-8, no NaN floats, packed spline components multiples of 4 quarter-units, UpdateMask carrying a valid TYPE field");
    let only = std::env::var("VERIF_ONLY").ok();
    let labels: Vec<String> = corpus.entries.iter().map(|e| e.label()).filter(|l| only.as_ref().map(|o| l.contains(o.as_str())).unwrap_or(true)).collect();
    let labels: Vec<String> = labels.into_iter().filter(|l| !corpus.skip_entry.contains(l)).collect();
    let sup = crate::iso::supervise("C01", tier.as_str(), labels, 16, 24, std::time::Duration::from_secs(tier.pick(180, 1800)), vec![]);
    let mut reports: Vec<EntryReport> = sup.reports.iter().map(EntryReport::from_json).collect();
    report_deaths(&mut c, "c01", &sup.deaths);
    // probes: listed findings are excluded by construction above; confirm that each still reproduces
    if only.is_none() && !corpus.probes.is_empty() {
        let psup = crate::iso::supervise("C01", tier.as_str(), corpus.probes.clone(), 4, 1, std::time::Duration::from_secs(300), vec![("VERIF_PROBE".into(), "1".into())]);
        let preports: Vec<EntryReport> = psup.reports.iter().map(EntryReport::from_json).collect();
        report_deaths(&mut c, "c01", &psup.deaths);
        let reproduced: u64 = preports.iter().map(|r| r.known_hits.values().sum::<u64>()).sum::<u64>() + psup.deaths.len() as u64;
        c.extra.insert("known_finding_probe_cases_reproducing".into(), json!(reproduced));
        for r in &preports {
            if r.known_hits.is_empty() && r.fails.is_empty() {
                eprintln!("[C01] note: probe {} no longer reproduces a listed finding", r.label);
            }
        }
        c.extra.insert("known_finding_probes".into(), json!(corpus.probes));
        let excluded: u64 = reports.iter().map(|r| r.classes.get("excluded_known_finding_flag_bits").copied().unwrap_or(0) + r.classes.get("excluded_known_finding_write_skipped").copied().unwrap_or(0)).sum();
        c.extra.insert("cases_altered_to_exclude_known_findings".into(), json!(excluded));
        reports.extend(preports);
    }
    c.extra.insert("entries".into(), json!(corpus.entries.len()));
    merge(&mut c, reports, 10);
    c.finish()
}
