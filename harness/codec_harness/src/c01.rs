//! C01: every message decodes from and re-encodes to the bytes its wowm definition says.
use crate::corpus::Corpus;
use crate::gen::*;
use crate::suite::*;
use crate::oracle::*;

use serde_json::{json, Value};
use std::collections::{BTreeMap, BTreeSet};
use vcommon::{Check, KnownFindings, Tier};
use wowm_model::frame::*;

fn process_entry(c: &Corpus, e: &Entry, tier: Tier, seed: u64, known: &KnownFindings, probe: bool) -> EntryReport {
    let mut r = EntryReport::new(if probe { format!("probe:{}", e.label()) } else { e.label() });
    let ep = c.ep(e);
    let skip_write = c.writes_skipped(e);
    if skip_write {
        r.count("excluded_known_finding_write_skipped");
    }
    let encf = |t: &[u8], f: &BTreeMap<String, u32>| c.encode(e, t, f);
    let max_runs = tier.pick(600, 6000);
    let mut seed_tapes: Vec<Vec<u8>> = vec![vec![]];
    let n_extra = if probe { 0 } else { tier.pick(1, 4) };
    for k in 0..n_extra {
        let s = vcommon::mix(seed, vcommon::fnv(e.label().as_bytes()) ^ (k as u64 + 1));
        seed_tapes.push((0..512u64).map(|i| (vcommon::mix(s, i) >> 24) as u8).collect());
    }
    let mut failed_kinds: BTreeSet<String> = BTreeSet::new();
    for st in &seed_tapes {
        let cases = match directed(&encf, st, max_runs, &mut r.dstats) {
            Ok(cs) => cs,
            Err(p) => {
                r.problem = Some(p);
                return r;
            }
        };
        for case in cases {
            r.evals += 1;
            classes_of(&case.enc, &mut r);
            if case.enc.nontrivial() {
                r.distinct.insert(case.enc.shape() ^ vcommon::fnv(e.label().as_bytes()));
            }
            crate::iso::trace_case(&|| case_json(e, &case));
            match judge_roundtrip(&c.u, ep, e, &case.enc, &mut r.vs, skip_write) {
                Ok(()) => {
                    if r.samples.is_empty() && case.enc.nontrivial() && !case.forced.is_empty() {
                        r.samples.push(case_json(e, &case));
                    }
                }
                Err(f) => {
                    if let Some(s) = known_sig(known, "C01", "c01", &e.label(), &f.kind) {
                        *r.known_hits.entry(s).or_insert(0) += 1;
                    } else if failed_kinds.insert(f.kind.clone()) {
                        let mut j = case_json(e, &case);
                        j["detail"] = json!(f.detail);
                        r.fails.push((format!("c01:{}:{}", e.label(), f.kind), f.detail.clone(), j));
                    }
                }
            }
        }
    }
    if probe {
        return r;
    }
    // proptest tapes
    let cases = tier.pick(40u32, 1500);
    let forced = BTreeMap::new();
    let strat = tape_strategy(tier.pick(96, 256));
    let rc = std::cell::RefCell::new(&mut r);
    let salt = vcommon::fnv(e.label().as_bytes());
    let fail = vcommon::prop_search(seed, salt, cases, &strat, |tape, counting| {
        let enc = match c.encode(e, tape, &forced) {
            Ok(enc) => enc,
            Err(EncodeError::NotCanonical(_)) => {
                if counting {
                    rc.borrow_mut().count("not_canonical_discarded");
                }
                return Ok(());
            }
            Err(EncodeError::Problem(p)) => return Err(format!("problem|{}", p)),
        };
        let mut vs = ValueStats::default();
        crate::iso::trace_case(&|| json!({"entry": e.label(), "tape": vcommon::hex(tape), "forced": {}, "frame": vcommon::hex_short(&enc.frame)}));
        let res = judge_roundtrip(&c.u, ep, e, &enc, &mut vs, skip_write);
        if counting {
            let mut r = rc.borrow_mut();
            r.evals += 1;
            classes_of(&enc, &mut r);
            r.vs.checked += vs.checked;
            r.vs.unlocated += vs.unlocated;
            r.vs.skipped_kinds += vs.skipped_kinds;
            if enc.nontrivial() {
                r.distinct.insert(enc.shape() ^ salt);
            }
        }
        match res {
            Ok(()) => Ok(()),
            Err(f) => {
                if let Some(s) = known_sig(known, "C01", "c01", &e.label(), &f.kind) {
                    if counting {
                        *rc.borrow_mut().known_hits.entry(s).or_insert(0) += 1;
                    }
                    return Ok(());
                }
                if failed_kinds.contains(&f.kind) {
                    // already reported from the directed phase
                    return Ok(());
                }
                Err(format!("{}|{}", f.kind, f.detail))
            }
        }
    });
    if let Some((tape, msg)) = fail {
        let (kind, detail) = msg.split_once('|').unwrap_or((&msg, ""));
        let enc = c.encode(e, &tape, &forced).ok();
        let j = json!({"entry": e.label(), "tape": vcommon::hex(&tape), "forced": {}, "frame": enc.as_ref().map(|x| vcommon::hex_short(&x.frame)), "detail": detail});
        r.fails.push((format!("c01:{}:{}", e.label(), kind), detail.to_string(), j));
    }
    r
}

pub fn replay_case(c: &Corpus, j: &Value) -> Option<(Entry, Case)> {
    let label = j["entry"].as_str()?;
    let e = c.entry(label)?.clone();
    let tape = vcommon::unhex(j["tape"].as_str().unwrap_or(""));
    let forced = forced_from_json(&j["forced"]);
    let enc = c.encode(&e, &tape, &forced).ok()?;
    Some((e, Case { enc, tape, forced }))
}

pub fn worker(tier: Tier) -> i32 {
    let mut corpus = match Corpus::load() {
        Ok(c) => c,
        Err(e) => {
            eprintln!("C01 worker: {}", e);
            return 2;
        }
    };
    let seed = vcommon::env_seed();
    let known = KnownFindings::load();
    // a worker given probe labels runs without the exclusions of known findings
    let probe_mode = std::env::var("VERIF_PROBE").is_ok();
    corpus.no_avoid = probe_mode;
    crate::iso::worker_loop(move |label| match corpus.entry(label) {
        Some(e) => process_entry(&corpus, e, tier, seed, &known, probe_mode).to_json(),
        None => EntryReport::new(label.to_string()).to_json(),
    })
}

pub fn run(tier: Tier, replay: Option<String>) -> i32 {
    let mut c = Check::new("C01", tier);
    let corpus = match Corpus::load() {
        Ok(c) => c,
        Err(e) => {
            eprintln!("C01: {}", e);
            return 2;
        }
    };
    if let Some(p) = replay {
        let j = vcommon::read_json(std::path::Path::new(&p));
        let Some((e, case)) = replay_case(&corpus, &j) else {
            eprintln!("cannot rebuild the case of {}", p);
            return 2;
        };
        let mut vs = ValueStats::default();
        println!("entry {} frame {}", e.label(), vcommon::hex_short(&case.enc.frame));
        let o = corpus.ep(&e).read_one(&case.enc.frame);
        println!("library: {}", o.short());
        if let crate::outcome::Outcome::Ok { rewritten: Ok(rw), .. } = &o {
            println!("rewritten: {}", vcommon::hex_short(rw));
            println!("library on rewritten: {}", corpus.ep(&e).read_one(rw).short());
        }
        return match judge_roundtrip(&corpus.u, corpus.ep(&e), &e, &case.enc, &mut vs, false) {
            Ok(()) => {
                println!("replay: holds");
                0
            }
            Err(f) => {
                println!("VIOLATION property=C01 replay={}", p);
                println!("  sig=c01:{}:{} {}", e.label(), f.kind, f.detail);
                1
            }
        };
    }
    c.rule = "for every (message, expansion | login version, direction) the model derives from the wowm sources: directed enumeration of every alternative of every decision site any explored encoding reveals (each enumerator, flag none/each single/all, optional absent/present, array counts 0/1/2/3/cap, string lengths 0/1/short/max, integer classes 0/1/random/max/sign bit, guid and mask shapes) over a zero tape and seeded tapes, then proptest tapes; oracle = public reader accepts, consumes exactly the frame, public writer reproduces the bytes (compressed: same members and payload, second cycle a fixed point), decoded field values equal what the model wrote. Non-trivial = some control decision non-default or some body byte non-zero; distinct = (entry, control decisions, array/string length classes).".into();
    c.assume("the independent wowm model (harness/model) is the reference for canonical encodings; it reproduces all test vectors of the corpus");
    c.assume("canonical domain as in DESIGN.md 1.10: Bool 0/1, Level16/32 <= 255, CString <= 255 bytes UTF-8, no NaN floats, packed spline components multiples of 4 quarter-units, UpdateMask carrying a valid TYPE field");
    let only = std::env::var("VERIF_ONLY").ok();
    let labels: Vec<String> = corpus.entries.iter().map(|e| e.label()).filter(|l| only.as_ref().map(|o| l.contains(o.as_str())).unwrap_or(true)).collect();
    let labels: Vec<String> = labels.into_iter().filter(|l| !corpus.skip_entry.contains(l)).collect();
    let sup = crate::iso::supervise("C01", tier.as_str(), labels, 16, 24, std::time::Duration::from_secs(tier.pick(180, 1800)), vec![("VERIF_WORKER_BUDGET_MIB".into(), "12288".into())]);
    let mut reports: Vec<EntryReport> = sup.reports.iter().map(EntryReport::from_json).collect();
    report_deaths(&mut c, "c01", &sup.deaths);
    // probes: listed findings are excluded by construction above; confirm that each still reproduces
    if only.is_none() && !corpus.probes.is_empty() {
        let psup = crate::iso::supervise("C01", tier.as_str(), corpus.probes.clone(), 4, 1, std::time::Duration::from_secs(300), vec![("VERIF_PROBE".into(), "1".into()), ("VERIF_WORKER_BUDGET_MIB".into(), "12288".into())]);
        let preports: Vec<EntryReport> = psup.reports.iter().map(EntryReport::from_json).collect();
        report_deaths(&mut c, "c01", &psup.deaths);
        let reproduced: u64 = preports.iter().map(|r| r.known_hits.values().sum::<u64>()).sum::<u64>() + psup.deaths.len() as u64;
        c.extra.insert("known_finding_probe_cases_reproducing".into(), json!(reproduced));
        for r in &preports {
            if r.known_hits.is_empty() && r.fails.is_empty() {
                eprintln!("[C01] note: probe {} no longer reproduces a listed finding", r.label);
            }
        }
        c.extra.insert("known_finding_probes".into(), json!(corpus.probes));
        let excluded: u64 = reports.iter().map(|r| r.classes.get("excluded_known_finding_flag_bits").copied().unwrap_or(0) + r.classes.get("excluded_known_finding_write_skipped").copied().unwrap_or(0)).sum();
        c.extra.insert("cases_altered_to_exclude_known_findings".into(), json!(excluded));
        reports.extend(preports);
    }
    c.extra.insert("entries".into(), json!(corpus.entries.len()));
    merge(&mut c, reports, 10);
    c.finish()
}
