//! C15: DateTime::try_from(u32) accepts exactly real calendar instants; accessors invert the packing.
//! Exhaustive over all 2^32 values against an independent proleptic-Gregorian calendar.
use rayon::prelude::*;
use serde_json::json;
use std::collections::BTreeMap;
use vcommon::{Check, Tier};
use wow_world_base::shared::datetime_vanilla_tbc_wrath::DateTime;

/// days since 1970-01-01 of y-m-d (m 1..=12, d 1..=31), Howard Hinnant's days_from_civil
fn days_from_civil(y: i64, m: i64, d: i64) -> i64 {
    let y = if m <= 2 { y - 1 } else { y };
    let era = if y >= 0 { y } else { y - 399 } / 400;
    let yoe = y - era * 400;
    let mp = (m + 9) % 12;
    let doy = (153 * mp + 2) / 5 + d - 1;
    let doe = yoe * 365 + yoe / 4 - yoe / 100 + doy;
    era * 146097 + doe - 719468
}

fn is_leap(y: i64) -> bool {
    (y % 4 == 0 && y % 100 != 0) || y % 400 == 0
}

fn days_in_month(y: i64, m0: u32) -> u32 {
    match m0 {
        0 | 2 | 4 | 6 | 7 | 9 | 11 => 31,
        3 | 5 | 8 | 10 => 30,
        1 => {
            if is_leap(y) {
                29
            } else {
                28
            }
        }
        _ => 0,
    }
}

/// weekday with 0 = Sunday; 1970-01-01 was a Thursday (4)
fn weekday_of(y: i64, m0: u32, d0: u32) -> u32 {
    let z = days_from_civil(y, m0 as i64 + 1, d0 as i64 + 1);
    ((z % 7 + 7 + 4) % 7) as u32
}

#[derive(Clone, Copy)]
struct Fields {
    minutes: u32,
    hours: u32,
    weekday: u32,
    day: u32,
    month: u32,
    year: u32,
}

fn fields(v: u32) -> Fields {
    Fields {
        minutes: v & 0x3f,
        hours: (v >> 6) & 0x1f,
        weekday: (v >> 11) & 7,
        day: (v >> 14) & 0x3f,
        month: (v >> 20) & 0xf,
        year: (v >> 24) & 0xff,
    }
}

/// the oracle: is `v` a real calendar instant?  (table per (year,month): days, weekday of the 1st)
struct Oracle {
    dim: Vec<u8>,   // [year*16+month] -> days in month, 0 when month >= 12
    first: Vec<u8>, // weekday (0 = Sunday) of day index 0
}

impl Oracle {
    fn new() -> Self {
        let mut dim = vec![0u8; 256 * 16];
        let mut first = vec![0u8; 256 * 16];
        for y in 0..256u32 {
            for m in 0..12u32 {
                dim[(y * 16 + m) as usize] = days_in_month(2000 + y as i64, m) as u8;
                first[(y * 16 + m) as usize] = weekday_of(2000 + y as i64, m, 0) as u8;
            }
        }
        Oracle { dim, first }
    }
    #[inline]
    fn valid(&self, v: u32) -> bool {
        let f = fields(v);
        if f.minutes >= 60 || f.hours >= 24 || f.month >= 12 {
            return false;
        }
        let k = (f.year * 16 + f.month) as usize;
        if f.day >= self.dim[k] as u32 {
            return false;
        }
        (self.first[k] as u32 + f.day) % 7 == f.weekday
    }
}

fn weekday_num(w: wow_world_base::shared::datetime_vanilla_tbc_wrath::Weekday) -> u32 {
    use wow_world_base::shared::datetime_vanilla_tbc_wrath::Weekday::*;
    match w {
        Sunday => 0,
        Monday => 1,
        Tuesday => 2,
        Wednesday => 3,
        Thursday => 4,
        Friday => 5,
        Saturday => 6,
    }
}
fn month_num(m: wow_world_base::shared::datetime_vanilla_tbc_wrath::Month) -> u32 {
    use wow_world_base::shared::datetime_vanilla_tbc_wrath::Month::*;
    match m {
        January => 0,
        February => 1,
        March => 2,
        April => 3,
        May => 4,
        June => 5,
        July => 6,
        August => 7,
        September => 8,
        October => 9,
        November => 10,
        December => 11,
    }
}

#[derive(Debug, Clone, Copy, PartialEq, Eq, PartialOrd, Ord)]
enum Bad {
    AcceptedInvalid,
    RejectedValid,
    AsIntDiffers,
    AccessorDiffers,
    Panicked,
}

/// one case through the real code; None = agrees with the oracle
fn judge(o: &Oracle, v: u32) -> Option<Bad> {
    let want = o.valid(v);
    match DateTime::try_from(v) {
        Ok(d) => {
            if !want {
                return Some(Bad::AcceptedInvalid);
            }
            if d.as_int() != v {
                return Some(Bad::AsIntDiffers);
            }
            let f = fields(v);
            if d.minutes() as u32 != f.minutes
                || d.hours() as u32 != f.hours
                || weekday_num(d.weekday()) != f.weekday
                || d.month_day() as u32 != f.day
                || month_num(d.month()) != f.month
                || d.years_after_2000() as u32 != f.year
            {
                return Some(Bad::AccessorDiffers);
            }
            None
        }
        Err(_) => {
            if want {
                Some(Bad::RejectedValid)
            } else {
                None
            }
        }
    }
}

fn judge_catch(o: &Oracle, v: u32) -> Option<Bad> {
    match std::panic::catch_unwind(std::panic::AssertUnwindSafe(|| judge(o, v))) {
        Ok(r) => r,
        Err(_) => Some(Bad::Panicked),
    }
}

/// signature of a disagreement: kind + which rule of the statement the value breaks
fn signature(o: &Oracle, v: u32, b: Bad) -> String {
    let f = fields(v);
    let why = if f.minutes >= 60 {
        "minute>=60"
    } else if f.hours >= 24 {
        "hour>=24"
    } else if f.month >= 12 {
        "month>=12"
    } else if f.day == o.dim[(f.year * 16 + f.month) as usize] as u32 {
        "day==days_in_month"
    } else if f.day > o.dim[(f.year * 16 + f.month) as usize] as u32 {
        "day>days_in_month"
    } else if (o.first[(f.year * 16 + f.month) as usize] as u32 + f.day) % 7 != f.weekday {
        "wrong-weekday"
    } else {
        "valid-instant"
    };
    format!("datetime:{:?}:{}", b, why)
}

fn describe(v: u32) -> serde_json::Value {
    let f = fields(v);
    json!({"value": format!("0x{:08x}", v), "year": 2000 + f.year, "month0": f.month, "day0": f.day, "weekday(0=Sun)": f.weekday, "hour": f.hours, "minute": f.minutes,
           "library": format!("{:?}", DateTime::try_from(v).map(|d| d.as_int()))})
}

pub fn run(tier: Tier, replay: Option<String>) -> i32 {
    let mut c = Check::new("C15", tier);
    let o = Oracle::new();
    // self-check of the oracle against dates fixed independently of both implementations
    assert_eq!(weekday_of(2000, 0, 0), 6); // 2000-01-01 Saturday
    assert_eq!(weekday_of(2024, 1, 28), 4); // 2024-02-29 Thursday
    assert_eq!(weekday_of(2100, 2, 0), 1); // 2100-03-01 Monday
    assert_eq!(weekday_of(2255, 11, 30), 1); // 2255-12-31 Monday
    assert_eq!(days_in_month(2100, 1), 28);
    assert_eq!(days_in_month(2000, 1), 29);

    if let Some(p) = replay {
        let j = vcommon::read_json(std::path::Path::new(&p));
        let v = u32::from_str_radix(j["value"].as_str().unwrap().trim_start_matches("0x"), 16).unwrap();
        let r = judge_catch(&o, v);
        println!("replay value=0x{:08x} oracle_valid={} library={:?} verdict={:?}", v, o.valid(v), DateTime::try_from(v).map(|d| d.as_int()), r);
        if let Some(b) = r {
            println!("VIOLATION property=C15 replay={}", p);
            println!("  sig={}", signature(&o, v, b));
            return 1;
        }
        return 0;
    }

    c.rule = "every u32 is one case (exhaustive, both tiers); oracle = independent proleptic-Gregorian calendar (days_from_civil); \
              non-trivial = the oracle accepts the value, or it breaks exactly one of the five rules of the statement; distinct = (year, month, day, weekday-correct?, hour-class, minute-class) signature"
        .into();
    c.exhaustive = Some(true);
    c.assume("DateTime is observed through TryFrom<u32>, as_int and the six public accessors of wow_world_base");

    // exhaustive sweep, chunked by the upper 16 bits so that it parallelises
    #[derive(Default)]
    struct Acc {
        evals: u64,
        accepted: u64,
        single_rule: u64,
        bad: BTreeMap<String, (u64, u32)>,
        distinct: u64,
        sample_hash: u64,
    }
    let acc = (0u32..=0xffff)
        .into_par_iter()
        .fold(Acc::default, |mut a, hi| {
            for lo in 0u32..=0xffff {
                let v = (hi << 16) | lo;
                a.evals += 1;
                let f = fields(v);
                let valid = o.valid(v);
                if valid {
                    a.accepted += 1;
                }
                // count the rules broken
                let k = (f.year * 16 + f.month.min(15)) as usize;
                let broken = (f.minutes >= 60) as u32
                    + (f.hours >= 24) as u32
                    + (f.month >= 12) as u32
                    + (f.month < 12 && f.day >= o.dim[k] as u32) as u32
                    + (f.month < 12 && f.day < o.dim[k] as u32 && (o.first[k] as u32 + f.day) % 7 != f.weekday) as u32;
                if valid || broken == 1 {
                    a.single_rule += (!valid) as u64;
                    // distinct shape = (date part incl. weekday, hour class {0,1..22,23,>=24}, minute class {0,1..58,59,>=60});
                    // every u32 is visited exactly once, so the number of distinct shapes is the number of class
                    // representatives (hour in {0,1,23,24}, minute in {0,1,59,60}) among the non-trivial values.
                    if matches!(f.hours, 0 | 1 | 23 | 24) && matches!(f.minutes, 0 | 1 | 59 | 60) {
                        a.distinct += 1;
                        a.sample_hash ^= vcommon::mix(v as u64, 15);
                    }
                }
                if let Some(b) = judge_catch(&o, v) {
                    let s = signature(&o, v, b);
                    let e = a.bad.entry(s).or_insert((0, v));
                    e.0 += 1;
                    e.1 = e.1.min(v);
                }
            }
            a
        })
        .reduce(Acc::default, |mut a, b| {
            a.evals += b.evals;
            a.accepted += b.accepted;
            a.single_rule += b.single_rule;
            for (k, (n, v)) in b.bad {
                let e = a.bad.entry(k).or_insert((0, v));
                e.0 += n;
                e.1 = e.1.min(v);
            }
            a.distinct += b.distinct;
            a.sample_hash ^= b.sample_hash;
            a
        });
    c.evals(acc.evals);
    c.set_distinct(acc.distinct);
    c.extra.insert("nontrivial_set_hash".into(), json!(format!("{:016x}", acc.sample_hash)));
    c.count_n("oracle_accepts", acc.accepted);
    c.count_n("breaks_exactly_one_rule", acc.single_rule);
    c.extra.insert("accepted_by_oracle".into(), json!(acc.accepted));
    // samples: a few accepted instants and a few single-rule rejections
    for v in [0x0000_3000u32, 0x1814_f5ab, 0x6411_c000, 0xff0b_b7bb, 0x0010_3800 | 60, 0x1811_d000] {
        c.sample(json!({"case": describe(v), "oracle_valid": o.valid(v)}));
    }
    for (sig, (n, v)) in &acc.bad {
        let what = format!("{} values disagree with the calendar oracle; smallest 0x{:08x}", n, v);
        let mut d = describe(*v);
        d["count"] = json!(n);
        d["oracle_valid"] = json!(o.valid(*v));
        c.fail(sig, &what, d);
    }
    c.finish()
}
