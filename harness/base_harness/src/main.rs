//! C15 (DateTime, exhaustive) and C20 (area-trigger geometry).
mod c15;
mod c20;

fn main() {
    let args: Vec<String> = std::env::args().collect();
    let id = args.get(1).map(|s| s.as_str()).unwrap_or("");
    let tier = match args.get(2).map(|s| s.as_str()) {
        Some("thorough") => vcommon::Tier::Thorough,
        Some("quick") => vcommon::Tier::Quick,
        _ => vcommon::env_tier(),
    };
    let replay = args.iter().position(|a| a == "--replay").and_then(|i| args.get(i + 1)).cloned();
    let code = match id {
        "C15" => c15::run(tier, replay),
        "C20" => c20::run(tier, replay),
        _ => {
            eprintln!("usage: base_harness C15|C20 quick|thorough [--replay file]");
            2
        }
    };
    std::process::exit(code);
}
