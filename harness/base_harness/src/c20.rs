//! C20: area-trigger containment and distance helpers against their geometric definition (f64 oracle).
use proptest::prelude::*;
use serde_json::{json, Value};
use vcommon::{Check, Tier};
use wow_world_base::geometry;
use wow_world_base::shared::vector3d_vanilla_tbc_wrath::Vector3d;

const DELTA: f64 = 2.0;

/// uniform float in [lo, hi) built from an integer strategy (proptest's float range sampler has a
/// debug assertion that fires sporadically); shrinks towards `lo`.
fn fr(lo: f64, hi: f64) -> impl Strategy<Value = f64> {
    any::<u32>().prop_map(move |u| lo + (hi - lo) * (u as f64 / 4294967296.0))
}
fn fr32(lo: f64, hi: f64) -> impl Strategy<Value = f32> {
    fr(lo, hi).prop_map(|x| x as f32)
}

#[derive(Debug, Clone)]
struct BoxCase {
    c: [f32; 3],
    dims: [f32; 3], // length (x), width (y), height (z)
    yaw: f32,
    p: [f32; 3],
}

#[derive(Debug, Clone, Copy, PartialEq)]
enum Verdict {
    Inside,
    Outside,
    Boundary, // within tolerance of a face: not judged
}

/// oracle: local = R(-yaw) (p - c); inside iff |l_i| <= dim_i/2 + 2 on each axis
fn oracle_box(b: &BoxCase) -> (Verdict, [f64; 3], f64) {
    let yaw = b.yaw as f64;
    let dx = b.p[0] as f64 - b.c[0] as f64;
    let dy = b.p[1] as f64 - b.c[1] as f64;
    let dz = b.p[2] as f64 - b.c[2] as f64;
    let (s, co) = yaw.sin_cos();
    let lx = dx * co + dy * s;
    let ly = -dx * s + dy * co;
    let l = [lx, ly, dz];
    let mut min_margin = f64::INFINITY; // smallest |distance to a face| over axes
    let mut inside = true;
    let scale = dx.abs() + dy.abs() + dz.abs() + b.dims.iter().map(|d| d.abs() as f64).sum::<f64>() + 1.0;
    for i in 0..3 {
        let lim = b.dims[i] as f64 / 2.0 + DELTA;
        let m = lim - l[i].abs();
        if m < 0.0 {
            inside = false;
        }
        min_margin = min_margin.min(m.abs());
    }
    let tol = 1e-4 * scale;
    let v = if min_margin < tol {
        Verdict::Boundary
    } else if inside {
        Verdict::Inside
    } else {
        Verdict::Outside
    };
    (v, l, min_margin)
}

fn lib_box(b: &BoxCase) -> bool {
    geometry::is_within_square(
        Vector3d { x: b.p[0], y: b.p[1], z: b.p[2] },
        Vector3d { x: b.c[0], y: b.c[1], z: b.c[2] },
        b.dims[0],
        b.dims[1],
        b.dims[2],
        b.yaw,
    )
}

fn box_json(b: &BoxCase) -> Value {
    let (v, l, m) = oracle_box(b);
    json!({"kind": "box", "centre": b.c, "dims_lwh": b.dims, "yaw": b.yaw, "player": b.p,
           "bits": {"c": b.c.map(|x| x.to_bits()), "dims": b.dims.map(|x| x.to_bits()), "yaw": b.yaw.to_bits(), "p": b.p.map(|x| x.to_bits())},
           "oracle": format!("{:?}", v), "local": l, "margin": m, "library": lib_box(b)})
}

fn box_from_json(j: &Value) -> BoxCase {
    let g = |k: &str, i: usize| f32::from_bits(j["bits"][k][i].as_u64().unwrap() as u32);
    BoxCase {
        c: [g("c", 0), g("c", 1), g("c", 2)],
        dims: [g("dims", 0), g("dims", 1), g("dims", 2)],
        yaw: f32::from_bits(j["bits"]["yaw"].as_u64().unwrap() as u32),
        p: [g("p", 0), g("p", 1), g("p", 2)],
    }
}

/// axis placement in the box frame, as (class, parameter)
#[derive(Debug, Clone, Copy)]
enum Place {
    Centre,
    Inside(f64),     // fraction -1..1 of the half extent (incl. tolerance)
    Face(f64, bool), // signed offset from the face (negative = inside), which face
    Far(f64),
}

fn place_strategy() -> impl Strategy<Value = Place> {
    prop_oneof![
        1 => Just(Place::Centre),
        3 => fr(-0.98, 0.98).prop_map(Place::Inside),
        6 => (fr(-3.0, 3.0), any::<bool>()).prop_map(|(o, s)| Place::Face(o, s)),
        1 => fr(5.0, 500.0).prop_map(Place::Far),
    ]
}

fn resolve(p: Place, dim: f64) -> f64 {
    let lim = dim / 2.0 + DELTA;
    match p {
        Place::Centre => 0.0,
        Place::Inside(f) => f * lim,
        Place::Face(o, pos) => {
            let v = lim + o;
            if pos {
                v
            } else {
                -v
            }
        }
        Place::Far(d) => lim + d,
    }
}

fn place_class(p: Place) -> u64 {
    match p {
        Place::Centre => 0,
        Place::Inside(_) => 1,
        Place::Face(o, s) => 2 + (o >= 0.0) as u64 * 2 + s as u64,
        Place::Far(_) => 6,
    }
}

fn box_strategy() -> impl Strategy<Value = (BoxCase, [Place; 3])> {
    let centre = prop_oneof![
        Just([0.0f32, 0.0, 0.0]),
        (fr32(-17000.0, 17000.0), fr32(-17000.0, 17000.0), fr32(-2000.0, 2000.0)).prop_map(|(x, y, z)| [x, y, z]),
        (fr32(-100.0, 100.0), fr32(-100.0, 100.0), fr32(-100.0, 100.0)).prop_map(|(x, y, z)| [x, y, z]),
    ];
    let dim = || prop_oneof![fr(-1.0, 3.0).prop_map(|u| 10f64.powf(u) as f32), fr32(0.1, 60.0)];
    let yaw = prop_oneof![
        4 => fr32(-4.0 * std::f64::consts::PI, 4.0 * std::f64::consts::PI),
        2 => fr32(0.0, 2.0 * std::f64::consts::PI),
        1 => (0i32..16).prop_map(|k| k as f32 * std::f32::consts::FRAC_PI_4),
        1 => Just(0.0f32),
    ];
    (centre, dim(), dim(), dim(), yaw, place_strategy(), place_strategy(), place_strategy()).prop_map(|(c, l, w, h, yaw, px, py, pz)| {
        let local = [resolve(px, l as f64), resolve(py, w as f64), resolve(pz, h as f64)];
        let (s, co) = (yaw as f64).sin_cos();
        // p = c + R(yaw) local
        let wx = c[0] as f64 + local[0] * co - local[1] * s;
        let wy = c[1] as f64 + local[0] * s + local[1] * co;
        let wz = c[2] as f64 + local[2];
        (BoxCase { c, dims: [l, w, h], yaw, p: [wx as f32, wy as f32, wz as f32] }, [px, py, pz])
    })
}

fn yaw_is_oblique(yaw: f32) -> bool {
    let q = (yaw as f64) / std::f64::consts::FRAC_PI_2;
    (q - q.round()).abs() * std::f64::consts::FRAC_PI_2 > 1e-3
}

macro_rules! expansion_checks {
    ($modname:ident, $exp:ident, $map_a:expr, $map_b:expr) => {
        mod $modname {
            use super::*;
            use wow_world_base::$exp::position::Position;
            use wow_world_base::$exp::trigger::{verify_trigger, AreaTrigger, TriggerResult};
            use wow_world_base::$exp::Map;

            pub fn contains_box(b: &BoxCase, same_map: bool) -> bool {
                let t = AreaTrigger::Square {
                    position: Position::new($map_a, b.c[0], b.c[1], b.c[2], 0.0),
                    length: b.dims[0],
                    width: b.dims[1],
                    height: b.dims[2],
                    yaw: b.yaw,
                };
                let m: Map = if same_map { $map_a } else { $map_b };
                t.contains(Position::new(m, b.p[0], b.p[1], b.p[2], 1.0))
            }

            pub fn contains_circle(c: [f32; 3], r: f32, p: [f32; 3], same_map: bool) -> bool {
                let t = AreaTrigger::Circle { position: Position::new($map_a, c[0], c[1], c[2], 0.0), radius: r };
                let m: Map = if same_map { $map_a } else { $map_b };
                t.contains(Position::new(m, p[0], p[1], p[2], 1.0))
            }

            /// all triggers of the table: (id, geometry)
            pub fn table() -> Vec<(u32, AreaTrigger)> {
                let probe = Position::new($map_a, 1.0e9, 1.0e9, 1.0e9, 0.0);
                let mut v = Vec::new();
                for id in 0..20000u32 {
                    match verify_trigger(probe, id) {
                        TriggerResult::NotFound => {}
                        TriggerResult::NotInsideTrigger(t) | TriggerResult::Success(t) => v.push((id, t.0)),
                    }
                }
                v
            }

            /// verify_trigger on a table trigger; returns (result class, expected-by-contains)
            pub fn verify(id: u32, t: &AreaTrigger, p: [f32; 3], same_map: bool) -> (&'static str, bool) {
                let (tm, _) = match *t {
                    AreaTrigger::Circle { position, .. } => (position.map, 0),
                    AreaTrigger::Square { position, .. } => (position.map, 1),
                };
                let other = if tm == $map_a { $map_b } else { $map_a };
                let m = if same_map { tm } else { other };
                let pos = Position::new(m, p[0], p[1], p[2], 0.5);
                let r = match verify_trigger(pos, id) {
                    TriggerResult::NotFound => "NotFound",
                    TriggerResult::NotInsideTrigger(_) => "NotInside",
                    TriggerResult::Success(_) => "Success",
                };
                (r, t.contains(pos))
            }

            pub fn geometry_of(t: &AreaTrigger) -> (bool, [f32; 3], [f32; 3], f32) {
                match *t {
                    AreaTrigger::Circle { position, radius } => (false, [position.x, position.y, position.z], [radius, 0.0, 0.0], 0.0),
                    AreaTrigger::Square { position, length, width, height, yaw } => (true, [position.x, position.y, position.z], [length, width, height], yaw),
                }
            }
        }
    };
}

expansion_checks!(van, vanilla, Map::EasternKingdoms, Map::Kalimdor);
expansion_checks!(tbc, tbc, Map::EasternKingdoms, Map::Kalimdor);
expansion_checks!(wrath, wrath, Map::EasternKingdoms, Map::Kalimdor);

fn judge_box(b: &BoxCase) -> Result<Verdict, String> {
    let (v, _, _) = oracle_box(b);
    let lib = lib_box(b);
    let agree = |x: bool| match v {
        Verdict::Boundary => true,
        Verdict::Inside => x,
        Verdict::Outside => !x,
    };
    if !agree(lib) {
        return Err("box:is_within_square".into());
    }
    for (name, same, f) in [
        ("vanilla", true, van::contains_box as fn(&BoxCase, bool) -> bool),
        ("tbc", true, tbc::contains_box),
        ("wrath", true, wrath::contains_box),
    ] {
        if !agree(f(b, same)) {
            return Err(format!("box:contains:{}", name));
        }
    }
    // another map: never inside
    if van::contains_box(b, false) || tbc::contains_box(b, false) || wrath::contains_box(b, false) {
        return Err("box:contains:other-map-inside".into());
    }
    Ok(v)
}

#[derive(Debug, Clone)]
struct CircleCase {
    c: [f32; 3],
    r: f32,
    p: [f32; 3],
}

fn circle_strategy() -> impl Strategy<Value = CircleCase> {
    let centre = (fr32(-17000.0, 17000.0), fr32(-17000.0, 17000.0), fr32(-2000.0, 2000.0)).prop_map(|(x, y, z)| [x, y, z]);
    let r = prop_oneof![fr32(0.5, 100.0), fr(-1.0, 3.0).prop_map(|u| 10f64.powf(u) as f32)];
    let dir = (fr(-1.0, 1.0), fr(-1.0, 1.0), fr(-1.0, 1.0));
    let off = prop_oneof![
        5 => fr(-2.0, 2.0).prop_map(|o| (1u8, o)), // near the sphere surface
        2 => fr(0.0, 0.95).prop_map(|o| (0u8, o)), // inside, fraction of radius
        1 => fr(3.0, 500.0).prop_map(|o| (2u8, o)), // far
    ];
    (centre, r, dir, off).prop_map(|(c, r, d, (k, o))| {
        let n = (d.0 * d.0 + d.1 * d.1 + d.2 * d.2).sqrt().max(1e-9);
        let dist = match k {
            0 => o * r as f64,
            1 => (r as f64 + o).max(0.0),
            _ => r as f64 + o,
        };
        let p = [c[0] as f64 + d.0 / n * dist, c[1] as f64 + d.1 / n * dist, c[2] as f64 + d.2 / n * dist];
        if k == 1 && o.abs() < 0.5 {
            // a quarter of the near-surface cases: exactly on the sphere along the dominant axis of the direction (the
            // radius is rounded to a multiple of 1/8 so that centre + radius is exact in f32 for these magnitudes)
            let r = ((r * 8.0).round() / 8.0).max(0.125);
            let axis = if d.0.abs() >= d.1.abs() && d.0.abs() >= d.2.abs() { 0 } else if d.1.abs() >= d.2.abs() { 1 } else { 2 };
            let c = [(c[0] * 8.0).round() / 8.0, (c[1] * 8.0).round() / 8.0, (c[2] * 8.0).round() / 8.0];
            let mut p = c;
            p[axis] = if [d.0, d.1, d.2][axis] < 0.0 { c[axis] - r } else { c[axis] + r };
            return CircleCase { c, r, p };
        }
        CircleCase { c, r, p: [p[0] as f32, p[1] as f32, p[2] as f32] }
    })
}

fn dist64(a: [f32; 3], b: [f32; 3]) -> f64 {
    let d = [a[0] as f64 - b[0] as f64, a[1] as f64 - b[1] as f64, a[2] as f64 - b[2] as f64];
    (d[0] * d[0] + d[1] * d[1] + d[2] * d[2]).sqrt()
}

/// the player differs from the centre in exactly one coordinate, and by exactly the radius (in f32 and in f64)
fn on_sphere_along_an_axis(k: &CircleCase) -> bool {
    let diff: Vec<usize> = (0..3).filter(|i| k.p[*i] != k.c[*i]).collect();
    if diff.len() != 1 || !(k.r > 0.0) || !k.r.is_finite() {
        return false;
    }
    let i = diff[0];
    (k.p[i] - k.c[i]).abs() == k.r && (k.p[i] as f64 - k.c[i] as f64).abs() == k.r as f64 && (k.r * k.r).is_finite() && k.r * k.r > f32::MIN_POSITIVE
}

fn judge_circle(k: &CircleCase) -> Result<Verdict, String> {
    let d = dist64(k.c, k.p);
    let v3 = |a: [f32; 3]| Vector3d { x: a[0], y: a[1], z: a[2] };
    // distance_between: Euclidean norm within a relative tolerance (f32 arithmetic: a few ulp)
    let lib_d = geometry::distance_between(v3(k.c), v3(k.p)) as f64;
    let lib_d2 = geometry::distance_between(v3(k.p), v3(k.c)) as f64;
    let tol_d = 1e-5 * d + 1e-6 * (k.c.iter().chain(k.p.iter()).map(|x| x.abs() as f64).fold(0.0, f64::max)) + 1e-30;
    if (lib_d - d).abs() > tol_d || (lib_d2 - d).abs() > tol_d {
        return Err("distance_between".into());
    }
    let margin = (d - k.r as f64).abs();
    let tol = 1e-4 * (d + k.r as f64 + 1.0);
    let v = if on_sphere_along_an_axis(k) {
        // decidable without any tolerance: the offset is exactly the radius in f32 and in f64, and sqrt(fl(r*r)) == r
        // for correctly rounded binary arithmetic: the distance IS the radius, the point is not closer than it
        Verdict::Outside
    } else if margin < tol {
        Verdict::Boundary
    } else if d < k.r as f64 {
        Verdict::Inside
    } else {
        Verdict::Outside
    };
    let agree = |x: bool| match v {
        Verdict::Boundary => true,
        Verdict::Inside => x,
        Verdict::Outside => !x,
    };
    if !agree(geometry::is_within_distance(v3(k.c), v3(k.p), k.r)) {
        return Err("is_within_distance".into());
    }
    for (name, f) in [("vanilla", van::contains_circle as fn([f32; 3], f32, [f32; 3], bool) -> bool), ("tbc", tbc::contains_circle), ("wrath", wrath::contains_circle)] {
        if !agree(f(k.c, k.r, k.p, true)) {
            return Err(format!("circle:contains:{}", name));
        }
        if f(k.c, k.r, k.p, false) {
            return Err(format!("circle:contains:{}:other-map-inside", name));
        }
    }
    Ok(v)
}

fn circle_json(k: &CircleCase) -> Value {
    json!({"kind": "circle", "centre": k.c, "radius": k.r, "player": k.p, "distance": dist64(k.c, k.p),
           "bits": {"c": k.c.map(|x| x.to_bits()), "r": k.r.to_bits(), "p": k.p.map(|x| x.to_bits())}})
}

pub fn run(tier: Tier, replay: Option<String>) -> i32 {
    let mut c = Check::new("C20", tier);
    if let Some(p) = replay {
        let j = vcommon::read_json(std::path::Path::new(&p));
        let j = if j.get("case").is_some() && j["case"].is_object() { j["case"].clone() } else { j };
        let r = match j["kind"].as_str() {
            Some("box") => {
                let b = box_from_json(&j);
                println!("{}", box_json(&b));
                judge_box(&b).map(|_| ())
            }
            Some("circle") => {
                let g = |k: &str, i: usize| f32::from_bits(j["bits"][k][i].as_u64().unwrap() as u32);
                let k = CircleCase { c: [g("c", 0), g("c", 1), g("c", 2)], r: f32::from_bits(j["bits"]["r"].as_u64().unwrap() as u32), p: [g("p", 0), g("p", 1), g("p", 2)] };
                judge_circle(&k).map(|_| ())
            }
            _ => {
                eprintln!("unknown replay kind");
                return 2;
            }
        };
        return match r {
            Ok(()) => {
                println!("replay: agrees with the oracle");
                0
            }
            Err(e) => {
                println!("VIOLATION property=C20 replay={}", p);
                println!("  sig=geometry:{}", e);
                1
            }
        };
    }
    c.rule = "boxes (centre, L/W/H over 4 orders of magnitude, yaw in [-4pi,4pi]) with the player placed per axis in the box frame (centre / inside / within 3 yards of a face on either side / far) and mapped to world coordinates by the oracle's own rotation; circles with the player placed by distance from the centre; every table trigger of the three expansions probed the same way through verify_trigger. Oracle: f64, local = R(-yaw)(p-c), |l_i| <= dim_i/2+2, same map; circle: distance < r. Points within 1e-4*scale of a face are boundary cases: counted, not judged - except points that differ from a circle's centre in one coordinate by exactly the radius (exact in f32 and f64): their distance is the radius, they are judged outside (generated circles and all six such points of every table circle). Non-trivial = judged case with yaw not within 1e-3 of a multiple of pi/2 and at least one axis within 3 yards of a face (boxes), or within 2 yards of the sphere (circles). Distinct = (shape, 32 yaw buckets, per-axis placement class, verdict).".into();
    c.assume("f32 rounding inside the library stays below the boundary tolerance 1e-4*(|p-c|+dims+1)");

    let n_box = tier.pick(300_000u32, 3_000_000);
    let n_circle = tier.pick(100_000u32, 1_000_000);
    let seed = c.seed;

    // --- arbitrary boxes
    {
        let cc = std::cell::RefCell::new(&mut c);
        let strat = box_strategy();
        let fail = vcommon::prop_search(seed, 20, n_box, &strat, |(b, places), counting| {
            let r = judge_box(b);
            if counting {
                let mut c = cc.borrow_mut();
                c.eval();
                match &r {
                    Ok(Verdict::Boundary) => c.count("box.boundary_not_judged"),
                    Ok(v) => {
                        c.count(if *v == Verdict::Inside { "box.inside" } else { "box.outside" });
                        let near = places.iter().any(|p| matches!(p, Place::Face(..)));
                        let obl = yaw_is_oblique(b.yaw);
                        if obl {
                            c.count("box.oblique_yaw");
                        }
                        if near && obl {
                            c.count("box.nontrivial");
                            let bucket = (((b.yaw as f64 / (8.0 * std::f64::consts::PI) + 0.5) * 32.0) as u64).min(31);
                            let sig = 1u64 << 40 | bucket << 20 | place_class(places[0]) << 12 | place_class(places[1]) << 8 | place_class(places[2]) << 4 | (*v == Verdict::Inside) as u64;
                            c.nontrivial(sig);
                            if c.want_sample() && c.samples.len() < 5 {
                                c.sample(box_json(b));
                            }
                        }
                    }
                    Err(_) => {}
                }
            }
            r.map(|_| ())
        });
        if let Some(((b, _), msg)) = fail {
            let c = cc.into_inner();
            c.fail(&format!("geometry:{}", msg), "library disagrees with the f64 box oracle (shrunk case)", box_json(&b));
        }
    }
    // --- arbitrary circles + distance helpers
    {
        let cc = std::cell::RefCell::new(&mut c);
        let strat = circle_strategy();
        let fail = vcommon::prop_search(seed, 21, n_circle, &strat, |k, counting| {
            let r = judge_circle(k);
            if counting {
                let mut c = cc.borrow_mut();
                c.eval();
                match &r {
                    Ok(Verdict::Boundary) => c.count("circle.boundary_not_judged"),
                    Ok(Verdict::Outside) if on_sphere_along_an_axis(k) => {
                        c.count("circle.exactly_on_the_sphere_judged_outside");
                        c.nontrivial(7u64 << 40 | ((k.r.to_bits() as u64) >> 12) << 4 | (0..3).find(|i| k.p[*i] != k.c[*i]).unwrap_or(0) as u64);
                    }
                    Ok(v) => {
                        let d = dist64(k.c, k.p);
                        if (d - k.r as f64).abs() < 2.0 {
                            c.count("circle.nontrivial");
                            let sig = 2u64 << 40 | ((k.r.log10() * 4.0) as i64 + 8) as u64 & 0xff | ((*v == Verdict::Inside) as u64) << 8 | (((d - k.r as f64) * 4.0) as i64 + 16) as u64 & 0x3f << 10;
                            c.nontrivial(sig);
                            if c.want_sample() && c.samples.len() < 8 {
                                c.sample(circle_json(k));
                            }
                        }
                    }
                    Err(_) => {}
                }
            }
            r.map(|_| ())
        });
        if let Some((k, msg)) = fail {
            let c = cc.into_inner();
            c.fail(&format!("geometry:{}", msg), "library disagrees with the f64 circle/distance oracle (shrunk case)", circle_json(&k));
        }
    }
    // --- table triggers through verify_trigger
    let per_trigger = tier.pick(40u32, 400);
    type Tab = (
        &'static str,
        Vec<(u32, [f32; 3], [f32; 3], f32, bool)>,
        Box<dyn Fn(u32, [f32; 3], bool) -> (&'static str, bool)>,
    );
    let tables: Vec<Tab> = {
        let tv = van::table();
        let tt = tbc::table();
        let tw = wrath::table();
        let gv: Vec<(u32, [f32; 3], [f32; 3], f32, bool)> = tv.iter().map(|t| { let (sq, c, d, y) = van::geometry_of(&t.1); (t.0, c, d, y, sq) }).collect();
        let gt: Vec<(u32, [f32; 3], [f32; 3], f32, bool)> = tt.iter().map(|t| { let (sq, c, d, y) = tbc::geometry_of(&t.1); (t.0, c, d, y, sq) }).collect();
        let gw: Vec<(u32, [f32; 3], [f32; 3], f32, bool)> = tw.iter().map(|t| { let (sq, c, d, y) = wrath::geometry_of(&t.1); (t.0, c, d, y, sq) }).collect();
        vec![
            ("vanilla", gv, Box::new(move |id, p, same| { let t = tv.iter().find(|t| t.0 == id).unwrap(); van::verify(id, &t.1, p, same) })),
            ("tbc", gt, Box::new(move |id, p, same| { let t = tt.iter().find(|t| t.0 == id).unwrap(); tbc::verify(id, &t.1, p, same) })),
            ("wrath", gw, Box::new(move |id, p, same| { let t = tw.iter().find(|t| t.0 == id).unwrap(); wrath::verify(id, &t.1, p, same) })),
        ]
    };
    for (ei, (ename, geo, verify)) in tables.iter().enumerate() {
        // the published table (data file of the crate) against what the lookup resolves: every listed id must be found
        let src = vcommon::repo_root().join(format!("wow_world_base/src/extended/{}/trigger/triggers.rs", ename));
        match std::fs::read_to_string(&src) {
            Err(e) => c.inconclusive(&format!("{}: {}", src.display(), e)),
            Ok(text) => {
                let lines: Vec<&str> = text.lines().collect();
                let mut listed: Vec<(u32, bool)> = Vec::new();
                for (i, l) in lines.iter().enumerate() {
                    if let Some(rest) = l.strip_prefix('(') {
                        if let Some(id) = rest.strip_suffix(", (").and_then(|x| x.parse::<u32>().ok()) {
                            let next = lines.get(i + 1).map(|s| s.trim_start()).unwrap_or("");
                            if next.starts_with("AreaTrigger::") {
                                listed.push((id, next.starts_with("AreaTrigger::Square")));
                            }
                        }
                    }
                }
                c.extra.insert(format!("table_rows_in_source_{}", ename), json!(listed.len()));
                if listed.is_empty() {
                    c.inconclusive(&format!("no rows recognised in {}", src.display()));
                }
                for (id, square) in &listed {
                    c.eval();
                    match geo.iter().find(|g| g.0 == *id) {
                        None => {
                            c.fail(&format!("geometry:verify_trigger:{}:listed-id-not-found", ename), &format!("trigger {} is listed in the {} table but verify_trigger reports NotFound for it", id, ename), json!({"kind": "table-id", "expansion": ename, "trigger": id}));
                        }
                        Some(g) if g.4 != *square => {
                            c.fail(&format!("geometry:verify_trigger:{}:listed-shape-differs", ename), &format!("trigger {} is a {} in the table but the lookup returns the other shape", id, if *square { "box" } else { "circle" }), json!({"kind": "table-id", "expansion": ename, "trigger": id}));
                        }
                        _ => {}
                    }
                }
                for g in geo.iter() {
                    if !listed.iter().any(|(id, _)| *id == g.0) {
                        c.fail(&format!("geometry:verify_trigger:{}:unlisted-id-found", ename), &format!("verify_trigger resolves id {} which the {} table does not list", g.0, ename), json!({"kind": "table-id", "expansion": ename, "trigger": g.0}));
                    }
                }
            }
        }
        c.extra.insert(format!("table_triggers_{}", ename), json!(geo.len()));
        c.extra.insert(format!("table_squares_{}", ename), json!(geo.iter().filter(|g| g.4).count()));
        // every circle of the table: the points centre +- radius along each axis, where that sum is exact, are at distance
        // radius: not inside
        {
            let mut judged = 0u64;
            let mut bad: Option<(u32, [f32; 3], [f32; 3], f32)> = None;
            for (id, centre, dims, _, square) in geo.iter() {
                if *square {
                    continue;
                }
                for axis in 0..3 {
                    for sign in [-1.0f32, 1.0] {
                        let mut p = *centre;
                        p[axis] = centre[axis] + sign * dims[0];
                        let k = CircleCase { c: *centre, r: dims[0], p };
                        if !on_sphere_along_an_axis(&k) {
                            continue;
                        }
                        judged += 1;
                        c.eval();
                        let (res, contains) = verify(*id, p, true);
                        if (res == "Success" || contains) && bad.is_none() {
                            bad = Some((*id, *centre, p, dims[0]));
                        }
                    }
                }
            }
            c.count_n("table.circle_points_exactly_on_the_sphere", judged);
            if judged > 0 {
                c.nontrivial(9u64 << 40 | ei as u64);
            }
            if let Some((id, centre, p, r)) = bad {
                let k = CircleCase { c: centre, r, p };
                let mut j = circle_json(&k);
                j["table_case"] = json!({"expansion": ename, "trigger": id});
                c.fail(&format!("geometry:verify_trigger:{}:circle-on-sphere-inside", ename), &format!("trigger {} (circle, radius {}): a player exactly {} away from the centre along one axis is reported inside", id, r, r), j);
            }
        }
        // ids absent from the table must be NotFound: covered by table() itself (ids 0..20000 enumerated);
        // every id that is present is probed below.
        let ids: Vec<usize> = (0..geo.len()).collect();
        let strat = (proptest::sample::select(ids), place_strategy(), place_strategy(), place_strategy(), proptest::bool::weighted(0.9));
        let cc = std::cell::RefCell::new(&mut c);
        let fail = vcommon::prop_search(seed, 30 + ei as u64, per_trigger * geo.len() as u32, &strat, |(i, px, py, pz, same), counting| {
            let (id, centre, dims, yaw, square) = geo[*i];
            // build the probe point
            let (p, verdict) = if square {
                let local = [resolve(*px, dims[0] as f64), resolve(*py, dims[1] as f64), resolve(*pz, dims[2] as f64)];
                let (s, co) = (yaw as f64).sin_cos();
                let p = [
                    (centre[0] as f64 + local[0] * co - local[1] * s) as f32,
                    (centre[1] as f64 + local[0] * s + local[1] * co) as f32,
                    (centre[2] as f64 + local[2]) as f32,
                ];
                let b = BoxCase { c: centre, dims, yaw, p };
                (p, oracle_box(&b).0)
            } else {
                // reuse the x placement as radial placement along a fixed oblique direction
                let r = dims[0] as f64;
                let dist = match *px {
                    Place::Centre => 0.0,
                    Place::Inside(f) => f.abs() * r,
                    Place::Face(o, _) => (r + o * 0.5).max(0.0),
                    Place::Far(d) => r + d,
                };
                let dir = [0.48, -0.6, 0.64];
                let p = [(centre[0] as f64 + dir[0] * dist) as f32, (centre[1] as f64 + dir[1] * dist) as f32, (centre[2] as f64 + dir[2] * dist) as f32];
                let d = dist64(centre, p);
                let tol = 1e-4 * (d + r + 1.0);
                let v = if (d - r).abs() < tol { Verdict::Boundary } else if d < r { Verdict::Inside } else { Verdict::Outside };
                (p, v)
            };
            let (res, contains) = verify(id, p, *same);
            let expected_inside = match verdict {
                Verdict::Boundary => None,
                Verdict::Inside => Some(*same),
                Verdict::Outside => Some(false),
            };
            let mut err = None;
            if res == "NotFound" {
                err = Some(format!("verify_trigger:{}:NotFound-for-listed-id", ename));
            } else if (res == "Success") != contains {
                err = Some(format!("verify_trigger:{}:inconsistent-with-contains", ename));
            } else if let Some(e) = expected_inside {
                if (res == "Success") != e {
                    err = Some(format!("verify_trigger:{}:{}", ename, if square { "box" } else { "circle" }));
                }
            }
            if counting {
                let mut c = cc.borrow_mut();
                c.eval();
                if expected_inside.is_none() {
                    c.count("table.boundary_not_judged");
                } else if err.is_none() {
                    let near = if square { [px, py, pz].iter().any(|p| matches!(p, Place::Face(..))) } else { matches!(px, Place::Face(..)) };
                    if near && (!square || yaw_is_oblique(yaw)) {
                        c.count("table.nontrivial");
                        c.nontrivial(3u64 << 40 | (ei as u64) << 32 | (id as u64) << 12 | place_class(*px) << 8 | place_class(*py) << 4 | (res == "Success") as u64);
                        if c.want_sample() {
                            c.sample(json!({"kind": "table", "expansion": ename, "trigger": id, "square": square, "yaw": yaw, "player": p, "same_map": same, "verify_trigger": res, "oracle": format!("{:?}", verdict)}));
                        }
                    }
                }
            }
            match err {
                None => Ok(()),
                Some(e) => Err(format!("{}|{}", e, json!({"kind": "table", "expansion": ename, "trigger": id, "centre": centre, "dims": dims, "yaw": yaw, "player": p, "player_bits": p.map(|x| x.to_bits()), "same_map": same, "verify_trigger": res, "contains": contains, "oracle": format!("{:?}", verdict)}))),
            }
        });
        if let Some((_, msg)) = fail {
            let c = cc.into_inner();
            let (sig, js) = msg.split_once('|').unwrap();
            let j: Value = serde_json::from_str(js).unwrap_or(Value::Null);
            // make the table case replayable as a box/circle case
            let mut rj = j.clone();
            if j["oracle"] != Value::Null {
                let centre: Vec<f32> = j["centre"].as_array().unwrap().iter().map(|x| x.as_f64().unwrap() as f32).collect();
                let dims: Vec<f32> = j["dims"].as_array().unwrap().iter().map(|x| x.as_f64().unwrap() as f32).collect();
                let p: Vec<f32> = j["player_bits"].as_array().unwrap().iter().map(|x| f32::from_bits(x.as_u64().unwrap() as u32)).collect();
                let b = BoxCase { c: [centre[0], centre[1], centre[2]], dims: [dims[0], dims[1], dims[2]], yaw: j["yaw"].as_f64().unwrap() as f32, p: [p[0], p[1], p[2]] };
                rj = box_json(&b);
                rj["table_case"] = j;
            }
            c.fail(&format!("geometry:{}", sig), "verify_trigger disagrees with the oracle on a table trigger (shrunk case)", rj);
        }
    }
    c.finish()
}
