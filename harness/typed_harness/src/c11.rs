//! C11: generated enum types mirror their wowm definition for every integer.
use crate::adapters::*;
use proptest::prelude::*;
use serde_json::json;
use std::collections::{BTreeMap, BTreeSet};
use vcommon::{Check, Tier};
use wowm_model::ast::DefinerKind;
use wowm_model::parser::parse_int;
use wowm_model::resolve::*;

pub fn ns_by_text(t: &str) -> Option<Ns> {
    Ns::all().into_iter().find(|n| n.text() == t)
}

/// namespaces an adapter stands for: those of its file location, plus (login) every protocol version in which
/// the same wowm object is visible (the library re-exports the type of the first version in the later ones)
pub fn effective_nss(u: &Universe, name: &str, nss: &[&str]) -> Vec<Ns> {
    let mut v: Vec<Ns> = nss.iter().filter_map(|n| ns_by_text(n)).collect();
    if let Some(Ns::Login(_)) = v.first() {
        if let Some(primary) = u.lookup_idx(v[0], name) {
            for ns in Ns::all() {
                if matches!(ns, Ns::Login(_)) && !v.contains(&ns) && u.lookup_idx(ns, name) == Some(primary) {
                    v.push(ns);
                }
            }
        }
    }
    v
}

/// Rust names of enumerators: PascalCase of the wowm name; names that collide with Rust keywords / prelude items
/// carry an `X` suffix (`SELF` -> `SelfX`, `ERROR` -> `ErrorX`)
pub fn same_name(rust: &str, wowm: &str) -> bool {
    let (r, w) = (norm(rust), norm(wowm));
    r == w || r == format!("{}x", w)
}

pub fn norm(s: &str) -> String {
    s.chars().filter(|c| c.is_ascii_alphanumeric()).map(|c| c.to_ascii_lowercase()).collect()
}

pub fn int_info(t: &str) -> Option<(u32, bool)> {
    Some(match t {
        "u8" => (8, false),
        "u16" => (16, false),
        "u32" => (32, false),
        "u48" => (48, false),
        "u64" | "usize" => (64, false),
        "i8" => (8, true),
        "i16" => (16, true),
        "i32" => (32, true),
        "i64" => (64, true),
        _ => return None,
    })
}

pub fn domain(bits: u32, signed: bool) -> (i128, i128) {
    if signed {
        (-(1i128 << (bits - 1)), (1i128 << (bits - 1)) - 1)
    } else {
        (0, (1i128 << bits) - 1)
    }
}

/// value `v` of source type `src` as seen by an enum/flag of base type `base`: None = not representable (conversion must fail)
pub fn expected_base_value(v: i128, src: &str, base: &str) -> Option<i128> {
    let (sb, ss) = int_info(src)?;
    let (bb, bs) = int_info(base)?;
    let bb_eff = if base == "u48" { 64 } else { bb };
    if sb == bb_eff && ss != bs {
        // same width, other signedness: reinterpreted bit for bit
        let raw = (v as u128) & ((1u128 << sb) - 1);
        let w = if bs && (raw >> (sb - 1)) & 1 == 1 { raw as i128 - (1i128 << sb) } else { raw as i128 };
        return Some(w);
    }
    let (lo, hi) = domain(bb_eff, bs);
    if v < lo || v > hi {
        None
    } else {
        Some(v)
    }
}

struct Case {
    adapter: usize,
    src: u8,
    v: i128,
}

fn judge(a: &EnumAdapter, declared: &[(String, i128)], src: u8, v: i128) -> Result<bool, (String, String)> {
    let src_name = if src == 0 { a.base } else { SOURCES[src as usize] };
    let got = std::panic::catch_unwind(|| (a.probe)(SOURCES[src as usize], v)).map_err(|_| ("panic".to_string(), format!("{}({}) panicked", SOURCES[src as usize], v)))?;
    if got == Probe::NotRepresentable {
        return Ok(false);
    }
    if got == Probe::NoSuchConversion {
        // the statement speaks of "every supported source integer type": an absent impl is not a violation
        return Ok(false);
    }
    let w = expected_base_value(v, src_name, a.base);
    let want = w.and_then(|w| declared.iter().find(|(_, x)| *x == w).map(|(n, _)| (n.clone(), w)));
    match (&got, want) {
        (Probe::Ok { name, as_int }, Some((wn, wv))) => {
            if !same_name(name, &wn) {
                return Err(("wrong-enumerator".into(), format!("{} {} gives {} but the wowm names {}", SOURCES[src as usize], v, name, wn)));
            }
            if *as_int != wv && *as_int != i128::MIN {
                return Err(("as-int".into(), format!("{} {} gives {} whose as_int is {} (expected {})", SOURCES[src as usize], v, name, as_int, wv)));
            }
            Ok(true)
        }
        (Probe::Err { value }, None) => {
            if *value != v && Some(*value) != w {
                return Err(("error-value".into(), format!("{} {} is rejected but the error reports {}", SOURCES[src as usize], v, value)));
            }
            Ok(true)
        }
        (Probe::Ok { name, .. }, None) => Err(("undeclared-accepted".into(), format!("{} {} is not a declared value (as {} it would be {:?}) but converts to {}", SOURCES[src as usize], v, a.base, w, name))),
        (Probe::Err { .. }, Some((wn, _))) => Err(("declared-rejected".into(), format!("{} {} is the declared value of {} but is rejected", SOURCES[src as usize], v, wn))),
        (Probe::NotRepresentable, _) | (Probe::NoSuchConversion, _) => Ok(false),
    }
}

pub fn run(tier: Tier, replay: Option<String>) -> i32 {
    let mut c = Check::new("C11", tier);
    let u = match wowm_model::load_corpus(&vcommon::repo_root()) {
        Ok(u) => u,
        Err(e) => {
            eprintln!("C11: {}", e);
            return 2;
        }
    };
    let adapters = enum_adapters();
    // the declared enumerators per adapter (all namespaces of the adapter must agree, they share one Rust type)
    let mut declared: Vec<Option<Vec<(String, i128)>>> = Vec::new();
    let mut seen_model: BTreeSet<(String, String)> = BTreeSet::new();
    for a in &adapters {
        let mut defs: Vec<Vec<(String, i128)>> = Vec::new();
        for ns in effective_nss(&u, a.name, a.nss) {
            let nst = &ns.text();
            match u.lookup(ns, a.name).and_then(|o| o.definer()) {
                Some(d) if d.kind == DefinerKind::Enum => {
                    seen_model.insert((nst.to_string(), a.name.to_string()));
                    defs.push(d.members.iter().map(|m| (m.name.clone(), parse_int(&m.value_text).unwrap_or(i128::MIN))).collect());
                    if d.base != a.base {
                        c.fail(&format!("c11:{}:base-type", a.path), &format!("wowm base type {} but from_int takes {}", d.base, a.base), json!({"enum": a.path}));
                    }
                }
                Some(_) => {
                    c.fail(&format!("c11:{}:kind", a.path), "the wowm definer of this name is a flag", json!({"enum": a.path}));
                }
                None => {
                    c.fail(&format!("c11:{}:not-in-sources", a.path), &format!("library enum has no wowm definition named {} in {}", a.name, nst), json!({"enum": a.path, "ns": nst}));
                }
            }
        }
        if defs.windows(2).any(|w| w[0] != w[1]) {
            c.fail(&format!("c11:{}:shared-type-definitions-differ", a.path), "one Rust type stands for wowm definitions that differ between its expansions", json!({"enum": a.path}));
        }
        declared.push(defs.into_iter().next());
    }
    // every enum of the sources must exist in the library
    for ns in Ns::all() {
        for i in u.objects_in(ns) {
            let o = &u.objects[i];
            if let Some(d) = o.definer() {
                if d.kind == DefinerKind::Enum && !o.is_test() && !seen_model.contains(&(ns.text(), d.name.clone())) {
                    if crate_private_type_exists(&d.name, "enum") {
                        // only used to select branches: the public type is the synthesised enum of the message (checked by C01/C04)
                        c.count("wowm_enums_whose_rust_type_is_crate_private");
                        continue;
                    }
                    c.fail(&format!("c11:{}/{}:missing-in-library", ns.text(), d.name), "wowm enum has no generated Rust enum found by the scan", json!({"ns": ns.text(), "enum": d.name}));
                }
            }
        }
    }
    if let Some(p) = replay {
        let j = vcommon::read_json(std::path::Path::new(&p));
        let Some(ai) = adapters.iter().position(|a| a.path == j["enum"].as_str().unwrap_or("")) else { return 2 };
        let src = j["src"].as_u64().unwrap_or(0) as u8;
        let v: i128 = j["value"].as_str().unwrap_or("0").parse().unwrap_or(0);
        let d = declared[ai].clone().unwrap_or_default();
        println!("{} {}({}) -> {:?}", adapters[ai].path, SOURCES[src as usize], v, (adapters[ai].probe)(SOURCES[src as usize], v));
        return match judge(&adapters[ai], &d, src, v) {
            Ok(_) => 0,
            Err((k, m)) => {
                println!("VIOLATION property=C11 replay={}", p);
                println!("  sig=c11:{}:{} {}", adapters[ai].path, k, m);
                1
            }
        };
    }
    c.rule = "every public enum found by scanning /repo's generated sources, matched by name and expansion / login version to its wowm definition (a type on one side only is a failure). Inputs: base width <= 16 bits: every value of the base type through from_int (exhaustive); for all 9 TryFrom source types: every declared value, its neighbours, aliases +-2^8, +-2^16, +-2^32, the extremes of the source type, and proptest values; variants() against declaration order. Oracle from the wowm text: conversion succeeds iff the numeric value (same width, other signedness: the bit pattern) is declared, names that enumerator, as_int returns it, the error reports the input. Non-trivial = declared value, or undeclared value within 2 of a declared one or a width alias of one; distinct = (enum, source type, value).".into();
    c.exhaustive = Some(false);
    let seed = c.seed;
    let mut per_enum_bad: BTreeMap<String, u32> = BTreeMap::new();
    for (ai, a) in adapters.iter().enumerate() {
        let Some(d) = &declared[ai] else { continue };
        c.count("enums");
        let (bits, signed) = int_info(a.base).unwrap_or((32, false));
        let mut report = |c: &mut Check, src: u8, v: i128, r: Result<bool, (String, String)>| {
            match r {
                Ok(true) => {
                    c.eval();
                    let near = d.iter().any(|(_, x)| (x - v).abs() <= 2 || ((x - v).abs() % 256 == 0 && (x - v).abs() <= (1i128 << 33)));
                    if near {
                        c.nontrivial(vcommon::fnv(format!("{}|{}|{}", a.path, src, v).as_bytes()));
                    }
                }
                Ok(false) => {}
                Err((k, m)) => {
                    c.eval();
                    let n = per_enum_bad.entry(format!("{}:{}", a.path, k)).or_insert(0);
                    *n += 1;
                    if *n == 1 {
                        c.fail(&format!("c11:{}:{}:{}", a.path, SOURCES[src as usize], k), &m, json!({"enum": a.path, "src": src, "source_type": SOURCES[src as usize], "value": v.to_string()}));
                    }
                }
            }
        };
        // variants(): each enumerator once, in declaration order
        let vars = (a.variants)();
        c.eval();
        let want: Vec<i128> = d.iter().map(|(_, v)| *v).collect();
        let got: Vec<i128> = vars.iter().zip(want.iter()).map(|((_, v), w)| if *v == i128::MIN { *w } else { *v }).collect();
        if want != got || vars.len() != d.len() || vars.iter().zip(d.iter()).any(|((n, _), (wn, _))| !same_name(n, wn)) {
            c.fail(&format!("c11:{}:variants", a.path), &format!("variants() is {:?} but the declaration order is {:?}", vars.iter().map(|v| &v.0).collect::<Vec<_>>(), d.iter().map(|v| &v.0).collect::<Vec<_>>()), json!({"enum": a.path, "src": 0, "value": "0"}));
        }
        // exhaustive over the base type when it has at most 16 bits
        if bits <= 16 {
            c.count("enums_exhaustive_over_base_type");
            let (lo, hi) = domain(bits, signed);
            for v in lo..=hi {
                let r = judge(a, d, 0, v);
                report(&mut c, 0, v, r);
            }
        }
        // directed values for every source type
        let mut vals: BTreeSet<i128> = BTreeSet::new();
        for (_, x) in d {
            for delta in [0i128, 1, -1, 2, -2, 256, -256, 65536, -65536, 1 << 32, -(1i128 << 32), 0x100_0000, 1i128 << 48] {
                vals.insert(x + delta);
            }
        }
        for b in [8u32, 16, 32, 64] {
            for s in [false, true] {
                let (lo, hi) = domain(b, s);
                vals.extend([lo, hi, lo + 1, hi - 1]);
            }
        }
        for src in 0..10u8 {
            for v in &vals {
                let r = judge(a, d, src, *v);
                report(&mut c, src, *v, r);
            }
        }
        // random values
        let n = tier.pick(300u32, 30_000);
        let strat = (0u8..10, any::<i64>(), 0u8..4);
        let mut pending: Vec<Case> = Vec::new();
        let _ = vcommon::prop_search(seed, vcommon::fnv(a.path.as_bytes()), n, &strat, |(src, raw, shape), counting| {
            if !counting {
                return Ok(());
            }
            let v: i128 = match shape {
                0 => *raw as i128,
                1 => (*raw as i128) & 0xFFFF,
                2 => (*raw as i128) & 0xFFFF_FFFF,
                _ => (*raw as i8) as i128,
            };
            pending.push(Case { adapter: ai, src: *src, v });
            Ok(())
        });
        for case in pending {
            let r = judge(&adapters[case.adapter], d, case.src, case.v);
            report(&mut c, case.src, case.v, r);
        }
        if c.samples.len() < 8 && ai % 40 == 3 {
            let (n, v) = &d[d.len() / 2];
            c.sample(json!({"enum": a.path, "base": a.base, "declared": d.len(), "probe": format!("{:?}", (a.probe)("u32", *v)), "enumerator": n, "value": v.to_string(), "alias+256": format!("{:?}", (a.probe)("u32", *v + 256))}));
        }
    }
    c.extra.insert("enum_types_scanned".into(), json!(adapters.len()));
    c.finish()
}

/// a `pub(crate) enum|struct NAME` exists among the generated definer files
pub fn crate_private_type_exists(name: &str, kw: &str) -> bool {
    let needle = format!("pub(crate) {} {} {{", kw, name);
    let repo = vcommon::repo_root();
    let mut dirs = vec![];
    for v in ["all", "version_2", "version_3", "version_5", "version_6", "version_7", "version_8"] {
        dirs.push(repo.join("wow_login_messages/src/logon").join(v));
    }
    for v in ["shared", "vanilla", "tbc", "wrath"] {
        dirs.push(repo.join("wow_world_base/src/inner").join(v));
    }
    for d in dirs {
        if let Ok(rd) = std::fs::read_dir(d) {
            for e in rd.flatten() {
                if let Ok(s) = std::fs::read_to_string(e.path()) {
                    if s.contains(&needle) {
                        return true;
                    }
                }
            }
        }
    }
    false
}
