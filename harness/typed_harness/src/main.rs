#![allow(dead_code, clippy::all)]
#[macro_use]
mod adapters;
mod c11;
mod c12;
mod c13;

fn main() {
    let args: Vec<String> = std::env::args().collect();
    let id = args.get(1).map(|s| s.as_str()).unwrap_or("");
    let tier = match args.get(2).map(|s| s.as_str()) {
        Some("thorough") => vcommon::Tier::Thorough,
        Some("quick") => vcommon::Tier::Quick,
        _ => vcommon::env_tier(),
    };
    let replay = args.iter().position(|a| a == "--replay").and_then(|i| args.get(i + 1)).cloned();
    // probing out-of-range update-mask bits panics inside the library (caught); keep the output quiet
    std::panic::set_hook(Box::new(|_| {}));
    let code = match id {
        "C11" => c11::run(tier, replay),
        "C12" => c12::run(tier, replay),
        "C13" => c13::run(tier, replay),
        _ => {
            eprintln!("usage: typed_harness C11|C12|C13 quick|thorough [--replay file]");
            2
        }
    };
    std::process::exit(code);
}
