//! C12: generated flag types obey set algebra over exactly their declared bits.
use crate::adapters::*;
use crate::c11::{crate_private_type_exists, effective_nss, expected_base_value, int_info};
use proptest::prelude::*;
use serde_json::json;
use std::collections::{BTreeMap, BTreeSet};
use vcommon::{Check, Tier};
use wowm_model::ast::DefinerKind;
use wowm_model::parser::parse_int;
use wowm_model::resolve::*;

struct Def {
    enumerators: Vec<(String, i128)>,
    zero_always_valid: bool,
    bits: u32,
}

/// judges all observations of one (raw, arg) pair; returns (kind, detail) of the first disagreement per observation key class
fn judge(a: &FlagAdapter, d: &Def, raw: u128, arg: u128) -> Vec<(String, String)> {
    let mask: u128 = if d.bits >= 128 { u128::MAX } else { (1u128 << d.bits) - 1 };
    // the Rust inner type of a u48 flag is u64
    let (ibits, _) = int_info(a.inner).unwrap_or((d.bits, false));
    let imask: u128 = if ibits >= 128 { u128::MAX } else { (1u128 << ibits) - 1 };
    let r = (raw & imask) as i128;
    let ar = (arg & imask) as i128;
    let _ = mask;
    let obs = match std::panic::catch_unwind(|| (a.probe)(raw, arg)) {
        Ok(o) => o,
        Err(_) => return vec![("panic".into(), format!("probing raw {:#x} panicked", raw))],
    };
    let val = |name: &str| d.enumerators.iter().find(|(n, _)| n == name).map(|(_, v)| *v);
    let mut bad = Vec::new();
    let mut seen_consts = BTreeSet::new();
    let mut inputs: BTreeMap<String, i128> = BTreeMap::new();
    for (k, got) in &obs {
        let (op, name) = k.split_once(':').unwrap_or((k.as_str(), ""));
        let want: Option<i128> = match op {
            "const" => {
                seen_consts.insert(name.to_string());
                match val(name) {
                    Some(v) => Some(v),
                    None => {
                        bad.push(("const-not-declared".to_string(), format!("constant {} is not an enumerator of the wowm flag", name)));
                        None
                    }
                }
            }
            "new" if name.is_empty() => Some(r),
            "as_int" => Some(r),
            "is" => val(name).map(|x| ((r & x != 0) || (d.zero_always_valid && r == 0)) as i128),
            "new" => val(name),
            "set" | "set_ret" => val(name).map(|x| r | x),
            "clear" | "clear_ret" => val(name).map(|x| r & !x & imask as i128),
            "empty" => Some(0),
            "all" => Some(d.enumerators.iter().fold(0i128, |acc, (_, v)| acc | v)),
            "is_empty" => Some((r == 0) as i128),
            "bitor" | "bitor_assign" => Some(r | ar),
            "bitand" | "bitand_assign" => Some(r & ar),
            "bitxor" | "bitxor_assign" => Some(r ^ ar),
            "from_in" | "try_from_in" => {
                inputs.insert(name.to_string(), *got);
                None
            }
            "from" => inputs.get(name).and_then(|i| expected_base_value(*i, name, a.inner)),
            "try_from_ok" => inputs.get(name).map(|i| expected_base_value(*i, name, a.inner).is_some() as i128),
            "try_from" => inputs.get(name).map(|i| expected_base_value(*i, name, a.inner).unwrap_or(-1)),
            _ => None,
        };
        if let Some(w) = want {
            if w != *got {
                let class = match op {
                    "set_ret" => "set",
                    "clear_ret" => "clear",
                    "bitor_assign" => "bitor",
                    "bitand_assign" => "bitand",
                    "bitxor_assign" => "bitxor",
                    "try_from_ok" => "try_from",
                    o => o,
                };
                // two recorded findings have exact, recognisable wrong formulas; anything else keeps its own signature
                let mut class = class.to_string();
                if class == "clear" {
                    if let Some(x) = val(name) {
                        let rev = (x as u128 as u64).reverse_bits() >> (64 - ibits.min(64));
                        if *got == r & (rev as i128) {
                            class = "*clear-uses-reverse-bits".into();
                        }
                    }
                }
                if class == "try_from" {
                    if let Some(i) = inputs.get(name) {
                        let (sb, ss) = int_info(name).unwrap_or((64, false));
                        if ss && *i < 0 && sb < ibits && (op == "try_from_ok" || *got == (*i as u128 & ((1u128 << sb) - 1)) as i128) {
                            class = "*try_from-negative-narrower-accepted".into();
                        }
                    }
                }
                bad.push((class, format!("{} on raw {:#x}{}: got {:#x}, the raw-integer reference gives {:#x}", k, r, if op.starts_with("bit") { format!(" and {:#x}", ar) } else { String::new() }, got, w)));
            }
        }
    }
    for (n, _) in &d.enumerators {
        if !seen_consts.contains(n) {
            bad.push(("const-missing".to_string(), format!("enumerator {} has no constant", n)));
        }
    }
    bad
}

pub fn run(tier: Tier, replay: Option<String>) -> i32 {
    let mut c = Check::new("C12", tier);
    let u = match wowm_model::load_corpus(&vcommon::repo_root()) {
        Ok(u) => u,
        Err(e) => {
            eprintln!("C12: {}", e);
            return 2;
        }
    };
    let adapters = flag_adapters();
    let mut defs: Vec<Option<Def>> = Vec::new();
    let mut seen_model: BTreeSet<(String, String)> = BTreeSet::new();
    for a in &adapters {
        let mut all: Vec<Vec<(String, i128)>> = Vec::new();
        let mut zav = false;
        let mut bits = 32;
        for ns in effective_nss(&u, a.name, a.nss) {
            match u.lookup(ns, a.name) {
                Some(o) => match o.definer() {
                    Some(d) if d.kind == DefinerKind::Flag => {
                        seen_model.insert((ns.text(), a.name.to_string()));
                        all.push(d.members.iter().map(|m| (m.name.clone(), parse_int(&m.value_text).unwrap_or(-1))).collect());
                        zav = o.tags.is_true("zero_is_always_valid");
                        bits = int_info(&d.base).map(|x| x.0).unwrap_or(32);
                    }
                    _ => {
                        c.fail(&format!("c12:{}:kind", a.path), "the wowm definition of this name is not a flag", json!({"flag": a.path}));
                    }
                },
                None => {
                    c.fail(&format!("c12:{}:not-in-sources", a.path), &format!("library flag type has no wowm definition named {} in {}", a.name, ns.text()), json!({"flag": a.path}));
                }
            }
        }
        if all.windows(2).any(|w| w[0] != w[1]) {
            c.fail(&format!("c12:{}:shared-type-definitions-differ", a.path), "one Rust type stands for wowm definitions that differ", json!({"flag": a.path}));
        }
        defs.push(all.into_iter().next().map(|e| Def { enumerators: e, zero_always_valid: zav, bits }));
    }
    for ns in Ns::all() {
        for i in u.objects_in(ns) {
            let o = &u.objects[i];
            if let Some(d) = o.definer() {
                if d.kind == DefinerKind::Flag && !o.is_test() && !seen_model.contains(&(ns.text(), d.name.clone())) {
                    if crate_private_type_exists(&d.name, "struct") {
                        c.count("wowm_flags_whose_rust_type_is_crate_private");
                        continue;
                    }
                    c.fail(&format!("c12:{}/{}:missing-in-library", ns.text(), d.name), "wowm flag has no generated Rust flag type found by the scan", json!({"ns": ns.text(), "flag": d.name}));
                }
            }
        }
    }
    if let Some(p) = replay {
        let j = vcommon::read_json(std::path::Path::new(&p));
        let Some(ai) = adapters.iter().position(|a| a.path == j["flag"].as_str().unwrap_or("")) else { return 2 };
        let raw = u128::from_str_radix(j["raw"].as_str().unwrap_or("0").trim_start_matches("0x"), 16).unwrap_or(0);
        let arg = u128::from_str_radix(j["arg"].as_str().unwrap_or("0").trim_start_matches("0x"), 16).unwrap_or(0);
        let Some(d) = &defs[ai] else { return 2 };
        let bad = judge(&adapters[ai], d, raw, arg);
        for (k, m) in &bad {
            println!("  {}: {}", k, m);
        }
        if bad.is_empty() {
            println!("replay: holds");
            return 0;
        }
        println!("VIOLATION property=C12 replay={}", p);
        return 1;
    }
    c.rule = "every public flag type found by scanning /repo's generated sources, matched to its wowm definition (a type on one side only is a failure). Raw values: 0, all-ones, every single bit of the base width, every declared constant, unions of declared constants, constants with one extra undeclared bit, and proptest values; second operands likewise. Oracle = the raw integer: CONST == wowm value; is_x(v) <=> v & X != 0 (or v == 0 when zero_is_always_valid); set_x => v | X; clear_x => v & !X (all other bits unchanged); new_x, empty, all, is_empty, | & ^ and their assign forms, From/TryFrom value-preserving (same width, other signedness: bitwise). Non-trivial = raw value with at least one bit set that is not in the operated enumerator; distinct = (flag type, raw, arg).".into();
    c.assume("synthesised message-local flag structs (conditional members) are exercised through the codecs by C01; this check covers the ~55 stand-alone flag types");
    let seed = c.seed;
    let mut reported: BTreeSet<String> = BTreeSet::new();
    for (ai, a) in adapters.iter().enumerate() {
        let Some(d) = &defs[ai] else { continue };
        c.count("flag_types");
        let (ibits, _) = int_info(a.inner).unwrap_or((32, false));
        let full: u128 = if ibits >= 128 { u128::MAX } else { (1u128 << ibits) - 1 };
        let mut raws: Vec<u128> = vec![0, full];
        for b in 0..ibits {
            raws.push(1u128 << b);
            raws.push(full ^ (1u128 << b));
        }
        let mut uni = 0u128;
        for (_, v) in &d.enumerators {
            raws.push(*v as u128);
            uni |= *v as u128;
            raws.push(uni);
            raws.push((*v as u128) | 1u128 << (ibits - 1));
            raws.push((*v as u128) | 1);
        }
        raws.push(full & !uni);
        let mut handle = |c: &mut Check, raw: u128, arg: u128| {
            c.eval();
            if raw != 0 && raw.count_ones() >= 2 {
                c.nontrivial(vcommon::fnv(format!("{}|{:x}|{:x}", a.path, raw, arg).as_bytes()));
            }
            for (k, m) in judge(a, d, raw, arg) {
                if let Some(generic) = k.strip_prefix('*') {
                    // recorded finding of the printer, common to all flag types
                    c.count(&format!("finding.{}", generic));
                    if reported.insert(format!("{}:{}", a.path, k)) {
                        c.fail(&format!("c12:*:{}", generic), &format!("{}: {}", a.path, m), json!({"flag": a.path, "raw": format!("{:#x}", raw), "arg": format!("{:#x}", arg)}));
                    }
                    continue;
                }
                if reported.insert(format!("{}:{}", a.path, k)) {
                    c.fail(&format!("c12:{}:{}", a.path, k), &m, json!({"flag": a.path, "raw": format!("{:#x}", raw), "arg": format!("{:#x}", arg)}));
                }
            }
        };
        for (i, raw) in raws.iter().enumerate() {
            let arg = raws[(i * 7 + 3) % raws.len()];
            handle(&mut c, *raw, arg);
        }
        let strat = (any::<u64>(), any::<u64>(), 0u8..3);
        let mut pend = Vec::new();
        let _ = vcommon::prop_search(seed, vcommon::fnv(a.path.as_bytes()), tier.pick(1000, 100_000), &strat, |(x, y, shape), counting| {
            if counting {
                let (x, y) = match shape {
                    0 => (*x as u128, *y as u128),
                    1 => ((*x as u128) & uni, (*y as u128) & uni),
                    _ => ((*x & *y) as u128, (*x | *y) as u128),
                };
                pend.push((x & full, y & full));
            }
            Ok(())
        });
        for (x, y) in pend {
            handle(&mut c, x, y);
        }
        if c.samples.len() < 6 && ai % 9 == 2 {
            let raw = uni | 1u128 << (ibits - 1);
            let o = (a.probe)(raw, 0);
            c.sample(json!({"flag": a.path, "inner": a.inner, "raw": format!("{:#x}", raw), "observations": o.iter().filter(|(k, _)| k.starts_with("clear:") || k.starts_with("is:")).take(6).map(|(k, v)| format!("{}={:#x}", k, v)).collect::<Vec<_>>()}));
        }
    }
    c.extra.insert("flag_types_scanned".into(), json!(adapters.len()));
    // message-local flag structs: the integer their typed constructors produce is the declared enumerator
    let synth = synth_adapters();
    let (mut cases, mut skipped) = (0u64, 0u64);
    for a in &synth {
        for case in &a.cases {
            let (Some(newf), Some(setf)) = (case.new, case.set) else {
                skipped += 1;
                continue;
            };
            for nsname in a.nss {
                let Some(ns) = Ns::all().into_iter().find(|n| n.text() == *nsname) else { continue };
                let Some(d) = u.lookup(ns, a.flag).and_then(|o| o.definer()) else {
                    c.fail(&format!("c12:synth:{}:flag-not-in-sources", a.path), &format!("{} is built on flag {} which {} does not define", a.path, a.flag, nsname), json!({"type": a.path}));
                    continue;
                };
                let Some(want) = d.members.iter().find(|m| m.name == case.constant).and_then(|m| parse_int(&m.value_text)) else {
                    c.fail(&format!("c12:synth:{}:{}:enumerator-not-in-sources", a.path, case.method), &format!("constructor {} of {} stands for enumerator {} which flag {} does not declare in {}", case.method, a.path, case.constant, a.flag, nsname), json!({"type": a.path}));
                    continue;
                };
                cases += 1;
                c.eval();
                c.nontrivial(vcommon::fnv(format!("synth|{}|{}", a.path, case.method).as_bytes()));
                for (which, f) in [("new", newf), ("set", setf)] {
                    let got = std::panic::catch_unwind(f).unwrap_or(i128::MIN);
                    if got != want {
                        c.fail(&format!("c12:synth:{}:{}:{}-gives-other-bits", a.path, case.method, which), &format!("{}::{}_{} yields inner {:#x}, the wowm enumerator {}::{} is {:#x} ({})", a.path, which, case.method.split(':').next().unwrap_or(""), got, a.flag, case.constant, want, nsname), json!({"type": a.path, "method": case.method, "got": got.to_string(), "want": want.to_string()}));
                    }
                }
                if c.samples.len() < 10 && cases % 97 == 0 {
                    c.sample(json!({"type": a.path, "constructor": case.method, "enumerator": case.constant, "value": format!("{:#x}", want)}));
                }
            }
        }
    }
    c.extra.insert("message_local_flag_structs_scanned".into(), json!(synth.len()));
    c.extra.insert("message_local_constructor_cases".into(), json!(cases));
    c.extra.insert("message_local_constructors_not_constructible_with_default".into(), json!(skipped));
    c.finish()
}
