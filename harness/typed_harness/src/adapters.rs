//! Uniform adapters over the generated enum types, flag types and update-mask accessors. The table
//! of what exists is produced by build.rs from /repo's sources; what must hold comes from the model.
#![allow(clippy::all, unused_parens, unused_mut)]

#[derive(Debug, Clone, PartialEq)]
pub enum Probe {
    NotRepresentable,
    Ok { name: String, as_int: i128 },
    Err { value: i128 },
    /// the library has no TryFrom impl for this source type
    NoSuchConversion,
}

pub struct EnumAdapter {
    pub name: &'static str,
    pub path: &'static str,
    pub base: &'static str,
    pub nss: &'static [&'static str],
    /// src: "from_int" (base type) or the name of a TryFrom source type
    pub probe: fn(&str, i128) -> Probe,
    pub variants: fn() -> Vec<(String, i128)>,
}

pub const SOURCES: [&str; 10] = ["from_int", "u8", "u16", "u32", "u64", "i8", "i16", "i32", "i64", "usize"];

pub fn via<S, T, E>(v: i128, conv: impl Fn(Result<T, E>) -> Probe) -> Probe
where
    S: TryFrom<i128>,
    T: TryFrom<S, Error = E>,
{
    match S::try_from(v) {
        Ok(x) => conv(T::try_from(x)),
        Err(_) => Probe::NotRepresentable,
    }
}

macro_rules! enum_adapter {
    ($T:path, $name:expr, $base:ty, $path:expr, $err:ty, [$($ns:expr),*], srcs: [$($src:ident),*], as_int: $pub_as_int:tt) => {
        EnumAdapter {
            name: $name,
            path: $path,
            base: stringify!($base),
            nss: &[$($ns),*],
            probe: |src, v| {
                fn conv(r: Result<$T, $err>) -> Probe {
                    match r {
                        Ok(e) => Probe::Ok { name: format!("{:?}", e), as_int: enum_adapter!(@as_int $pub_as_int, e) },
                        Err(e) => Probe::Err { value: e.value },
                    }
                }
                if src == "from_int" {
                    return match <$base>::try_from(v) {
                        Ok(x) => conv(<$T>::from_int(x)),
                        Err(_) => Probe::NotRepresentable,
                    };
                }
                $( if src == stringify!($src) { return via::<$src, $T, $err>(v, conv); } )*
                Probe::NoSuchConversion
            },
            variants: || <$T>::variants().iter().map(|e| (format!("{:?}", e), enum_adapter!(@as_int $pub_as_int, e))).collect(),
        }
    };
    (@as_int true, $e:expr) => { $e.as_int() as i128 };
    // as_int is not public for this type
    (@as_int false, $e:expr) => { { let _ = &$e; i128::MIN } };
}

pub struct FlagAdapter {
    pub name: &'static str,
    pub path: &'static str,
    pub inner: &'static str,
    pub nss: &'static [&'static str],
    /// observations for a raw value and a second operand; see `c12`
    pub probe: fn(u128, u128) -> Vec<(String, i128)>,
}

macro_rules! flag_adapter {
    ($T:path, $name:expr, $inner:ty, $path:expr, [$($ns:expr),*], consts: [$($c:ident),*], is: [$(($ic:ident, $im:ident)),*], new: [$(($nc:ident, $nm:ident)),*],
     set: [$(($sc:ident, $sm:ident)),*], clear: [$(($cc:ident, $cm:ident)),*], from: [$($f:ty),*], try_from: [$($tf:ty),*], empty: $empty:tt, all: $all:tt, is_empty: $is_empty:tt, as_int: $pub_as_int:tt) => {
        FlagAdapter {
            name: $name,
            path: $path,
            inner: stringify!($inner),
            nss: &[$($ns),*],
            probe: |raw, arg| {
                type T = $T;
                let r = raw as $inner;
                let a = arg as $inner;
                let mut o: Vec<(String, i128)> = Vec::new();
                $( o.push((format!("const:{}", stringify!($c)), T::$c as i128)); )*
                o.push(("new".into(), raw_of(&T::new(r))));
                flag_adapter!(@opt $pub_as_int, o, "as_int", T::new(r).as_int() as i128);
                $( o.push((format!("is:{}", stringify!($ic)), T::new(r).$im() as i128)); )*
                $( o.push((format!("new:{}", stringify!($nc)), raw_of(&T::$nm()))); )*
                $( { let mut x = T::new(r); let ret = x.$sm(); o.push((format!("set:{}", stringify!($sc)), raw_of(&x))); o.push((format!("set_ret:{}", stringify!($sc)), raw_of(&ret))); } )*
                $( { let mut x = T::new(r); let ret = x.$cm(); o.push((format!("clear:{}", stringify!($cc)), raw_of(&x))); o.push((format!("clear_ret:{}", stringify!($cc)), raw_of(&ret))); } )*
                flag_adapter!(@opt $empty, o, "empty", raw_of(&T::empty()));
                flag_adapter!(@opt $all, o, "all", raw_of(&T::all()));
                flag_adapter!(@opt $is_empty, o, "is_empty", T::new(r).is_empty() as i128);
                o.push(("bitor".into(), raw_of(&(T::new(r) | T::new(a)))));
                o.push(("bitand".into(), raw_of(&(T::new(r) & T::new(a)))));
                o.push(("bitxor".into(), raw_of(&(T::new(r) ^ T::new(a)))));
                { let mut x = T::new(r); x |= T::new(a); o.push(("bitor_assign".into(), raw_of(&x))); }
                { let mut x = T::new(r); x &= T::new(a); o.push(("bitand_assign".into(), raw_of(&x))); }
                { let mut x = T::new(r); x ^= T::new(a); o.push(("bitxor_assign".into(), raw_of(&x))); }
                $( { let s = raw as $f; o.push((format!("from_in:{}", stringify!($f)), s as i128)); o.push((format!("from:{}", stringify!($f)), raw_of(&T::from(s)))); } )*
                $( { let s = raw as $tf; o.push((format!("try_from_in:{}", stringify!($tf)), s as i128)); o.push((format!("try_from:{}", stringify!($tf)), match T::try_from(s) { Ok(x) => raw_of(&x), Err(_) => -1 })); o.push((format!("try_from_ok:{}", stringify!($tf)), T::try_from(s).is_ok() as i128)); } )*
                o
            },
        }
    };
    (@opt true, $o:ident, $k:expr, $e:expr) => { $o.push(($k.into(), $e)); };
    (@opt false, $o:ident, $k:expr, $e:expr) => {};
}

/// the raw value of a flag type, read from its derived Debug output (`Name { inner: 5 }`)
pub fn raw_of<T: std::fmt::Debug>(t: &T) -> i128 {
    let d = format!("{:?}", t);
    match d.find("inner: ") {
        Some(i) => d[i + 7..].chars().take_while(|c| c.is_ascii_digit() || *c == '-').collect::<String>().parse::<i128>().unwrap_or(i128::MIN),
        None => i128::MIN,
    }
}

/// one update mask object of some (expansion, kind), driven by accessor names
pub trait MaskObj {
    /// false when there is no such accessor
    fn set(&mut self, name: &str, val: u64) -> bool;
    /// None = no such accessor; Some(None) = field never set
    fn get(&self, name: &str) -> Option<Option<Vec<u32>>>;
    fn dirty_reset(&mut self);
    fn mark_fully_dirty(&mut self);
    fn has_any_dirty_fields(&self) -> bool;
    fn is_bit_dirty(&self, bit: u16) -> bool;
    /// bytes of an SMSG_UPDATE_OBJECT (VALUES) carrying the mask, written by the public writer
    fn carrier(&self) -> Result<Vec<u8>, String>;
    /// indexed accessor `set_<name>(Default::default(), index)`; None = no such accessor / ordinal out of range
    fn set_indexed(&mut self, name: &str, ordinal: u16) -> Option<()>;
    /// Some(is_some) of the indexed getter
    fn get_indexed(&self, name: &str, ordinal: u16) -> Option<bool>;
    /// indexed accessor with a value whose members are all distinct; returns the members by name as integers
    fn set_indexed_value(&mut self, name: &str, ordinal: u16, salt: u64) -> Option<Vec<(&'static str, Vec<u64>)>>;
    /// does the indexed getter return exactly the value `set_indexed_value` builds for `salt`
    fn get_indexed_equals(&self, name: &str, ordinal: u16, salt: u64) -> Option<bool>;
    /// accessor `set_<name>(slot enum, Guid)`; None = no such accessor / ordinal is not a slot
    fn set_slot_guid(&mut self, name: &str, ordinal: u16, val: u64) -> Option<()>;
    /// Some(getter result) of the slot accessor
    fn get_slot_guid(&self, name: &str, ordinal: u16) -> Option<Option<u64>>;
}

pub struct UmKind {
    pub exp: &'static str,
    pub kind: &'static str,
    /// (name, signature class, also settable through the builder)
    pub accessors: &'static [(&'static str, &'static str, bool)],
    pub custom: &'static [&'static str],
    /// accessors taking (value struct, index enum)
    pub indexed: &'static [&'static str],
    /// wowm struct name of the value type of each indexed accessor
    pub indexed_types: &'static [&'static str],
    /// accessors taking (slot enum, Guid)
    pub slotguid: &'static [&'static str],
    pub new: fn() -> Box<dyn MaskObj>,
    /// Builder::new().set_<name>(val).finalize()
    pub build: fn(&str, u64) -> Option<Box<dyn MaskObj>>,
}

/// the u32 words an accessor of signature class `sig` writes for tape value `val`
pub fn words_of(sig: &str, val: u64) -> Vec<u32> {
    match sig {
        "f32" => vec![sane_f32(val as u32).to_bits()],
        "guid" => vec![val as u32, (val >> 32) as u32],
        _ => vec![val as u32],
    }
}

pub fn dirty_bits(m: &dyn MaskObj) -> Vec<u16> {
    let mut v = Vec::new();
    for b in 0..4096u16 {
        match std::panic::catch_unwind(std::panic::AssertUnwindSafe(|| m.is_bit_dirty(b))) {
            Ok(true) => v.push(b),
            Ok(false) => {}
            Err(_) => break,
        }
    }
    v
}

macro_rules! um_carrier {
    (vanilla, $mask:expr) => {{
        use wow_world_messages::vanilla::*;
        let m = SMSG_UPDATE_OBJECT { has_transport: 0, objects: vec![Object::Values { guid1: wow_world_messages::Guid::new(1), mask1: $mask }] };
        let mut v = Vec::new();
        m.write_unencrypted_server(&mut v).map(|_| v).map_err(|e| format!("{:?}", e))
    }};
    (tbc, $mask:expr) => {{
        use wow_world_messages::tbc::*;
        let m = SMSG_UPDATE_OBJECT { has_transport: 0, objects: vec![Object::Values { guid1: wow_world_messages::Guid::new(1), mask1: $mask }] };
        let mut v = Vec::new();
        m.write_unencrypted_server(&mut v).map(|_| v).map_err(|e| format!("{:?}", e))
    }};
    (wrath, $mask:expr) => {{
        use wow_world_messages::wrath::*;
        let m = SMSG_UPDATE_OBJECT { objects: vec![Object::Values { guid1: wow_world_messages::Guid::new(1), mask1: $mask }] };
        let mut v = Vec::new();
        m.write_unencrypted_server(&mut v).map(|_| v).map_err(|e| format!("{:?}", e))
    }};
}

macro_rules! um_kind {
    ($exp:ident, $T:ident, $B:ident, $V:ident, [$(($get:ident, $set:ident, $sig:ident, $hb:tt)),*], custom: [$($c:expr),*], indexed: [$(($iget:ident, $iset:ident, $ival:ty, $iidx:ident, $imk:ident, $isn:expr)),*], slotguid: [$(($sget:ident, $sset:ident, $sty:ty)),*]) => {{
        struct Obj(wow_world_messages::$exp::$T);
        impl MaskObj for Obj {
            fn set(&mut self, name: &str, val: u64) -> bool {
                $( if name == stringify!($get) { um_kind!(@call $sig, self.0, $set, val); return true; } )*
                let _ = val;
                false
            }
            fn get(&self, name: &str) -> Option<Option<Vec<u32>>> {
                $( if name == stringify!($get) { return Some(um_kind!(@get $sig, self.0.$get())); } )*
                None
            }
            fn dirty_reset(&mut self) {
                self.0.dirty_reset()
            }
            fn mark_fully_dirty(&mut self) {
                self.0.mark_fully_dirty()
            }
            fn has_any_dirty_fields(&self) -> bool {
                self.0.has_any_dirty_fields()
            }
            fn is_bit_dirty(&self, bit: u16) -> bool {
                self.0.is_bit_dirty(bit)
            }
            fn carrier(&self) -> Result<Vec<u8>, String> {
                let mask = wow_world_messages::$exp::UpdateMask::$V(self.0.clone());
                match std::panic::catch_unwind(std::panic::AssertUnwindSafe(|| um_carrier!($exp, mask))) {
                    Ok(r) => r,
                    Err(_) => Err("write panicked (size() != bytes written, or bookkeeping assertion)".into()),
                }
            }
            fn set_indexed(&mut self, name: &str, ordinal: u16) -> Option<()> {
                $( if name == stringify!($iget) {
                    let idx = <wow_world_messages::$exp::$iidx>::try_from(ordinal).ok()?;
                    self.0.$iset(<$ival>::default(), idx);
                    return Some(());
                } )*
                let _ = ordinal;
                None
            }
            fn get_indexed(&self, name: &str, ordinal: u16) -> Option<bool> {
                $( if name == stringify!($iget) {
                    let idx = <wow_world_messages::$exp::$iidx>::try_from(ordinal).ok()?;
                    return Some(self.0.$iget(idx).is_some());
                } )*
                let _ = ordinal;
                None
            }
            fn set_indexed_value(&mut self, name: &str, ordinal: u16, salt: u64) -> Option<Vec<(&'static str, Vec<u64>)>> {
                $( if name == stringify!($iget) {
                    let idx = <wow_world_messages::$exp::$iidx>::try_from(ordinal).ok()?;
                    let (v, members) = $imk(salt);
                    self.0.$iset(v, idx);
                    return Some(members);
                } )*
                let _ = (ordinal, salt);
                None
            }
            fn get_indexed_equals(&self, name: &str, ordinal: u16, salt: u64) -> Option<bool> {
                $( if name == stringify!($iget) {
                    let idx = <wow_world_messages::$exp::$iidx>::try_from(ordinal).ok()?;
                    let (v, _) = $imk(salt);
                    return Some(self.0.$iget(idx) == Some(v));
                } )*
                let _ = (ordinal, salt);
                None
            }
            fn set_slot_guid(&mut self, name: &str, ordinal: u16, val: u64) -> Option<()> {
                $( if name == stringify!($sget) {
                    let slot = <$sty as TryFrom<u64>>::try_from(ordinal as u64).ok()?;
                    self.0.$sset(slot, wow_world_messages::Guid::new(val));
                    return Some(());
                } )*
                let _ = (ordinal, val);
                None
            }
            fn get_slot_guid(&self, name: &str, ordinal: u16) -> Option<Option<u64>> {
                $( if name == stringify!($sget) {
                    let slot = <$sty as TryFrom<u64>>::try_from(ordinal as u64).ok()?;
                    return Some(self.0.$sget(slot).map(|g| g.guid()));
                } )*
                let _ = ordinal;
                None
            }
        }
        UmKind {
            exp: stringify!($exp),
            kind: stringify!($T),
            accessors: &[$((stringify!($get), stringify!($sig), $hb)),*],
            custom: &[$($c),*],
            indexed: &[$(stringify!($iget)),*],
            indexed_types: &[$($isn),*],
            slotguid: &[$(stringify!($sget)),*],
            new: || Box::new(Obj(<wow_world_messages::$exp::$T>::new())),
            build: |name, val| {
                $( if name == stringify!($get) { return um_kind!(@builder $hb, $exp, $B, $set, $sig, val).map(|m| Box::new(Obj(m)) as Box<dyn MaskObj>); } )*
                let _ = val;
                None
            },
        }
    }};
    (@call i32, $m:expr, $set:ident, $v:expr) => { $m.$set($v as u32 as i32) };
    (@call f32, $m:expr, $set:ident, $v:expr) => { $m.$set(sane_f32($v as u32)) };
    (@call guid, $m:expr, $set:ident, $v:expr) => { $m.$set(wow_world_messages::Guid::new($v)) };
    (@call bytes, $m:expr, $set:ident, $v:expr) => { $m.$set($v as u8, ($v >> 8) as u8, ($v >> 16) as u8, ($v >> 24) as u8) };
    (@call shorts, $m:expr, $set:ident, $v:expr) => { $m.$set($v as u16, ($v >> 16) as u16) };
    (@builder false, $exp:ident, $B:ident, $set:ident, $sig:ident, $v:expr) => { None::<wow_world_messages::$exp::$B>.map(|b| b.finalize()) };
    (@builder true, $exp:ident, $B:ident, $set:ident, i32, $v:expr) => { Some(<wow_world_messages::$exp::$B>::new().$set($v as u32 as i32).finalize()) };
    (@builder true, $exp:ident, $B:ident, $set:ident, f32, $v:expr) => { Some(<wow_world_messages::$exp::$B>::new().$set(sane_f32($v as u32)).finalize()) };
    (@builder true, $exp:ident, $B:ident, $set:ident, guid, $v:expr) => { Some(<wow_world_messages::$exp::$B>::new().$set(wow_world_messages::Guid::new($v)).finalize()) };
    (@builder true, $exp:ident, $B:ident, $set:ident, bytes, $v:expr) => { Some(<wow_world_messages::$exp::$B>::new().$set($v as u8, ($v >> 8) as u8, ($v >> 16) as u8, ($v >> 24) as u8).finalize()) };
    (@builder true, $exp:ident, $B:ident, $set:ident, shorts, $v:expr) => { Some(<wow_world_messages::$exp::$B>::new().$set($v as u16, ($v >> 16) as u16).finalize()) };
    (@get i32, $e:expr) => { $e.map(|g| vec![g as u32]) };
    (@get f32, $e:expr) => { $e.map(|g| vec![g.to_bits()]) };
    (@get guid, $e:expr) => { $e.map(|g| vec![g.guid() as u32, (g.guid() >> 32) as u32]) };
    (@get bytes, $e:expr) => { $e.map(|(a, b, c, d)| vec![u32::from_le_bytes([a, b, c, d])]) };
    (@get shorts, $e:expr) => { $e.map(|(a, b)| vec![a as u32 | (b as u32) << 16]) };
}

/// a float whose bits survive set/get (no NaN)
pub fn sane_f32(bits: u32) -> f32 {
    let f = f32::from_bits(bits);
    if f.is_nan() {
        f32::from_bits(bits & 0x807f_ffff | 0x3f00_0000)
    } else {
        f
    }
}


/// message-local flag struct: what its typed constructors put into the integer
pub struct SynthCase {
    pub method: &'static str,
    /// enumerator of the wowm flag the constructor stands for
    pub constant: &'static str,
    pub new: Option<fn() -> i128>,
    pub set: Option<fn() -> i128>,
}

impl SynthCase {
    pub fn skipped(method: &'static str) -> Self {
        SynthCase { method, constant: "", new: None, set: None }
    }
}

pub struct SynthAdapter {
    pub path: &'static str,
    pub flag: &'static str,
    pub nss: &'static [&'static str],
    pub cases: Vec<SynthCase>,
}

#[macro_export]
macro_rules! synth_case {
    ($ty:path, $method:literal, $k:literal, $new:ident, $set:ident, ()) => {
        SynthCase { method: $method, constant: $k, new: Some(|| raw_of(&<$ty>::$new())), set: Some(|| raw_of(&<$ty>::empty().$set())) }
    };
    ($ty:path, $method:literal, $k:literal, $new:ident, $set:ident, ($arg:expr)) => {
        SynthCase { method: $method, constant: $k, new: Some(|| raw_of(&<$ty>::$new($arg))), set: Some(|| raw_of(&<$ty>::empty().$set($arg))) }
    };
}


include!(concat!(env!("OUT_DIR"), "/typed_tables.rs"));

