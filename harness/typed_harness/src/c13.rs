pub fn run(_tier: vcommon::Tier, _replay: Option<String>) -> i32 { 2 }
