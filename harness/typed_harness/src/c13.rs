//! C13: UpdateMask accessors, dirty tracking and wire form agree with the published field table.
use crate::adapters::*;
use proptest::prelude::*;
use serde_json::json;
use std::collections::{BTreeMap, BTreeSet};
use vcommon::{Check, Tier};
use wowm_model::frame::{decode, entries, Entry};
use wowm_model::resolve::*;
use wowm_model::walk::Val;

#[derive(Debug, Clone)]
struct TableEntry {
    offset: u16,
    size: u16,
    ty: String,
}

/// `wowm_language/src/types/update-mask.md`: per version, NAME -> (offset, size, type)
fn field_tables() -> BTreeMap<&'static str, BTreeMap<String, TableEntry>> {
    let text = std::fs::read_to_string(vcommon::repo_root().join("wowm_language/src/types/update-mask.md")).unwrap_or_default();
    let mut out: BTreeMap<&'static str, BTreeMap<String, TableEntry>> = BTreeMap::new();
    let mut cur: Option<&'static str> = None;
    for line in text.lines() {
        if let Some(v) = line.strip_prefix("### Version ") {
            cur = match v.trim() {
                "1.12" => Some("vanilla"),
                "2.4.3" => Some("tbc"),
                "3.3.5" => Some("wrath"),
                _ => None,
            };
            continue;
        }
        let Some(exp) = cur else { continue };
        if !line.starts_with("|`") {
            continue;
        }
        let cells: Vec<&str> = line.trim_matches('|').split('|').map(|c| c.trim()).collect();
        if cells.len() < 4 {
            continue;
        }
        let name = cells[0].trim_matches('`').to_string();
        let offset = u16::from_str_radix(cells[1].trim_start_matches("0x"), 16).unwrap_or(u16::MAX);
        let size = cells[2].parse::<u16>().unwrap_or(0);
        out.entry(exp).or_default().insert(name, TableEntry { offset, size, ty: cells[3].to_string() });
    }
    out
}

/// (bit, value) pairs of the update mask carried by an SMSG_UPDATE_OBJECT, read by the wowm model
fn wire_fields(u: &Universe, e: &Entry, bytes: &[u8]) -> Result<(usize, Vec<(u16, u32)>, Vec<u32>), String> {
    let d = decode(u, e, bytes)?;
    let mut fields = Vec::new();
    let mut blocks = 0usize;
    let mut masks = Vec::new();
    for l in &d.trace {
        if let Some(rest) = l.path.strip_prefix("objects[0].mask1") {
            if rest == ".<blocks>" {
                if let Val::I(n) = l.value {
                    blocks = n as usize;
                }
            } else if rest.starts_with(".<mask") {
                if let Val::I(n) = l.value {
                    masks.push(n as u32);
                }
            } else if let Some(b) = rest.strip_prefix('[').and_then(|r| r.strip_suffix(']')) {
                if let (Ok(bit), Val::I(v)) = (b.parse::<u16>(), &l.value) {
                    fields.push((bit, *v as u32));
                }
            }
        }
    }
    Ok((blocks, fields, masks))
}


struct LayoutMember {
    name: String,
    width: usize,
    count: usize,
    constant: Option<u64>,
}

/// byte layout of a plain wowm struct (fixed-size members only), read by the model
fn struct_layout(u: &Universe, ns: Ns, name: &str) -> Option<Vec<LayoutMember>> {
    use wowm_model::ast::{ArraySize, Member, TypeRef};
    let obj = u.lookup(ns, name)?;
    let cont = obj.container()?;
    let mut sizer = wowm_model::sizes::Sizer::new(u, ns);
    let mut out = Vec::new();
    for m in &cont.members {
        let Member::Field(f) = m else { return None };
        let (width, count) = match &f.ty {
            TypeRef::Simple { name, upcast } => {
                let iv = sizer.type_interval(name, upcast.as_deref());
                if !iv.is_constant() {
                    return None;
                }
                (iv.min as usize, 1usize)
            }
            TypeRef::Array { inner, size: ArraySize::Fixed(n) } => {
                let iv = sizer.type_interval(inner, None);
                if !iv.is_constant() {
                    return None;
                }
                (iv.min as usize, *n as usize)
            }
            _ => return None,
        };
        if width == 0 || width > 8 {
            return None;
        }
        let constant = match &f.value {
            Some(v) => Some(wowm_model::parser::parse_int(v)? as u64),
            None => None,
        };
        out.push(LayoutMember { name: f.name.clone(), width, count, constant });
    }
    Some(out)
}

#[derive(Debug, Clone, Default)]
struct Model {
    values: BTreeMap<u16, u32>,
    present: BTreeSet<u16>,
    dirty: BTreeSet<u16>,
    blocks: usize,
    /// mark_fully_dirty sets every bit of the existing blocks
    all_dirty_blocks: usize,
}

impl Model {
    fn new(type_value: u32) -> Self {
        let mut m = Model::default();
        m.values.insert(2, type_value);
        m.present.insert(2);
        m.dirty.insert(2);
        m.blocks = 1;
        m
    }
    fn set(&mut self, offset: u16, words: &[u32]) {
        for (i, w) in words.iter().enumerate() {
            let b = offset + i as u16;
            self.values.insert(b, *w);
            self.present.insert(b);
            self.dirty.insert(b);
            self.blocks = self.blocks.max(b as usize / 32 + 1);
        }
    }
    fn is_dirty(&self, b: u16) -> bool {
        self.dirty.contains(&b) || (b as usize) < self.all_dirty_blocks * 32
    }
    fn written(&self) -> Vec<(u16, u32)> {
        self.present.iter().filter(|b| self.is_dirty(**b)).map(|b| (*b, self.values[b])).collect()
    }
}

#[derive(Debug, Clone)]
enum Op {
    Set(usize, u64),
    DirtyReset,
    MarkFullyDirty,
    Write,
}

struct Field {
    name: &'static str,
    sig: &'static str,
    offset: u16,
}

fn type_value(kind: &str) -> u32 {
    1 | match kind {
        "UpdateItem" => 0x2,
        "UpdateContainer" => 0x2 | 0x4,
        "UpdateUnit" => 0x8,
        "UpdatePlayer" => 0x8 | 0x10,
        "UpdateGameObject" => 0x20,
        "UpdateDynamicObject" => 0x40,
        _ => 0x80,
    }
}

/// runs a history on a fresh mask and the model; Err = (kind, detail)
fn run_history(u: &Universe, carrier_entry: &Entry, k: &UmKind, fields: &[Field], ops: &[Op], read_back: &dyn Fn(&[u8]) -> Result<(String, Vec<u8>), String>) -> Result<(), (String, String)> {
    let mut obj = (k.new)();
    let mut m = Model::new(type_value(k.kind));
    for (step, op) in ops.iter().enumerate() {
        match op {
            Op::Set(fi, val) => {
                let f = &fields[*fi % fields.len()];
                obj.set(f.name, *val);
                m.set(f.offset, &words_of(f.sig, *val));
            }
            Op::DirtyReset => {
                obj.dirty_reset();
                m.dirty.clear();
                m.all_dirty_blocks = 0;
            }
            Op::MarkFullyDirty => {
                obj.mark_fully_dirty();
                m.all_dirty_blocks = m.blocks;
            }
            Op::Write => {
                let bytes = obj.carrier().map_err(|e| ("write-failed".to_string(), format!("step {}: {}", step, e)))?;
                let (blocks, wire, masks) = wire_fields(u, carrier_entry, &bytes).map_err(|e| ("written-form-unreadable".to_string(), format!("step {}: the model cannot read the written message: {}", step, e)))?;
                if blocks != m.blocks {
                    return Err(("block-count".into(), format!("step {}: {} mask blocks written, expected {}", step, blocks, m.blocks)));
                }
                let want = m.written();
                // the table does not prescribe which half of a two-u16 field comes first: either packing is accepted
                let wire: Vec<(u16, u32)> = wire.into_iter().map(|(b, w)| match want.iter().find(|(wb, _)| *wb == b) {
                    Some((_, ww)) if fields.iter().any(|f| f.sig == "shorts" && f.offset == b) && w == ww.rotate_left(16) => (b, *ww),
                    _ => (b, w),
                }).collect();
                if wire != want {
                    return Err(("written-fields".into(), format!("step {}: written fields {:?}, expected present-and-dirty in ascending index {:?}", step, wire, want)));
                }
                for (bi, mk) in masks.iter().enumerate() {
                    let exp: u32 = want.iter().filter(|(b, _)| *b as usize / 32 == bi).fold(0u32, |a, (b, _)| a | 1 << (b % 32));
                    if *mk != exp {
                        return Err(("mask-block".into(), format!("step {}: mask block {} is {:#x}, expected {:#x}", step, bi, mk, exp)));
                    }
                }
                // decoding a written form that carries the object-type field returns exactly the written fields
                if want.iter().any(|(b, _)| *b == 2) {
                    let (debug, rewritten) = read_back(&bytes).map_err(|e| ("read-back-rejected".to_string(), format!("step {}: {}", step, e)))?;
                    if rewritten != bytes {
                        return Err(("read-back-rewrite".into(), format!("step {}: decoding and re-encoding the written form changes the bytes", step)));
                    }
                    // `values: {2: 25, 22: 100}` in the Debug output of the decoded mask
                    if let Some(i) = debug.find("values: {") {
                        let body = &debug[i + 9..];
                        let end = body.find('}').unwrap_or(body.len());
                        let got: Vec<(u16, u32)> = body[..end].split(", ").filter_map(|kv| kv.split_once(": ")).filter_map(|(k, v)| Some((k.trim().parse().ok()?, v.trim().parse().ok()?))).collect();
                        let got: Vec<(u16, u32)> = got.into_iter().map(|(b, w)| match want.iter().find(|(wb, _)| *wb == b) {
                            Some((_, ww)) if fields.iter().any(|f| f.sig == "shorts" && f.offset == b) && w == ww.rotate_left(16) => (b, *ww),
                            _ => (b, w),
                        }).collect();
                        if got != want {
                            return Err(("read-back-fields".into(), format!("step {}: decoded fields {:?}, written {:?}", step, got, want)));
                        }
                    }
                }
            }
        }
        // invariants after every step
        for f in fields {
            let want: Option<Vec<u32>> = {
                let n = if f.sig == "guid" { 2 } else { 1 };
                if m.present.contains(&f.offset) {
                    Some((0..n).map(|i| m.values.get(&(f.offset + i)).copied().unwrap_or(0)).collect())
                } else {
                    None
                }
            };
            let got = obj.get(f.name).flatten();
            if got != want {
                return Err(("getter".into(), format!("step {} ({:?}): getter {} returns {:?}, last value set is {:?}", step, op, f.name, got, want)));
            }
        }
        let any = (0..(m.blocks * 32) as u16).any(|b| m.is_dirty(b));
        if obj.has_any_dirty_fields() != any {
            return Err(("has-any-dirty".into(), format!("step {} ({:?}): has_any_dirty_fields is {}", step, op, !any)));
        }
        for b in 0..(m.blocks * 32) as u16 {
            let got = std::panic::catch_unwind(std::panic::AssertUnwindSafe(|| obj.is_bit_dirty(b))).map_err(|_| ("is-bit-dirty-panic".to_string(), format!("step {}: is_bit_dirty({}) panicked", step, b)))?;
            if got != m.is_dirty(b) {
                return Err(("dirty-bit".into(), format!("step {} ({:?}): bit {} dirty = {}, expected {}", step, op, b, got, m.is_dirty(b))));
            }
        }
    }
    Ok(())
}

macro_rules! read_back_fn {
    ($exp:ident) => {
        |bytes: &[u8]| -> Result<(String, Vec<u8>), String> {
            use wow_world_messages::$exp::opcodes::ServerOpcodeMessage;
            let m = ServerOpcodeMessage::read_unencrypted(&mut std::io::Cursor::new(bytes)).map_err(|e| format!("{:?}", e))?;
            let mut v = Vec::new();
            m.write_unencrypted_server(&mut v).map_err(|e| format!("{:?}", e))?;
            Ok((format!("{:?}", m), v))
        }
    };
}

pub fn run(tier: Tier, replay: Option<String>) -> i32 {
    let mut c = Check::new("C13", tier);
    let u = match wowm_model::load_corpus(&vcommon::repo_root()) {
        Ok(u) => u,
        Err(e) => {
            eprintln!("C13: {}", e);
            return 2;
        }
    };
    if replay.is_some() {
        println!("C13 replays re-run the quick tier with the recorded seed");
        if let Some(p) = &replay {
            let j = vcommon::read_json(std::path::Path::new(p));
            c.seed = j["seed"].as_u64().unwrap_or(1);
        }
    }
    let all_entries = entries(&u);
    let tables = field_tables();
    let kinds = um_kinds();
    c.rule = "(a) every generated typed accessor of every object kind and expansion found by the scan: on a fresh mask after dirty_reset (and through the builder) the setter is called with tape values; the dirty bits (is_bit_dirty), the fields on the wire (SMSG_UPDATE_OBJECT written by the public writer, read back by the wowm model) and the getter must be exactly [offset, offset+width) / the value, with offset and enclosing [offset, offset+size) taken from the table of that name and version in types/update-mask.md (GUID accessors 2 words, others 1); indexed accessors (skill info, visible item): every slot addresses its own stride of the table entry, and the words written for a value with pairwise distinct members are the little-endian bytes of the wowm struct of that name and version, member by member (either half order inside a word of two 16-bit values); accessor instances (plain, indexed slot, inventory slot) that touch a common word without covering exactly the same words: set A, set B, get A must still return A's value (two plain names for exactly the same words are one field, counted); slot s of an inventory-style accessor is the GUID at words offset + 2s of its table entry. (b) histories: all sequences to depth 4 over {set f1..f5, dirty_reset, mark_fully_dirty, write} on a representative field set per kind (lowest, block-boundary and highest offsets, one of each signature class) and proptest sequences to length 40, against a model (values map, present set, dirty set, block count) with invariants after every step: getters, is_bit_dirty for every bit, has_any_dirty_fields, and on write: block count, mask blocks = present and dirty, values ascending, decoding a form that carries the TYPE field returns exactly the written fields and re-encodes identically. Non-trivial = history with a write after a dirty operation, or an accessor case; distinct = (expansion, kind, accessor) / (expansion, kind, operation sequence shape).".into();
    c.assume("accessors with custom argument types other than the indexed SkillInfo / VisibleItem structs (enum tuples) are counted, not exercised");
    c.assume("the size reported for the mask is observed through the writer's own 'declared size == bytes written' assertion");
    let seed = c.seed;
    let mut reported: BTreeSet<String> = BTreeSet::new();
    for k in &kinds {
        let Some(ns) = Ns::all().into_iter().find(|n| n.text() == k.exp) else { continue };
        let Some(carrier) = all_entries.iter().find(|e| e.ns == ns && e.name == "SMSG_UPDATE_OBJECT") else { continue };
        let table = tables.get(k.exp).cloned().unwrap_or_default();
        let read_back: Box<dyn Fn(&[u8]) -> Result<(String, Vec<u8>), String>> = match k.exp {
            "vanilla" => Box::new(read_back_fn!(vanilla)),
            "tbc" => Box::new(read_back_fn!(tbc)),
            _ => Box::new(read_back_fn!(wrath)),
        };
        c.count_n("accessors_with_custom_arguments_not_exercised", k.custom.len() as u64);
        let mut fields: Vec<Field> = Vec::new();
        // ---- (a) every accessor against the table
        for (name, sig, has_builder) in k.accessors {
            let tname = name.to_uppercase();
            let Some(te) = table.get(&tname) else {
                c.count("accessor_without_table_entry");
                if reported.insert(format!("{}:{}:{}", k.exp, k.kind, name)) {
                    c.fail(&format!("c13:{}:{}:{}:no-table-entry", k.exp, k.kind, name), &format!("accessor {} has no field named {} in the {} table", name, tname, k.exp), json!({"exp": k.exp, "kind": k.kind, "accessor": name}));
                }
                continue;
            };
            let width: u16 = if *sig == "guid" { 2 } else { 1 };
            for (vi, val) in [0xDEAD_BEEF_0BAD_F00Du64, vcommon::mix(seed, vcommon::fnv(name.as_bytes())), 1].iter().enumerate() {
                let words = words_of(sig, *val);
                for via_builder in [false, true] {
                    if via_builder && (!*has_builder || vi > 0) {
                        continue;
                    }
                    c.eval();
                    c.nontrivial(vcommon::fnv(format!("{}|{}|{}|{}", k.exp, k.kind, name, via_builder).as_bytes()));
                    let obj: Box<dyn MaskObj> = if via_builder {
                        match (k.build)(name, *val) {
                            Some(o) => o,
                            None => continue,
                        }
                    } else {
                        let mut o = (k.new)();
                        o.dirty_reset();
                        o.set(name, *val);
                        o
                    };
                    let mut fail = |c: &mut Check, kind: &str, detail: String| {
                        if reported.insert(format!("{}:{}:{}:{}", k.exp, k.kind, name, kind)) {
                            c.fail(&format!("c13:{}:{}:{}:{}", k.exp, k.kind, name, kind), &detail, json!({"exp": k.exp, "kind": k.kind, "accessor": name, "value": format!("{:#x}", val), "via_builder": via_builder, "table": {"offset": te.offset, "size": te.size, "type": te.ty}}));
                        }
                    };
                    let mut expect_bits: Vec<u16> = (te.offset..te.offset + width).collect();
                    if width > te.size.max(1) {
                        fail(&mut c, "wider-than-table-entry", format!("{} writes {} words but the table entry has size {}", name, width, te.size));
                    }
                    if via_builder {
                        // a mask built by the builder is fully dirty and carries the TYPE field
                        if !expect_bits.contains(&2) {
                            expect_bits.insert(0, 2);
                        }
                        expect_bits.sort();
                    }
                    let dirty = dirty_bits(obj.as_ref());
                    if dirty != expect_bits {
                        fail(&mut c, "dirty-bits", format!("dirty bits {:?}, the table says {} is at offset {} ({} word(s))", dirty, tname, te.offset, width));
                    }
                    match obj.get(name).flatten() {
                        Some(g) if g == words => {}
                        other => fail(&mut c, "getter", format!("getter returns {:?} after setting {:?}", other, words)),
                    }
                    match obj.carrier() {
                        Err(e) => fail(&mut c, "write-failed", e),
                        Ok(bytes) => match wire_fields(&u, carrier, &bytes) {
                            Err(e) => fail(&mut c, "written-form-unreadable", e),
                            Ok((_, wire, _)) => {
                                let swap16 = |w: u32| w.rotate_left(16);
                                let wire: Vec<(u16, u32)> = if *sig == "shorts" { wire.iter().map(|(b, w)| if *b == te.offset && *w == swap16(words[0]) { (*b, words[0]) } else { (*b, *w) }).collect() } else { wire };
                                let want: Vec<(u16, u32)> = expect_bits.iter().map(|b| if *b == 2 && via_builder && !(te.offset..te.offset + width).contains(&2) { (2, type_value(k.kind)) } else { (*b, words[(*b - te.offset) as usize]) }).collect();
                                if wire != want {
                                    fail(&mut c, "wire", format!("fields on the wire {:x?}, expected {:x?}", wire, want));
                                } else if c.samples.len() < 6 && c.evaluations % 701 == 5 {
                                    c.sample(json!({"exp": k.exp, "kind": k.kind, "accessor": name, "sig": sig, "table_offset": te.offset, "wire": format!("{:x?}", wire), "via_builder": via_builder}));
                                }
                            }
                        },
                    }
                }
            }
            fields.push(Field { name, sig, offset: te.offset });
        }
        // ---- (a2) indexed custom accessors: every index must address its own stride inside the table entry
        for name in k.indexed {
            let tname = name.to_uppercase();
            let Some(te) = table.get(&tname) else {
                c.count("indexed_accessor_without_table_entry");
                continue;
            };
            let mut n = 0u16;
            while (k.new)().set_indexed(name, n).is_some() {
                n += 1;
            }
            if n == 0 {
                continue;
            }
            let stride = te.size / n;
            c.count_n("indexed_accessor_slots", n as u64);
            for i in 0..n {
                c.eval();
                c.nontrivial(vcommon::fnv(format!("{}|{}|{}|{}", k.exp, k.kind, name, i).as_bytes()));
                let mut o = (k.new)();
                o.dirty_reset();
                o.set_indexed(name, i);
                let dirty = dirty_bits(o.as_ref());
                let (lo, hi) = (te.offset + stride * i, te.offset + stride * (i + 1));
                let mut fail = |c: &mut Check, kind: &str, detail: String| {
                    if reported.insert(format!("{}:{}:{}:{}", k.exp, k.kind, name, kind)) {
                        c.fail(&format!("c13:{}:{}:{}:{}", k.exp, k.kind, name, kind), &detail, json!({"exp": k.exp, "kind": k.kind, "accessor": name, "index": i, "table": {"offset": te.offset, "size": te.size}}));
                    }
                };
                if dirty.is_empty() || dirty.iter().any(|b| *b < lo || *b >= hi) {
                    fail(&mut c, "indexed-dirty-bits", format!("index {} of {} touches bits {:?}; the table puts slot {} at [{}, {}) ({} at {:#x}, {} words, {} slots)", i, name, dirty, i, lo, hi, tname, te.offset, te.size, n));
                }
                if o.get_indexed(name, i) != Some(true) {
                    fail(&mut c, "indexed-getter", format!("getter of index {} returns None after the setter", i));
                }
                for j in [i.wrapping_sub(1), i + 1, (i + 9) % n] {
                    if j < n && j != i && o.get_indexed(name, j) == Some(true) {
                        fail(&mut c, "indexed-getter-other-slot", format!("after setting index {} the getter of index {} returns a value", i, j));
                    }
                }
                match o.carrier() {
                    Err(e) => fail(&mut c, "write-failed", e),
                    Ok(bytes) => match wire_fields(&u, carrier, &bytes) {
                        Err(e) => fail(&mut c, "written-form-unreadable", e),
                        Ok((_, wire, _)) => {
                            let bits: Vec<u16> = wire.iter().map(|w| w.0).collect();
                            if bits != dirty {
                                fail(&mut c, "indexed-wire", format!("index {}: fields on the wire {:?} but dirty bits {:?}", i, bits, dirty));
                            }
                        }
                    },
                }
            }
        }
        // ---- (a3) indexed custom accessors: the words of every slot against the byte layout of the wowm struct
        for (name, sname) in k.indexed.iter().zip(k.indexed_types.iter()) {
            let tname = name.to_uppercase();
            let Some(te) = table.get(&tname) else { continue };
            let mut n = 0u16;
            while (k.new)().set_indexed(name, n).is_some() {
                n += 1;
            }
            if n == 0 {
                continue;
            }
            let stride = te.size / n;
            let Some(layout) = struct_layout(&u, ns, sname) else {
                c.count("indexed_value_struct_not_in_the_wowm");
                continue;
            };
            for i in 0..n {
                for salt in [seed, seed ^ 0x5555] {
                    c.eval();
                    c.nontrivial(vcommon::fnv(format!("{}|{}|{}|{}|layout", k.exp, k.kind, name, i).as_bytes()));
                    let mut o = (k.new)();
                    o.dirty_reset();
                    let Some(members) = o.set_indexed_value(name, i, salt) else { continue };
                    let mut fail = |c: &mut Check, kind: &str, detail: String| {
                        if reported.insert(format!("{}:{}:{}:{}", k.exp, k.kind, name, kind)) {
                            c.fail(&format!("c13:{}:{}:{}:{}", k.exp, k.kind, name, kind), &detail, json!({"exp": k.exp, "kind": k.kind, "accessor": name, "index": i, "salt": salt, "members": format!("{:x?}", members), "table": {"offset": te.offset, "size": te.size}}));
                        }
                    };
                    // expected words of the slot: the struct's members in wowm order, little endian
                    let mut bytes: Vec<u8> = Vec::new();
                    let mut settable: Vec<bool> = Vec::new();
                    let mut problem = None;
                    for m in &layout {
                        let vals: Vec<u64> = match (&m.constant, members.iter().find(|(mn, _)| *mn == m.name)) {
                            (Some(k), _) => vec![*k; m.count],
                            (None, Some((_, v))) if v.len() == m.count => v.clone(),
                            _ => {
                                problem = Some(format!("member {} of {} has no counterpart in the Rust struct", m.name, sname));
                                break;
                            }
                        };
                        for v in vals {
                            bytes.extend_from_slice(&v.to_le_bytes()[..m.width]);
                            settable.extend(std::iter::repeat(m.constant.is_none()).take(m.width));
                        }
                    }
                    if let Some(p) = problem {
                        fail(&mut c, "indexed-struct-members", p);
                        continue;
                    }
                    if bytes.len() > stride as usize * 4 || bytes.len() % 4 != 0 {
                        fail(&mut c, "indexed-struct-size", format!("wowm struct {} is {} bytes, the table gives {} words per slot ({} words / {} slots)", sname, bytes.len(), stride, te.size, n));
                        continue;
                    }
                    // a struct shorter than the stride leaves the rest of the slot unused
                    let struct_words = (bytes.len() / 4) as u16;
                    // words made of two 16-bit values: the table says nothing about which half comes first (same
                    // stance as for TWO_SHORT accessors), so either order is accepted and the swapped one is counted
                    let mut two_halves: Vec<bool> = vec![false; struct_words as usize];
                    {
                        let mut off = 0usize;
                        for m in &layout {
                            for _ in 0..m.count {
                                if m.width == 2 && off % 4 == 0 {
                                    two_halves[off / 4] = true;
                                }
                                if m.width != 2 && m.width < 4 {
                                    two_halves[off / 4] = false;
                                }
                                off += m.width;
                            }
                        }
                    }
                    if o.get_indexed_equals(name, i, salt) != Some(true) {
                        fail(&mut c, "indexed-getter-value", format!("getter of index {} does not return the value that was set", i));
                    }
                    let lo = te.offset + stride * i;
                    match o.carrier() {
                        Err(e) => fail(&mut c, "write-failed", e),
                        Ok(wbytes) => match wire_fields(&u, carrier, &wbytes) {
                            Err(e) => fail(&mut c, "written-form-unreadable", e),
                            Ok((_, wire, _)) => {
                                let on_wire: BTreeMap<u16, u32> = wire.iter().cloned().collect();
                                for w in 0..struct_words {
                                    let exp_word = u32::from_le_bytes([bytes[w as usize * 4], bytes[w as usize * 4 + 1], bytes[w as usize * 4 + 2], bytes[w as usize * 4 + 3]]);
                                    let any_settable = settable[w as usize * 4..w as usize * 4 + 4].iter().any(|b| *b);
                                    match on_wire.get(&(lo + w)) {
                                        Some(got) if *got != exp_word && two_halves[w as usize] && got.rotate_left(16) == exp_word => c.count("indexed_word_of_two_u16_with_the_halves_in_the_other_order"),
                                        Some(got) if *got != exp_word => fail(&mut c, "indexed-layout", format!("slot {} word {} (field {:#x}): the wowm struct {} puts {:#010x} there, on the wire {:#010x}", i, w, lo + w, sname, exp_word, got)),
                                        None if any_settable => fail(&mut c, "indexed-layout", format!("slot {} word {} (field {:#x}) carries settable members of {} but is not on the wire", i, w, lo + w, sname)),
                                        _ => {}
                                    }
                                }
                                if c.samples.len() < 8 && i == 1 && salt == seed {
                                    c.sample(json!({"exp": k.exp, "kind": k.kind, "accessor": name, "index": i, "struct": sname, "expected_bytes": vcommon::hex(&bytes), "first_field": lo}));
                                }
                            }
                        },
                    }
                }
            }
        }
        // ---- (a4) no two accessors address the same word: set A, set B, A's getter still returns A's value
        {
            #[derive(Clone, Debug)]
            enum Inst {
                Basic(&'static str, &'static str),
                Indexed(&'static str, u16),
                Slot(&'static str, u16),
            }
            let apply = |o: &mut dyn MaskObj, i: &Inst, salt: u64| match i {
                Inst::Basic(n, _) => {
                    o.set(n, salt);
                }
                Inst::Indexed(n, k) => {
                    o.set_indexed_value(n, *k, salt);
                }
                Inst::Slot(n, k) => {
                    o.set_slot_guid(n, *k, salt | 1);
                }
            };
            let holds = |o: &dyn MaskObj, i: &Inst, salt: u64| -> bool {
                match i {
                    Inst::Basic(n, sig) => o.get(n) == Some(Some(words_of(sig, salt))),
                    Inst::Indexed(n, k) => o.get_indexed_equals(n, *k, salt) == Some(true),
                    Inst::Slot(n, k) => o.get_slot_guid(n, *k) == Some(Some(salt | 1)),
                }
            };
            let mut insts: Vec<Inst> = k.accessors.iter().map(|(n, sig, _)| Inst::Basic(n, sig)).collect();
            for name in k.indexed {
                let mut i = 0u16;
                while (k.new)().set_indexed(name, i).is_some() {
                    insts.push(Inst::Indexed(name, i));
                    i += 1;
                }
            }
            for name in k.slotguid {
                for i in 0..256u16 {
                    if (k.new)().set_slot_guid(name, i, 1).is_some() {
                        insts.push(Inst::Slot(name, i));
                    }
                }
            }
            c.count_n("accessor_instances_in_the_alias_check", insts.len() as u64);
            let mut owner: BTreeMap<u16, usize> = BTreeMap::new();
            let mut pairs: BTreeSet<(usize, usize)> = BTreeSet::new();
            let mut bits_of: Vec<Vec<u16>> = Vec::new();
            for (ii, inst) in insts.iter().enumerate() {
                let mut o = (k.new)();
                o.dirty_reset();
                apply(o.as_mut(), inst, 0x1234_5678_9ABC_DEF1);
                bits_of.push(dirty_bits(o.as_ref()));
                for b in bits_of[ii].clone() {
                    match owner.get(&b) {
                        Some(prev) if *prev != ii => {
                            pairs.insert((*prev, ii));
                        }
                        _ => {
                            owner.insert(b, ii);
                        }
                    }
                }
            }
            // inventory-style accessors: slot s of the enum is the GUID at words [offset + 2s, offset + 2s + 2) of the table entry
            for (ii, inst) in insts.iter().enumerate() {
                if let Inst::Slot(name, slot) = inst {
                    let Some(te) = table.get(&name.to_uppercase()) else { continue };
                    c.eval();
                    c.nontrivial(vcommon::fnv(format!("{}|{}|{}|slot{}", k.exp, k.kind, name, slot).as_bytes()));
                    let want = vec![te.offset + 2 * slot, te.offset + 2 * slot + 1];
                    if bits_of[ii] != want && reported.insert(format!("{}:{}:{}:slot-words", k.exp, k.kind, name)) {
                        c.fail(&format!("c13:{}:{}:{}:slot-words", k.exp, k.kind, name), &format!("slot {} of {} touches words {:?}; the table puts {} at {:#x} ({} words), so the slot is {:?}", slot, name, bits_of[ii], name.to_uppercase(), te.offset, te.size, want), json!({"exp": k.exp, "kind": k.kind, "accessor": name, "slot": slot, "table": {"offset": te.offset, "size": te.size}}));
                    }
                    if 2 * slot + 2 > te.size && reported.insert(format!("{}:{}:{}:slot-outside-entry", k.exp, k.kind, name)) {
                        c.fail(&format!("c13:{}:{}:{}:slot-outside-entry", k.exp, k.kind, name), &format!("slot {} of {} lies outside the {} words the table gives {}", slot, name, te.size, name.to_uppercase()), json!({"exp": k.exp, "kind": k.kind, "accessor": name, "slot": slot}));
                    }
                }
            }
            for (a, b) in pairs {
                if bits_of[a] == bits_of[b] && matches!((&insts[a], &insts[b]), (Inst::Basic(..), Inst::Basic(..))) {
                    // the table lists two names at the same offset with the same width (OBJECT_CREATED_BY and the first
                    // GUID field of a kind): one field with two names, `last set for its field` is well defined
                    c.count("two_accessor_names_for_exactly_the_same_words_not_judged");
                    continue;
                }
                for (first, second) in [(a, b), (b, a)] {
                    c.eval();
                    c.nontrivial(vcommon::fnv(format!("{}|{}|alias|{:?}|{:?}", k.exp, k.kind, insts[first], insts[second]).as_bytes()));
                    let (sa, sb) = (0x0A0A_0A0A_1B1B_1B1Bu64 ^ seed, 0x7C7C_7C7C_6D6D_6D6Du64 ^ seed.rotate_left(17));
                    let mut o = (k.new)();
                    apply(o.as_mut(), &insts[first], sa);
                    if !holds(o.as_ref(), &insts[first], sa) {
                        continue;
                    }
                    apply(o.as_mut(), &insts[second], sb);
                    if !holds(o.as_ref(), &insts[first], sa) {
                        let (na, nb) = (format!("{:?}", insts[first]), format!("{:?}", insts[second]));
                        let names = |i: &Inst| match i {
                            Inst::Basic(n, _) | Inst::Indexed(n, _) | Inst::Slot(n, _) => *n,
                        };
                        let key = format!("{}:{}:{}+{}:accessors-alias", k.exp, k.kind, names(&insts[first]), names(&insts[second]));
                        if reported.insert(key.clone()) {
                            c.fail(&format!("c13:{}", key), &format!("after {} was set, setting {} changes what the getter of the first returns: both address the same word", na, nb), json!({"exp": k.exp, "kind": k.kind, "first": na, "second": nb}));
                        }
                    }
                }
            }
        }
        // ---- (b) histories over a representative field set
        fields.sort_by_key(|f| f.offset);
        let mut rep: Vec<usize> = Vec::new();
        let mut add = |i: usize, rep: &mut Vec<usize>| {
            if i < fields.len() && !rep.contains(&i) && fields[i].offset != 2 {
                rep.push(i);
            }
        };
        add(0, &mut rep);
        add(fields.len().saturating_sub(1), &mut rep);
        for sigc in ["guid", "f32", "bytes", "shorts", "i32"] {
            if let Some(i) = fields.iter().position(|f| f.sig == sigc && f.offset != 2) {
                add(i, &mut rep);
            }
        }
        for boundary in [31u16, 32, 33, 63, 64, 65] {
            if let Some(i) = fields.iter().position(|f| f.offset == boundary || (f.sig == "guid" && f.offset + 1 == boundary)) {
                add(i, &mut rep);
            }
        }
        let rep_fields: Vec<Field> = rep.iter().take(8).map(|i| Field { name: fields[*i].name, sig: fields[*i].sig, offset: fields[*i].offset }).collect();
        if rep_fields.is_empty() {
            continue;
        }
        c.extra.insert(format!("representative_fields.{}.{}", k.exp, k.kind), json!(rep_fields.iter().map(|f| format!("{}@{}", f.name, f.offset)).collect::<Vec<_>>()));
        let label = format!("{}:{}", k.exp, k.kind);
        // exhaustive to depth 4 over: set of the first 3 representative fields, dirty_reset, mark_fully_dirty, write
        let alphabet: Vec<Op> = {
            let mut a: Vec<Op> = (0..rep_fields.len().min(3)).map(|i| Op::Set(i, 0x1111_1111_2222_2222 * (i as u64 + 1))).collect();
            a.extend([Op::DirtyReset, Op::MarkFullyDirty, Op::Write]);
            a
        };
        let depth = tier.pick(4, 5);
        let mut idx = vec![0usize; depth];
        'outer: loop {
            let mut ops: Vec<Op> = idx.iter().map(|i| alphabet[*i].clone()).collect();
            ops.push(Op::Write);
            c.eval();
            if ops.iter().any(|o| matches!(o, Op::DirtyReset | Op::MarkFullyDirty)) {
                c.nontrivial(vcommon::fnv(format!("{}|exh|{:?}", label, idx).as_bytes()));
            }
            if let Err((kind, detail)) = run_history(&u, carrier, k, &rep_fields, &ops, read_back.as_ref()) {
                if reported.insert(format!("{}:history:{}", label, kind)) {
                    c.fail(&format!("c13:{}:history:{}", label, kind), &detail, json!({"exp": k.exp, "kind": k.kind, "ops": format!("{:?}", ops), "fields": rep_fields.iter().map(|f| f.name).collect::<Vec<_>>()}));
                }
            }
            let mut p = 0;
            loop {
                if p == depth {
                    break 'outer;
                }
                idx[p] += 1;
                if idx[p] < alphabet.len() {
                    break;
                }
                idx[p] = 0;
                p += 1;
            }
        }
        c.count("kinds_with_exhaustive_histories");
        // proptest sequences to length 40
        let nf = rep_fields.len();
        let op = prop_oneof![
            4 => (0..nf, any::<u64>()).prop_map(|(i, v)| Op::Set(i, v)),
            1 => Just(Op::DirtyReset),
            1 => Just(Op::MarkFullyDirty),
            2 => Just(Op::Write),
        ];
        let strat = prop::collection::vec(op, 1..40);
        let cc = std::cell::RefCell::new(&mut c);
        let fail = vcommon::prop_search(seed, vcommon::fnv(label.as_bytes()), tier.pick(300, 20_000), &strat, |ops, counting| {
            if counting {
                let mut c = cc.borrow_mut();
                c.eval();
                let shape: Vec<u8> = ops.iter().map(|o| match o { Op::Set(i, _) => *i as u8, Op::DirtyReset => 100, Op::MarkFullyDirty => 101, Op::Write => 102 }).collect();
                let mut seen_dirty_op = false;
                let mut nt = false;
                for o in ops {
                    match o {
                        Op::DirtyReset | Op::MarkFullyDirty => seen_dirty_op = true,
                        Op::Write if seen_dirty_op => nt = true,
                        _ => {}
                    }
                }
                if nt {
                    c.nontrivial(vcommon::fnv(format!("{}|{:?}", label, shape).as_bytes()));
                    c.count("history.write_after_dirty_op");
                }
            }
            run_history(&u, carrier, k, &rep_fields, ops, read_back.as_ref()).map_err(|(k, d)| format!("{}|{}", k, d))
        });
        if let Some((ops, msg)) = fail {
            let (kind, detail) = msg.split_once('|').unwrap_or((&msg, ""));
            if reported.insert(format!("{}:history:{}", label, kind)) {
                c.fail(&format!("c13:{}:history:{}", label, kind), detail, json!({"exp": k.exp, "kind": k.kind, "ops": format!("{:?}", ops), "fields": rep_fields.iter().map(|f| f.name).collect::<Vec<_>>()}));
            }
        }
    }
    c.extra.insert("kinds".into(), json!(kinds.len()));
    c.extra.insert("accessors_exercised".into(), json!(kinds.iter().map(|k| k.accessors.len()).sum::<usize>()));
    c.finish()
}
