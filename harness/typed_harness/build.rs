//! Scans /repo's generated sources for *what exists* - enum types, flag types, update-mask accessors -
//! and emits a table of monomorphic adapters (macro invocations). Expected behaviour never comes from
//! this scan: it comes from the wowm model / the published field table.
use regex::Regex;
use std::fmt::Write as _;
use std::path::{Path, PathBuf};

fn files(dir: &Path) -> Vec<PathBuf> {
    let mut v: Vec<PathBuf> = std::fs::read_dir(dir).map(|rd| rd.flatten().map(|e| e.path()).filter(|p| p.extension().map(|x| x == "rs").unwrap_or(false)).collect()).unwrap_or_default();
    v.sort();
    v
}

fn nss_of_stem(stem: &str) -> Vec<&'static str> {
    // shared files end in a list of expansions: foo_vanilla_tbc_wrath
    let mut v = Vec::new();
    let parts: Vec<&str> = stem.split('_').collect();
    let mut i = parts.len();
    while i > 0 {
        match parts[i - 1] {
            "vanilla" => v.push("vanilla"),
            "tbc" => v.push("tbc"),
            "wrath" => v.push("wrath"),
            _ => break,
        }
        i -= 1;
    }
    v.reverse();
    v
}

/// `fn mk(salt) -> (Value, members)` for a struct used as the value of an indexed update-mask accessor: every public
/// member gets a distinct non-zero value; the members are reported by name as the integers that went in
fn value_struct_ctor(repo: &Path, exp: &str, sname: &str, vty: &str, mk: &str) -> String {
    let mut snake = String::new();
    for (i, ch) in sname.chars().enumerate() {
        if ch.is_uppercase() && i > 0 {
            snake.push('_');
        }
        snake.push(ch.to_ascii_lowercase());
    }
    let p = repo.join(format!("wow_world_messages/src/world/{}/{}.rs", exp, snake));
    println!("cargo:rerun-if-changed={}", p.display());
    let src = std::fs::read_to_string(&p).unwrap_or_default();
    let mut body = String::new();
    let mut ok = false;
    if let Some(s0) = src.find(&format!("pub struct {} {{", sname)) {
        let e0 = src[s0..].find("\n}\n").map(|x| s0 + x).unwrap_or(src.len());
        ok = true;
        let re_f = Regex::new(r"(?m)^    pub (\w+): ([^\n]+),$").unwrap();
        for (k, f) in re_f.captures_iter(&src[s0..e0]).enumerate() {
            let (n, t) = (f[1].to_string(), f[2].trim().to_string());
            let pat = format!("(0x0101_0101_0101_0101u64.wrapping_mul({}) ^ salt.wrapping_mul(0x9E37_79B9_7F4A_7C15).rotate_left({}))", k + 1, (k * 7) % 61);
            match t.as_str() {
                "u8" | "u16" | "u32" | "u64" | "i32" => {
                    write!(body, "    v.{n} = ({pat} as {t}) | 1; out.push((\"{n}\", vec![v.{n} as u64]));\n", n = n, pat = pat, t = t).unwrap();
                }
                "Guid" => {
                    write!(body, "    v.{n} = wow_world_messages::Guid::new({pat} | 1); out.push((\"{n}\", vec![v.{n}.guid()]));\n", n = n, pat = pat).unwrap();
                }
                _ if t.starts_with('[') => {
                    let inner = t.trim_start_matches('[').trim_end_matches(']');
                    let (el, cnt) = inner.rsplit_once(';').unwrap_or((inner, "0"));
                    write!(body, "    {{ let mut e = Vec::new(); for j in 0..{cnt}usize {{ v.{n}[j] = (({pat}).rotate_left(8 * (j as u32 + 1)) as {el}) | 1; e.push(v.{n}[j] as u64); }} out.push((\"{n}\", e)); }}\n", n = n, pat = pat, el = el.trim(), cnt = cnt.trim()).unwrap();
                }
                _ => {
                    // an enum: some declared value other than the default when there is one
                    write!(body, "    v.{n} = (1u64..4096).map(|x| (x + salt) % 4096).find_map(|x| <wow_world_messages::{exp}::{t} as TryFrom<u64>>::try_from(x).ok()).unwrap_or_default(); out.push((\"{n}\", vec![v.{n}.as_int() as u64]));\n", n = n, exp = exp, t = t).unwrap();
                }
            }
        }
    }
    if !ok {
        body.clear();
    }
    format!("#[allow(unused_mut, unused_variables)]\npub fn {mk}(salt: u64) -> ({vty}, Vec<(&'static str, Vec<u64>)>) {{\n    let mut v = <{vty}>::default();\n    let mut out: Vec<(&'static str, Vec<u64>)> = Vec::new();\n{body}    (v, out)\n}}\n\n", mk = mk, vty = vty, body = body)
}

fn main() {
    let repo = PathBuf::from(std::env::var("VERIF_REPO").unwrap_or_else(|_| "/repo".into()));
    let mut enums = String::new();
    let mut flags = String::new();
    let re_enum = Regex::new(r"(?m)^pub enum (\w+) \{").unwrap();
    let re_from_int = Regex::new(r"pub const fn from_int\(value: (\w+)\)").unwrap();
    let re_flag = Regex::new(r"(?m)^pub struct (\w+) \{\n    inner: (\w+),\n\}").unwrap();
    let re_const = Regex::new(r"(?m)^    pub const (\w+): (\w+) = ([0-9a-fx]+);").unwrap();
    let re_method = Regex::new(r"pub (?:const )?fn (is|new|set|clear)_(\w+)\(").unwrap();
    let re_from = Regex::new(r"(?m)^impl (From|TryFrom)<(\w+)> for (\w+) \{").unwrap();
    let mut sources: Vec<(PathBuf, String, Vec<&'static str>, &'static str)> = Vec::new(); // (file, module path prefix, nss, error type)
    let base = repo.join("wow_world_base/src/inner");
    for f in files(&base.join("shared")) {
        let stem = f.file_stem().unwrap().to_str().unwrap().to_string();
        if stem == "mod" {
            continue;
        }
        let nss = nss_of_stem(&stem);
        sources.push((f, format!("wow_world_base::shared::{}", stem), nss, "wow_world_base::EnumError"));
    }
    for (exp, ns) in [("vanilla", "vanilla"), ("tbc", "tbc"), ("wrath", "wrath")] {
        for f in files(&base.join(exp)) {
            if f.file_stem().unwrap() == "mod" {
                continue;
            }
            sources.push((f, format!("wow_world_base::{}", exp), vec![ns], "wow_world_base::EnumError"));
        }
    }
    let login = repo.join("wow_login_messages/src/logon");
    for v in ["all", "version_2", "version_3", "version_5", "version_6", "version_7", "version_8"] {
        for f in files(&login.join(v)) {
            let stem = f.file_stem().unwrap().to_str().unwrap().to_string();
            if stem == "mod" || stem == "opcodes" {
                continue;
            }
            let ns: Vec<&'static str> = match v {
                "all" => vec!["login2", "login3", "login5", "login6", "login7", "login8"],
                "version_2" => vec!["login2"],
                "version_3" => vec!["login3"],
                "version_5" => vec!["login5"],
                "version_6" => vec!["login6"],
                "version_7" => vec!["login7"],
                _ => vec!["login8"],
            };
            sources.push((f, format!("wow_login_messages::{}", v), ns, "wow_login_messages::errors::EnumError"));
        }
    }
    for (f, modpath, nss, err) in &sources {
        println!("cargo:rerun-if-changed={}", f.display());
        let Ok(src) = std::fs::read_to_string(f) else { continue };
        let nss_s = nss.iter().map(|n| format!("\"{}\"", n)).collect::<Vec<_>>().join(", ");
        if let (Some(e), Some(fi)) = (re_enum.captures(&src), re_from_int.captures(&src)) {
            // the first `pub enum` of a definer file is the definer itself
            let name = &e[1];
            let srcs: Vec<String> = re_from.captures_iter(&src).filter(|c| &c[1] == "TryFrom" && &c[3] == name).map(|c| c[2].to_string()).collect();
            let pub_as_int = src.contains("    pub const fn as_int(&self)");
            writeln!(enums, "    enum_adapter!({}::{}, \"{}\", {}, \"{}::{}\", {}, [{}], srcs: [{}], as_int: {}),", modpath, name, name, &fi[1], modpath, name, err, nss_s, srcs.join(", "), pub_as_int).unwrap();
        } else if let Some(fl) = re_flag.captures(&src) {
            let name = &fl[1];
            let inner = &fl[2];
            if !src.contains(&format!("pub const fn new(inner: {}) -> Self", inner)) {
                continue;
            }
            let consts: Vec<String> = re_const.captures_iter(&src).map(|c| c[1].to_string()).collect();
            // zero-valued enumerators have no is_/new_/set_/clear_ methods of their own (`is_empty` is the generic query)
            let zero_consts: Vec<String> = re_const.captures_iter(&src).filter(|c| { let v = &c[3]; v.trim_start_matches("0x").chars().all(|ch| ch == '0') }).map(|c| c[1].to_string()).collect();
            let mut is = Vec::new();
            let mut new = Vec::new();
            let mut set = Vec::new();
            let mut clear = Vec::new();
            for m in re_method.captures_iter(&src) {
                let upper = m[2].to_uppercase();
                if !consts.contains(&upper) || zero_consts.contains(&upper) {
                    continue;
                }
                let entry = format!("({}, {}_{})", upper, &m[1], &m[2]);
                match &m[1] {
                    "is" => is.push(entry),
                    "new" => new.push(entry),
                    "set" => set.push(entry),
                    _ => clear.push(entry),
                }
            }
            let mut from = Vec::new();
            let mut try_from = Vec::new();
            for c in re_from.captures_iter(&src) {
                if &c[3] != name {
                    continue;
                }
                if &c[1] == "From" {
                    from.push(c[2].to_string());
                } else {
                    try_from.push(c[2].to_string());
                }
            }
            let has = |s: &str| src.contains(s);
            writeln!(
                flags,
                "    flag_adapter!({mp}::{n}, \"{n}\", {inner}, \"{mp}::{n}\", [{nss}], consts: [{consts}], is: [{is}], new: [{new}], set: [{set}], clear: [{clear}], from: [{from}], try_from: [{tf}], empty: {e}, all: {a}, is_empty: {ie}, as_int: {ai}),",
                mp = modpath,
                n = name,
                inner = inner,
                nss = nss_s,
                consts = consts.join(", "),
                is = is.join(", "),
                new = new.join(", "),
                set = set.join(", "),
                clear = clear.join(", "),
                from = from.join(", "),
                tf = try_from.join(", "),
                e = has("pub const fn empty() -> Self"),
                a = has("pub const fn all() -> Self"),
                ie = has("pub const fn is_empty(&self) -> bool"),
                ai = has("    pub const fn as_int(&self)"),
            )
            .unwrap();
        }
    }
    // update mask accessors, grouped per (expansion, object kind)
    let mut um = String::new();
    let mut um_fns = String::new();
    let re_impl = Regex::new(r"(?m)^impl (Update\w+) \{").unwrap();
    let re_set = Regex::new(r"(?m)^    pub fn set_(\w+)\(&mut self, ([^)]*)\) \{").unwrap();
    for exp in ["vanilla", "tbc", "wrath"] {
        let p = repo.join(format!("wow_world_messages/src/helper/{}/update_mask/impls.rs", exp));
        println!("cargo:rerun-if-changed={}", p.display());
        let Ok(src) = std::fs::read_to_string(&p) else { continue };
        let impls: Vec<(usize, String)> = re_impl.captures_iter(&src).map(|c| (c.get(0).unwrap().start(), c[1].to_string())).collect();
        for (i, (start, ty)) in impls.iter().enumerate() {
            if ty.ends_with("Builder") {
                continue;
            }
            let end = impls.get(i + 1).map(|x| x.0).unwrap_or(src.len());
            let block = &src[*start..end];
            let builder_block: &str = {
                let b = format!("impl {}Builder {{", ty);
                match src.find(&b) {
                    Some(s0) => {
                        let e = src[s0 + 1..].find("\nimpl ").map(|x| s0 + 1 + x).unwrap_or(src.len());
                        &src[s0..e]
                    }
                    None => "",
                }
            };
            let mut accs = Vec::new();
            let mut custom = Vec::new();
            let mut indexed = Vec::new();
            let mut slotguid: Vec<String> = Vec::new();
            let re_idx = Regex::new(r"(?m)^    pub fn set_(\w+)\(&mut self, \w+: (crate::\w+::\w+), index: (\w+)\) \{").unwrap();
            for c in re_idx.captures_iter(block) {
                let name = c[1].to_string();
                if block.contains(&format!("pub fn {}(&self, index: {}) ->", name, &c[3])) {
                    let vty = c[2].replace("crate::", "wow_world_messages::");
                    let sname = vty.rsplit("::").next().unwrap_or("").to_string();
                    let mk = format!("mk_{}_{}", exp, name);
                    um_fns.push_str(&value_struct_ctor(&repo, exp, &sname, &vty, &mk));
                    indexed.push(format!("({}, set_{}, {}, {}, {}, \"{}\")", name, name, vty, &c[3], mk, sname));
                }
            }
            let re_slot = Regex::new(r"(?m)^    pub fn set_(\w+)\(&mut self, \w+: (crate::\w+::\w+), \w+: Guid\) \{").unwrap();
            for c in re_slot.captures_iter(block) {
                let name = c[1].to_string();
                if Regex::new(&format!(r"pub fn {}\(&self, \w+: {}\) -> Option<Guid>", name, regex::escape(&c[2]))).unwrap().is_match(block) {
                    slotguid.push(format!("({}, set_{}, {})", name, name, c[2].replace("crate::", "wow_world_messages::")));
                }
            }
            for c in re_set.captures_iter(block) {
                let name = &c[1];
                let args = c[2].trim();
                let sig = match args {
                    "v: i32" => "i32",
                    "v: f32" => "f32",
                    "v: Guid" => "guid",
                    "a: u8, b: u8, c: u8, d: u8" => "bytes",
                    "a: u16, b: u16" => "shorts",
                    _ => "custom",
                };
                let getter = block.contains(&format!("pub fn {}(&self) ->", name));
                if sig == "custom" || !getter {
                    custom.push(format!("\"{}\"", name));
                } else {
                    let hb = builder_block.contains(&format!("pub fn set_{}(mut self,", name));
                    accs.push(format!("({}, set_{}, {}, {})", name, name, sig, hb));
                }
            }
            let variant = ty.trim_start_matches("Update");
            writeln!(um, "    um_kind!({}, {}, {}Builder, {}, [{}], custom: [{}], indexed: [{}], slotguid: [{}]),", exp, ty, ty, variant, accs.join(", "), custom.join(", "), indexed.join(", "), slotguid.join(", ")).unwrap();
        }
    }
    // message-local (synthesised) flag structs: `struct X { inner: uN, member: Option<..>, .. }` with new_*/set_* per enumerator
    let mut synth = String::new();
    let world = repo.join("wow_world_messages/src/world");
    let re_synth = Regex::new(r"(?m)^pub struct (\w+) \{\n    inner: (u8|u16|u32|u64),\n    \w+: ").unwrap();
    let re_new0 = Regex::new(r"pub const fn new_(\w+)\(\) -> Self \{\s*Self \{\s*inner: (\w+)::(\w+),").unwrap();
    let re_new1 = Regex::new(r"pub const fn new_(\w+)\(\w+: (\w+)\) -> Self \{\s*Self \{\s*inner: (?:(\w+)::(\w+)|\w+\.as_int\(\)),").unwrap();
    let re_default = Regex::new(r"(?m)^#\[derive\(([^)]*)\)\]\n(?:#\[[^\n]*\]\n)*pub (?:struct|enum) (\w+)").unwrap();
    let re_impl_default = Regex::new(r"impl Default for (\w+)").unwrap();
    // types that can be built with Default
    let mut has_default: std::collections::BTreeSet<String> = ["u8", "u16", "u32", "u64", "i8", "i16", "i32", "i64", "f32", "bool", "String", "Guid", "DateTime", "Gold", "Level"].iter().map(|s| s.to_string()).collect();
    let mut all_dirs: Vec<PathBuf> = ["vanilla", "tbc", "wrath", "shared"].iter().map(|d| world.join(d)).collect();
    all_dirs.extend(["vanilla", "tbc", "wrath", "shared"].iter().map(|d| base.join(d)));
    for d in &all_dirs {
        for f in files(d) {
            let Ok(src) = std::fs::read_to_string(&f) else { continue };
            for c in re_default.captures_iter(&src) {
                if c[1].split(',').any(|x| x.trim() == "Default") {
                    has_default.insert(c[2].to_string());
                }
            }
            for c in re_impl_default.captures_iter(&src) {
                has_default.insert(c[1].to_string());
            }
        }
    }
    let defaultable = |ty: &str| -> bool {
        let t = ty.trim();
        if has_default.contains(t) {
            return true;
        }
        if let Some(inner) = t.strip_prefix("Vec<").or(t.strip_prefix("Option<")) {
            let _ = inner;
            return true;
        }
        if t.starts_with('[') {
            // [T; N] with N <= 32 and T: Default
            let inner = t.trim_start_matches('[');
            if let Some((el, n)) = inner.trim_end_matches(']').rsplit_once(';') {
                return n.trim().parse::<usize>().map(|n| n <= 32).unwrap_or(false) && has_default.contains(el.trim());
            }
        }
        false
    };
    for dir in ["vanilla", "tbc", "wrath", "shared"] {
        for f in files(&world.join(dir)) {
            let stem = f.file_stem().unwrap().to_str().unwrap().to_string();
            if stem == "mod" || stem == "opcodes" {
                continue;
            }
            println!("cargo:rerun-if-changed={}", f.display());
            let Ok(src) = std::fs::read_to_string(&f) else { continue };
            let nss: Vec<&'static str> = if dir == "shared" { nss_of_stem(&stem) } else { vec![match dir { "vanilla" => "vanilla", "tbc" => "tbc", _ => "wrath" }] };
            if nss.is_empty() {
                continue;
            }
            let mp = format!("wow_world_messages::{}", nss[0]);
            let nss_s = nss.iter().map(|n| format!("\"{}\"", n)).collect::<Vec<_>>().join(", ");
            for sc in re_synth.captures_iter(&src) {
                let name = sc[1].to_string();
                // the impl block with the constructors
                let Some(istart) = src.find(&format!("impl {} {{\n    pub const fn new(inner:", name)) else { continue };
                let iend = src[istart..].find("\n}\n").map(|x| istart + x).unwrap_or(src.len());
                let block = &src[istart..iend];
                let mut flag_name = String::new();
                let mut cases = String::new();
                for c in re_new0.captures_iter(block) {
                    flag_name = c[2].to_string();
                    write!(cases, "synth_case!({mp}::{name}, \"{m}\", \"{k}\", new_{m}, set_{m}, ()), ", mp = mp, name = name, m = &c[1], k = &c[3]).unwrap();
                }
                for c in re_new1.captures_iter(block) {
                    let method = c[1].to_string();
                    let arg = c[2].to_string();
                    if let (Some(fl), Some(k)) = (c.get(3), c.get(4)) {
                        flag_name = fl.as_str().to_string();
                        if has_default.contains(&arg) {
                            write!(cases, "synth_case!({mp}::{name}, \"{m}\", \"{k}\", new_{m}, set_{m}, (Default::default())), ", mp = mp, name = name, m = method, k = k.as_str()).unwrap();
                        } else {
                            write!(cases, "SynthCase::skipped(\"{m}\"), ", m = method).unwrap();
                        }
                    } else {
                        // argument is an enum of alternatives (else-if chain on the flag): one case per variant
                        let Some(es) = src.find(&format!("pub enum {} {{", arg)) else { continue };
                        let ee = src[es..].find("\n}\n").map(|x| es + x).unwrap_or(src.len());
                        let eblock = &src[es..ee];
                        let re_var = Regex::new(r"(?m)^    (\w+)(?: \{\n((?:        \w+: [^\n]+,\n)*)    \})?,").unwrap();
                        for v in re_var.captures_iter(eblock) {
                            let vname = v[1].to_string();
                            let fields: Vec<(String, String)> = v.get(2).map(|m| m.as_str().lines().filter_map(|l| l.trim().trim_end_matches(',').split_once(": ").map(|(a, b)| (a.to_string(), b.to_string()))).collect()).unwrap_or_default();
                            // SCREAMING_SNAKE of the variant name is the enumerator
                            let mut k = String::new();
                            for (i, ch) in vname.chars().enumerate() {
                                if ch.is_uppercase() && i > 0 {
                                    k.push('_');
                                }
                                k.push(ch.to_ascii_uppercase());
                            }
                            if fields.iter().all(|(_, t)| defaultable(t)) {
                                let ctor = if fields.is_empty() { format!("{}::{}::{}", mp, arg, vname) } else { format!("{}::{}::{} {{ {} }}", mp, arg, vname, fields.iter().map(|(n, _)| format!("{}: Default::default()", n)).collect::<Vec<_>>().join(", ")) };
                                write!(cases, "synth_case!({mp}::{name}, \"{m}:{v}\", \"{k}\", new_{m}, set_{m}, ({ctor})), ", mp = mp, name = name, m = method, v = vname, k = k, ctor = ctor).unwrap();
                            } else {
                                write!(cases, "SynthCase::skipped(\"{m}:{v}\"), ", m = method, v = vname).unwrap();
                            }
                        }
                    }
                }
                if flag_name.is_empty() {
                    // the flag name is also in the clear_ methods / other members
                    if let Some(c) = Regex::new(r"self\.inner \|= (\w+)::\w+;").unwrap().captures(block) {
                        flag_name = c[1].to_string();
                    }
                }
                writeln!(synth, "    SynthAdapter {{ path: \"{mp}::{name}\", flag: \"{fl}\", nss: &[{nss}], cases: vec![{cases}] }},", mp = mp, name = name, fl = flag_name, nss = nss_s, cases = cases).unwrap();
            }
        }
    }
    let out = format!(
        "pub fn synth_adapters() -> Vec<SynthAdapter> {{\n    vec![\n{}    ]\n}}\n\n", synth) + &format!(
        "pub fn enum_adapters() -> Vec<EnumAdapter> {{\n    vec![\n{}    ]\n}}\n\npub fn flag_adapters() -> Vec<FlagAdapter> {{\n    vec![\n{}    ]\n}}\n\n{}\npub fn um_kinds() -> Vec<UmKind> {{\n    vec![\n{}    ]\n}}\n",
        enums, flags, um_fns, um
    );
    std::fs::write(PathBuf::from(std::env::var("OUT_DIR").unwrap()).join("typed_tables.rs"), out).unwrap();
}
