//! Scans /repo's generated sources for *what exists* - enum types, flag types, update-mask accessors -
//! and emits a table of monomorphic adapters (macro invocations). Expected behaviour never comes from
//! this scan: it comes from the wowm model / the published field table.
use regex::Regex;
use std::fmt::Write as _;
use std::path::{Path, PathBuf};

fn files(dir: &Path) -> Vec<PathBuf> {
    let mut v: Vec<PathBuf> = std::fs::read_dir(dir).map(|rd| rd.flatten().map(|e| e.path()).filter(|p| p.extension().map(|x| x == "rs").unwrap_or(false)).collect()).unwrap_or_default();
    v.sort();
    v
}

fn nss_of_stem(stem: &str) -> Vec<&'static str> {
    // shared files end in a list of expansions: foo_vanilla_tbc_wrath
    let mut v = Vec::new();
    let parts: Vec<&str> = stem.split('_').collect();
    let mut i = parts.len();
    while i > 0 {
        match parts[i - 1] {
            "vanilla" => v.push("vanilla"),
            "tbc" => v.push("tbc"),
            "wrath" => v.push("wrath"),
            _ => break,
        }
        i -= 1;
    }
    v.reverse();
    v
}

fn main() {
    let repo = PathBuf::from(std::env::var("VERIF_REPO").unwrap_or_else(|_| "/repo".into()));
    let mut enums = String::new();
    let mut flags = String::new();
    let re_enum = Regex::new(r"(?m)^pub enum (\w+) \{").unwrap();
    let re_from_int = Regex::new(r"pub const fn from_int\(value: (\w+)\)").unwrap();
    let re_flag = Regex::new(r"(?m)^pub struct (\w+) \{\n    inner: (\w+),\n\}").unwrap();
    let re_const = Regex::new(r"(?m)^    pub const (\w+): (\w+) = ([0-9a-fx]+);").unwrap();
    let re_method = Regex::new(r"pub (?:const )?fn (is|new|set|clear)_(\w+)\(").unwrap();
    let re_from = Regex::new(r"(?m)^impl (From|TryFrom)<(\w+)> for (\w+) \{").unwrap();
    let mut sources: Vec<(PathBuf, String, Vec<&'static str>, &'static str)> = Vec::new(); // (file, module path prefix, nss, error type)
    let base = repo.join("wow_world_base/src/inner");
    for f in files(&base.join("shared")) {
        let stem = f.file_stem().unwrap().to_str().unwrap().to_string();
        if stem == "mod" {
            continue;
        }
        let nss = nss_of_stem(&stem);
        sources.push((f, format!("wow_world_base::shared::{}", stem), nss, "wow_world_base::EnumError"));
    }
    for (exp, ns) in [("vanilla", "vanilla"), ("tbc", "tbc"), ("wrath", "wrath")] {
        for f in files(&base.join(exp)) {
            if f.file_stem().unwrap() == "mod" {
                continue;
            }
            sources.push((f, format!("wow_world_base::{}", exp), vec![ns], "wow_world_base::EnumError"));
        }
    }
    let login = repo.join("wow_login_messages/src/logon");
    for v in ["all", "version_2", "version_3", "version_5", "version_6", "version_7", "version_8"] {
        for f in files(&login.join(v)) {
            let stem = f.file_stem().unwrap().to_str().unwrap().to_string();
            if stem == "mod" || stem == "opcodes" {
                continue;
            }
            let ns: Vec<&'static str> = match v {
                "all" => vec!["login2", "login3", "login5", "login6", "login7", "login8"],
                "version_2" => vec!["login2"],
                "version_3" => vec!["login3"],
                "version_5" => vec!["login5"],
                "version_6" => vec!["login6"],
                "version_7" => vec!["login7"],
                _ => vec!["login8"],
            };
            sources.push((f, format!("wow_login_messages::{}", v), ns, "wow_login_messages::errors::EnumError"));
        }
    }
    for (f, modpath, nss, err) in &sources {
        println!("cargo:rerun-if-changed={}", f.display());
        let Ok(src) = std::fs::read_to_string(f) else { continue };
        let nss_s = nss.iter().map(|n| format!("\"{}\"", n)).collect::<Vec<_>>().join(", ");
        if let (Some(e), Some(fi)) = (re_enum.captures(&src), re_from_int.captures(&src)) {
            // the first `pub enum` of a definer file is the definer itself
            let name = &e[1];
            let srcs: Vec<String> = re_from.captures_iter(&src).filter(|c| &c[1] == "TryFrom" && &c[3] == name).map(|c| c[2].to_string()).collect();
            let pub_as_int = src.contains("    pub const fn as_int(&self)");
            writeln!(enums, "    enum_adapter!({}::{}, \"{}\", {}, \"{}::{}\", {}, [{}], srcs: [{}], as_int: {}),", modpath, name, name, &fi[1], modpath, name, err, nss_s, srcs.join(", "), pub_as_int).unwrap();
        } else if let Some(fl) = re_flag.captures(&src) {
            let name = &fl[1];
            let inner = &fl[2];
            if !src.contains(&format!("pub const fn new(inner: {}) -> Self", inner)) {
                continue;
            }
            let consts: Vec<String> = re_const.captures_iter(&src).map(|c| c[1].to_string()).collect();
            // zero-valued enumerators have no is_/new_/set_/clear_ methods of their own (`is_empty` is the generic query)
            let zero_consts: Vec<String> = re_const.captures_iter(&src).filter(|c| { let v = &c[3]; v.trim_start_matches("0x").chars().all(|ch| ch == '0') }).map(|c| c[1].to_string()).collect();
            let mut is = Vec::new();
            let mut new = Vec::new();
            let mut set = Vec::new();
            let mut clear = Vec::new();
            for m in re_method.captures_iter(&src) {
                let upper = m[2].to_uppercase();
                if !consts.contains(&upper) || zero_consts.contains(&upper) {
                    continue;
                }
                let entry = format!("({}, {}_{})", upper, &m[1], &m[2]);
                match &m[1] {
                    "is" => is.push(entry),
                    "new" => new.push(entry),
                    "set" => set.push(entry),
                    _ => clear.push(entry),
                }
            }
            let mut from = Vec::new();
            let mut try_from = Vec::new();
            for c in re_from.captures_iter(&src) {
                if &c[3] != name {
                    continue;
                }
                if &c[1] == "From" {
                    from.push(c[2].to_string());
                } else {
                    try_from.push(c[2].to_string());
                }
            }
            let has = |s: &str| src.contains(s);
            writeln!(
                flags,
                "    flag_adapter!({mp}::{n}, \"{n}\", {inner}, \"{mp}::{n}\", [{nss}], consts: [{consts}], is: [{is}], new: [{new}], set: [{set}], clear: [{clear}], from: [{from}], try_from: [{tf}], empty: {e}, all: {a}, is_empty: {ie}, as_int: {ai}),",
                mp = modpath,
                n = name,
                inner = inner,
                nss = nss_s,
                consts = consts.join(", "),
                is = is.join(", "),
                new = new.join(", "),
                set = set.join(", "),
                clear = clear.join(", "),
                from = from.join(", "),
                tf = try_from.join(", "),
                e = has("pub const fn empty() -> Self"),
                a = has("pub const fn all() -> Self"),
                ie = has("pub const fn is_empty(&self) -> bool"),
                ai = has("    pub const fn as_int(&self)"),
            )
            .unwrap();
        }
    }
    // update mask accessors, grouped per (expansion, object kind)
    let mut um = String::new();
    let re_impl = Regex::new(r"(?m)^impl (Update\w+) \{").unwrap();
    let re_set = Regex::new(r"(?m)^    pub fn set_(\w+)\(&mut self, ([^)]*)\) \{").unwrap();
    for exp in ["vanilla", "tbc", "wrath"] {
        let p = repo.join(format!("wow_world_messages/src/helper/{}/update_mask/impls.rs", exp));
        println!("cargo:rerun-if-changed={}", p.display());
        let Ok(src) = std::fs::read_to_string(&p) else { continue };
        let impls: Vec<(usize, String)> = re_impl.captures_iter(&src).map(|c| (c.get(0).unwrap().start(), c[1].to_string())).collect();
        for (i, (start, ty)) in impls.iter().enumerate() {
            if ty.ends_with("Builder") {
                continue;
            }
            let end = impls.get(i + 1).map(|x| x.0).unwrap_or(src.len());
            let block = &src[*start..end];
            let builder_block: &str = {
                let b = format!("impl {}Builder {{", ty);
                match src.find(&b) {
                    Some(s0) => {
                        let e = src[s0 + 1..].find("\nimpl ").map(|x| s0 + 1 + x).unwrap_or(src.len());
                        &src[s0..e]
                    }
                    None => "",
                }
            };
            let mut accs = Vec::new();
            let mut custom = Vec::new();
            let mut indexed = Vec::new();
            let re_idx = Regex::new(r"(?m)^    pub fn set_(\w+)\(&mut self, \w+: (crate::\w+::\w+), index: (\w+)\) \{").unwrap();
            for c in re_idx.captures_iter(block) {
                let name = c[1].to_string();
                if block.contains(&format!("pub fn {}(&self, index: {}) ->", name, &c[3])) {
                    indexed.push(format!("({}, set_{}, {}, {})", name, name, c[2].replace("crate::", "wow_world_messages::"), &c[3]));
                }
            }
            for c in re_set.captures_iter(block) {
                let name = &c[1];
                let args = c[2].trim();
                let sig = match args {
                    "v: i32" => "i32",
                    "v: f32" => "f32",
                    "v: Guid" => "guid",
                    "a: u8, b: u8, c: u8, d: u8" => "bytes",
                    "a: u16, b: u16" => "shorts",
                    _ => "custom",
                };
                let getter = block.contains(&format!("pub fn {}(&self) ->", name));
                if sig == "custom" || !getter {
                    custom.push(format!("\"{}\"", name));
                } else {
                    let hb = builder_block.contains(&format!("pub fn set_{}(mut self,", name));
                    accs.push(format!("({}, set_{}, {}, {})", name, name, sig, hb));
                }
            }
            let variant = ty.trim_start_matches("Update");
            writeln!(um, "    um_kind!({}, {}, {}Builder, {}, [{}], custom: [{}], indexed: [{}]),", exp, ty, ty, variant, accs.join(", "), custom.join(", "), indexed.join(", ")).unwrap();
        }
    }
    let out = format!(
        "pub fn enum_adapters() -> Vec<EnumAdapter> {{\n    vec![\n{}    ]\n}}\n\npub fn flag_adapters() -> Vec<FlagAdapter> {{\n    vec![\n{}    ]\n}}\n\npub fn um_kinds() -> Vec<UmKind> {{\n    vec![\n{}    ]\n}}\n",
        enums, flags, um
    );
    std::fs::write(PathBuf::from(std::env::var("OUT_DIR").unwrap()).join("typed_tables.rs"), out).unwrap();
}
