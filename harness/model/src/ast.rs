//! Syntax tree of a `.wowm` file, as described by `wowm_language/src/spec/lang-spec.md` and the grammar.

#[derive(Debug, Clone, Default, PartialEq)]
pub struct Tags {
    /// in source order; a key may repeat (`comment`)
    pub pairs: Vec<(String, String)>,
}

impl Tags {
    pub fn get(&self, k: &str) -> Option<&str> {
        self.pairs.iter().find(|(a, _)| a == k).map(|(_, v)| v.as_str())
    }
    pub fn all(&self, k: &str) -> Vec<&str> {
        self.pairs.iter().filter(|(a, _)| a == k).map(|(_, v)| v.as_str()).collect()
    }
    pub fn has(&self, k: &str) -> bool {
        self.get(k).is_some()
    }
    pub fn is_true(&self, k: &str) -> bool {
        self.get(k) == Some("true")
    }
    pub fn push(&mut self, k: &str, v: &str) {
        self.pairs.push((k.to_string(), v.to_string()));
    }
}

#[derive(Debug, Clone, Copy, PartialEq, Eq, Hash, PartialOrd, Ord)]
pub struct Span {
    pub start: usize,
    pub end: usize,
    pub line: usize,
}

#[derive(Debug, Clone)]
pub struct Command {
    pub name: String,
    pub key: String,
    pub value: String,
    pub span: Span,
}

#[derive(Debug, Clone, Copy, PartialEq, Eq, Hash)]
pub enum DefinerKind {
    Enum,
    Flag,
}

#[derive(Debug, Clone)]
pub struct Enumerator {
    pub name: String,
    pub value_text: String,
    pub tags: Tags,
    pub comments: Vec<String>,
    pub span: Span,
}

#[derive(Debug, Clone)]
pub struct Definer {
    pub kind: DefinerKind,
    pub name: String,
    pub base: String,
    pub members: Vec<Enumerator>,
    pub tags: Tags,
    pub comments: Vec<String>,
    pub span: Span,
    pub name_span: Span,
    pub base_span: Span,
}

#[derive(Debug, Clone, Copy, PartialEq, Eq, Hash)]
pub enum ContainerKind {
    Struct,
    CLogin,
    SLogin,
    Smsg,
    Cmsg,
    Msg,
}

impl ContainerKind {
    pub fn keyword(&self) -> &'static str {
        match self {
            ContainerKind::Struct => "struct",
            ContainerKind::CLogin => "clogin",
            ContainerKind::SLogin => "slogin",
            ContainerKind::Smsg => "smsg",
            ContainerKind::Cmsg => "cmsg",
            ContainerKind::Msg => "msg",
        }
    }
    pub fn is_world(&self) -> bool {
        matches!(self, ContainerKind::Smsg | ContainerKind::Cmsg | ContainerKind::Msg)
    }
    pub fn is_login(&self) -> bool {
        matches!(self, ContainerKind::CLogin | ContainerKind::SLogin)
    }
}

#[derive(Debug, Clone, PartialEq, Eq)]
pub enum ArraySize {
    Fixed(u64),
    Variable(String),
    Endless,
}

#[derive(Debug, Clone, PartialEq, Eq)]
pub enum TypeRef {
    Simple { name: String, upcast: Option<String> },
    Array { inner: String, size: ArraySize },
}

impl TypeRef {
    pub fn display(&self) -> String {
        match self {
            TypeRef::Simple { name, upcast: None } => name.clone(),
            TypeRef::Simple { name, upcast: Some(u) } => format!("({}){}", u, name),
            TypeRef::Array { inner, size } => match size {
                ArraySize::Fixed(n) => format!("{}[{}]", inner, n),
                ArraySize::Variable(v) => format!("{}[{}]", inner, v),
                ArraySize::Endless => format!("{}[-]", inner),
            },
        }
    }
}

#[derive(Debug, Clone)]
pub struct Field {
    pub ty: TypeRef,
    pub name: String,
    /// `= value` (a constant or `self.size`)
    pub value: Option<String>,
    pub tags: Tags,
    pub comments: Vec<String>,
    pub span: Span,
    pub ty_span: Span,
    pub name_span: Span,
}

#[derive(Debug, Clone, Copy, PartialEq, Eq, Hash)]
pub enum CondOp {
    Eq,
    Ne,
    And,
}

#[derive(Debug, Clone)]
pub struct Cond {
    pub var: String,
    pub op: CondOp,
    pub value: String,
    pub span: Span,
    pub var_span: Span,
    pub op_span: Span,
    pub value_span: Span,
}

#[derive(Debug, Clone)]
pub struct Branch {
    pub conds: Vec<Cond>,
    pub body: Vec<Member>,
}

#[derive(Debug, Clone)]
pub struct IfStmt {
    pub first: Branch,
    pub else_ifs: Vec<Branch>,
    pub else_body: Option<Vec<Member>>,
    pub span: Span,
}

impl IfStmt {
    pub fn var(&self) -> &str {
        &self.first.conds[0].var
    }
    pub fn branches(&self) -> impl Iterator<Item = &Branch> {
        std::iter::once(&self.first).chain(self.else_ifs.iter())
    }
}

#[derive(Debug, Clone)]
pub struct OptionalStmt {
    pub name: String,
    pub body: Vec<Member>,
    pub tags: Tags,
    pub span: Span,
}

#[derive(Debug, Clone)]
pub enum Member {
    Field(Field),
    If(IfStmt),
    Optional(OptionalStmt),
    Unimplemented,
}

#[derive(Debug, Clone)]
pub struct Container {
    pub kind: ContainerKind,
    pub name: String,
    pub opcode_text: Option<String>,
    pub members: Vec<Member>,
    pub tags: Tags,
    pub comments: Vec<String>,
    pub span: Span,
    pub name_span: Span,
    pub opcode_span: Option<Span>,
}

#[derive(Debug, Clone)]
pub enum TestValue {
    /// one or more `|`-separated values
    Scalar(Vec<String>),
    Array(Vec<String>),
    Sub(Vec<TestField>),
    ArrayOfSubs(Vec<Vec<TestField>>),
}

#[derive(Debug, Clone)]
pub struct TestField {
    pub name: String,
    pub value: TestValue,
    pub tags: Tags,
}

#[derive(Debug, Clone)]
pub struct TestCase {
    pub subject: String,
    pub fields: Vec<TestField>,
    pub bytes_text: Vec<String>,
    pub tags: Tags,
    pub comments: Vec<String>,
    pub span: Span,
}

#[derive(Debug, Clone)]
pub enum Item {
    Definer(Definer),
    Container(Container),
    Test(TestCase),
}

#[derive(Debug, Clone)]
pub struct SourceFile {
    /// path relative to the repository root
    pub path: String,
    pub text: String,
    pub commands: Vec<Command>,
    pub items: Vec<Item>,
}
