//! Universe of objects: `#tag_all`, `paste_versions`, version tags, name lookup by namespace.
//! Written from `commands.md`, `tags.md` and `versioning-with-tags.md`.
use crate::ast::*;
use crate::parser::{parse_file, parse_int};
use std::collections::BTreeMap;
use std::path::Path;

#[derive(Debug, Clone, Copy, PartialEq, Eq, Hash, PartialOrd, Ord)]
pub enum WorldVersion {
    Major(u8),
    Minor(u8, u8),
    Patch(u8, u8, u8),
    Exact(u8, u8, u8, u16),
    All,
}

impl WorldVersion {
    pub fn parse(s: &str) -> Option<WorldVersion> {
        if s == "*" {
            return Some(WorldVersion::All);
        }
        let parts: Vec<&str> = s.split('.').collect();
        let n = |i: usize| parts[i].parse::<u8>().ok();
        match parts.len() {
            1 => Some(WorldVersion::Major(n(0)?)),
            2 => Some(WorldVersion::Minor(n(0)?, n(1)?)),
            3 => Some(WorldVersion::Patch(n(0)?, n(1)?, n(2)?)),
            4 => Some(WorldVersion::Exact(n(0)?, n(1)?, n(2)?, parts[3].parse::<u16>().ok()?)),
            _ => None,
        }
    }
    fn prefix(&self) -> Vec<u32> {
        match *self {
            WorldVersion::All => vec![],
            WorldVersion::Major(a) => vec![a as u32],
            WorldVersion::Minor(a, b) => vec![a as u32, b as u32],
            WorldVersion::Patch(a, b, c) => vec![a as u32, b as u32, c as u32],
            WorldVersion::Exact(a, b, c, d) => vec![a as u32, b as u32, c as u32, d as u32],
        }
    }
    /// `self` is as specific or less specific than `other` and contains it
    /// ("valid for all versions of 1" covers "1.12")
    pub fn covers(&self, other: &WorldVersion) -> bool {
        let a = self.prefix();
        let b = other.prefix();
        a.len() <= b.len() && a[..] == b[..a.len()]
    }
    /// some concrete client version is described by both
    pub fn overlaps(&self, other: &WorldVersion) -> bool {
        self.covers(other) || other.covers(self)
    }
    pub fn text(&self) -> String {
        match *self {
            WorldVersion::All => "*".into(),
            _ => self.prefix().iter().map(|x| x.to_string()).collect::<Vec<_>>().join("."),
        }
    }
}

pub const VANILLA: WorldVersion = WorldVersion::Minor(1, 12);
pub const TBC: WorldVersion = WorldVersion::Exact(2, 4, 3, 8606);
pub const WRATH: WorldVersion = WorldVersion::Exact(3, 3, 5, 12340);

#[derive(Debug, Clone, Copy, PartialEq, Eq, Hash, PartialOrd, Ord)]
pub enum Expansion {
    Vanilla,
    Tbc,
    Wrath,
}

impl Expansion {
    pub const ALL: [Expansion; 3] = [Expansion::Vanilla, Expansion::Tbc, Expansion::Wrath];
    pub fn version(&self) -> WorldVersion {
        match self {
            Expansion::Vanilla => VANILLA,
            Expansion::Tbc => TBC,
            Expansion::Wrath => WRATH,
        }
    }
    pub fn name(&self) -> &'static str {
        match self {
            Expansion::Vanilla => "vanilla",
            Expansion::Tbc => "tbc",
            Expansion::Wrath => "wrath",
        }
    }
}

#[derive(Debug, Clone, Copy, PartialEq, Eq, Hash, PartialOrd, Ord)]
pub enum LoginVersion {
    Specific(u8),
    All,
}

pub const LOGIN_VERSIONS: [u8; 6] = [2, 3, 5, 6, 7, 8];

/// A namespace in which a type name resolves to at most one object.
#[derive(Debug, Clone, Copy, PartialEq, Eq, Hash, PartialOrd, Ord)]
pub enum Ns {
    World(Expansion),
    Login(u8),
}

impl Ns {
    pub fn text(&self) -> String {
        match self {
            Ns::World(e) => e.name().to_string(),
            Ns::Login(v) => format!("login{}", v),
        }
    }
    pub fn all() -> Vec<Ns> {
        let mut v: Vec<Ns> = Expansion::ALL.iter().map(|e| Ns::World(*e)).collect();
        v.extend(LOGIN_VERSIONS.iter().map(|l| Ns::Login(*l)));
        v
    }
}

#[derive(Debug, Clone)]
pub enum Def {
    Definer(Definer),
    Container(Container),
}

#[derive(Debug, Clone)]
pub struct Object {
    pub name: String,
    pub def: Def,
    /// tags after `#tag_all` has been applied (own tags first)
    pub tags: Tags,
    pub world: Vec<WorldVersion>,
    pub login: Vec<LoginVersion>,
    pub file: usize,
    pub item: usize,
    /// Some(i) when this is the i-th copy made by `paste_versions`
    pub pasted: Option<usize>,
}

impl Object {
    pub fn in_ns(&self, ns: Ns) -> bool {
        match ns {
            Ns::World(e) => self.world.iter().any(|v| v.covers(&e.version())),
            Ns::Login(l) => self.login.iter().any(|v| matches!(v, LoginVersion::All) || *v == LoginVersion::Specific(l)),
        }
    }
    pub fn container(&self) -> Option<&Container> {
        match &self.def {
            Def::Container(c) => Some(c),
            _ => None,
        }
    }
    pub fn definer(&self) -> Option<&Definer> {
        match &self.def {
            Def::Definer(d) => Some(d),
            _ => None,
        }
    }
    pub fn line(&self) -> usize {
        match &self.def {
            Def::Container(c) => c.span.line,
            Def::Definer(d) => d.span.line,
        }
    }
    pub fn is_test(&self) -> bool {
        self.tags.is_true("test")
    }
    pub fn versions_text(&self) -> String {
        let mut v: Vec<String> = self.world.iter().map(|w| w.text()).collect();
        v.extend(self.login.iter().map(|l| match l {
            LoginVersion::All => "*".to_string(),
            LoginVersion::Specific(n) => n.to_string(),
        }));
        v.join(" ")
    }
}

#[derive(Debug, Clone)]
pub struct TestObj {
    pub case: TestCase,
    pub tags: Tags,
    pub world: Vec<WorldVersion>,
    pub login: Vec<LoginVersion>,
    pub file: usize,
    pub bytes: Vec<u8>,
}

impl TestObj {
    pub fn in_ns(&self, ns: Ns) -> bool {
        match ns {
            Ns::World(e) => self.world.iter().any(|v| v.covers(&e.version())),
            Ns::Login(l) => self.login.iter().any(|v| matches!(v, LoginVersion::All) || *v == LoginVersion::Specific(l)),
        }
    }
}

#[derive(Debug, Default)]
pub struct Universe {
    pub files: Vec<SourceFile>,
    pub objects: Vec<Object>,
    pub tests: Vec<TestObj>,
    index: BTreeMap<(Ns, String), usize>,
    /// problems found while building (the corpus is expected to have none)
    pub problems: Vec<String>,
}

fn parse_world_versions(s: &str) -> Result<Vec<WorldVersion>, String> {
    let mut v = Vec::new();
    for w in s.split_whitespace() {
        match WorldVersion::parse(w) {
            Some(WorldVersion::All) => return Ok(vec![WorldVersion::All]),
            Some(x) => {
                if !v.contains(&x) {
                    v.push(x)
                }
            }
            None => return Err(format!("invalid version '{}'", w)),
        }
    }
    Ok(v)
}

fn parse_login_versions(s: &str) -> Result<Vec<LoginVersion>, String> {
    let mut v = Vec::new();
    for w in s.split_whitespace() {
        if w == "*" {
            return Ok(vec![LoginVersion::All]);
        }
        match w.parse::<u8>() {
            Ok(n) => {
                if !v.contains(&LoginVersion::Specific(n)) {
                    v.push(LoginVersion::Specific(n))
                }
            }
            Err(_) => return Err(format!("invalid login version '{}'", w)),
        }
    }
    Ok(v)
}

/// own tags followed by the file's `#tag_all` tags ("if a tag already exists tag_all will append the value")
pub fn merged_tags(own: &Tags, commands: &[Command]) -> Tags {
    let mut t = own.clone();
    for c in commands {
        if c.name == "tag_all" {
            t.pairs.push((c.key.clone(), c.value.clone()));
        }
    }
    t
}

fn versions_of(tags: &Tags) -> Result<(Vec<WorldVersion>, Vec<WorldVersion>, Vec<LoginVersion>), String> {
    let mut world = Vec::new();
    let mut paste = Vec::new();
    let mut login = Vec::new();
    for v in tags.all("versions") {
        for x in parse_world_versions(v)? {
            if x == WorldVersion::All {
                world = vec![x];
            } else if !world.contains(&x) && !world.contains(&WorldVersion::All) {
                world.push(x);
            }
        }
    }
    for v in tags.all("paste_versions") {
        for x in parse_world_versions(v)? {
            if !paste.contains(&x) {
                paste.push(x);
            }
        }
    }
    for v in tags.all("login_versions") {
        for x in parse_login_versions(v)? {
            if x == LoginVersion::All {
                login = vec![x];
            } else if !login.contains(&x) && !login.contains(&LoginVersion::All) {
                login.push(x);
            }
        }
    }
    Ok((world, paste, login))
}

impl Universe {
    /// reads every `.wowm` file below `dir` (sorted by path), `rel_root` is stripped from the recorded path
    pub fn load_dir(dir: &Path, rel_root: &Path) -> Result<Universe, String> {
        let mut paths = Vec::new();
        collect(dir, &mut paths);
        paths.sort();
        let mut files = Vec::new();
        for p in paths {
            let text = std::fs::read_to_string(&p).map_err(|e| format!("{}: {}", p.display(), e))?;
            let rel = p.strip_prefix(rel_root).unwrap_or(&p).to_string_lossy().to_string();
            let f = parse_file(&rel, &text).map_err(|e| format!("{}: {}", rel, e))?;
            files.push(f);
        }
        Ok(Universe::from_files(files))
    }

    pub fn from_files(files: Vec<SourceFile>) -> Universe {
        let mut u = Universe { files, ..Default::default() };
        let mut objects = Vec::new();
        let mut tests = Vec::new();
        for (fi, f) in u.files.iter().enumerate() {
            for (ii, item) in f.items.iter().enumerate() {
                let (name, own, def) = match item {
                    Item::Definer(d) => (d.name.clone(), &d.tags, Some(Def::Definer(d.clone()))),
                    Item::Container(c) => (c.name.clone(), &c.tags, Some(Def::Container(c.clone()))),
                    Item::Test(t) => (t.subject.clone(), &t.tags, None),
                };
                let tags = merged_tags(own, &f.commands);
                let (world, paste, login) = match versions_of(&tags) {
                    Ok(x) => x,
                    Err(e) => {
                        u.problems.push(format!("{}: {}: {}", f.path, name, e));
                        continue;
                    }
                };
                match def {
                    None => {
                        if let Item::Test(t) = item {
                            let mut bytes = Vec::new();
                            for b in &t.bytes_text {
                                match parse_int(b) {
                                    Some(v) if (0..=255).contains(&v) => bytes.push(v as u8),
                                    _ => u.problems.push(format!("{}: test {}: bad byte '{}'", f.path, name, b)),
                                }
                            }
                            // tests of pasted objects apply to each pasted version
                            let mut world = world;
                            world.extend(paste.iter().cloned());
                            tests.push(TestObj { case: t.clone(), tags, world, login, file: fi, bytes });
                        }
                    }
                    Some(def) => {
                        if !world.is_empty() && !login.is_empty() {
                            u.problems.push(format!("{}: {} has both world and login versions", f.path, name));
                        }
                        if !paste.is_empty() {
                            // "effectively copy and pastes the textual representation and creates one object per version"
                            for (pi, pv) in paste.iter().enumerate() {
                                objects.push(Object { name: name.clone(), def: def.clone(), tags: tags.clone(), world: vec![*pv], login: vec![], file: fi, item: ii, pasted: Some(pi) });
                            }
                            if !world.is_empty() {
                                objects.push(Object { name: name.clone(), def: def.clone(), tags: tags.clone(), world, login, file: fi, item: ii, pasted: None });
                            }
                        } else {
                            if world.is_empty() && login.is_empty() {
                                u.problems.push(format!("{}: {} has no versions", f.path, name));
                                continue;
                            }
                            objects.push(Object { name, def, tags, world, login, file: fi, item: ii, pasted: None });
                        }
                    }
                }
            }
        }
        u.objects = objects;
        u.tests = tests;
        u.rebuild_index();
        u
    }

    fn rebuild_index(&mut self) {
        self.index.clear();
        for ns in Ns::all() {
            for (i, o) in self.objects.iter().enumerate() {
                if o.in_ns(ns) {
                    if let Some(prev) = self.index.insert((ns, o.name.clone()), i) {
                        let p = &self.objects[prev];
                        self.problems.push(format!("two objects named {} in {}: {}:{} and {}:{}", o.name, ns.text(), self.files[p.file].path, p.line(), self.files[o.file].path, o.line()));
                    }
                }
            }
        }
    }

    pub fn lookup(&self, ns: Ns, name: &str) -> Option<&Object> {
        self.index.get(&(ns, name.to_string())).map(|i| &self.objects[*i])
    }
    pub fn lookup_idx(&self, ns: Ns, name: &str) -> Option<usize> {
        self.index.get(&(ns, name.to_string())).copied()
    }

    pub fn objects_in(&self, ns: Ns) -> Vec<usize> {
        let mut v: Vec<usize> = self.index.iter().filter(|((n, _), _)| *n == ns).map(|(_, i)| *i).collect();
        v.sort();
        v
    }

    pub fn path_of(&self, o: &Object) -> &str {
        &self.files[o.file].path
    }
}

fn collect(dir: &Path, out: &mut Vec<std::path::PathBuf>) {
    let Ok(rd) = std::fs::read_dir(dir) else { return };
    for e in rd.flatten() {
        let p = e.path();
        if p.is_dir() {
            collect(&p, out);
        } else if p.extension().map(|x| x == "wowm").unwrap_or(false) {
            out.push(p);
        }
    }
}
