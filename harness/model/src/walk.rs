//! One walker, two modes: ENCODE (values drawn from a choice tape, bytes and a trace produced) and
//! DECODE (values read from bytes, the same trace produced). All control flow (branches, counts)
//! depends only on the values, so both modes follow the wowm definition identically.
//!
//! Wire forms are those of `lang-spec.md` (built-in types table), `types/*.md`, `compression.md`.
use crate::ast::*;
use crate::parser::parse_int;
use crate::resolve::*;
use std::collections::BTreeMap;

#[derive(Debug, Clone, PartialEq)]
pub enum Val {
    I(i128),
    F(u32),
    S(Vec<u8>),
}

#[derive(Debug, Clone, Copy, PartialEq, Eq, Hash)]
pub enum Role {
    Plain,
    Enum,
    Flag,
    Bool,
    Float,
    Guid,
    /// integer that is the element count of the named array
    LengthOf,
    Constant,
    SelfSize,
    DecompressedSize,
    /// u8/u32 length prefix of String / SizedCString
    StrLen,
    StrBytes,
    Terminator,
    /// pattern word of a mask type / packed guid mask / update mask block
    Mask,
    MaskMember,
    DateTime,
    Opaque,
}

#[derive(Debug, Clone)]
pub struct Leaf {
    pub path: String,
    /// offset inside its region (region 0 = the message body; n>0 = n-th decompressed payload)
    pub offset: usize,
    pub width: usize,
    pub big_endian: bool,
    pub role: Role,
    /// wowm type name of the member (`u32`, `Map`, `CString`, ...)
    pub ty: String,
    /// for Enum/Flag: index of the definer object
    pub definer: Option<usize>,
    pub upcast: bool,
    pub value: Val,
    pub region: usize,
    /// name of the wowm member this leaf belongs to (last path component without index)
    pub field: String,
    /// depth of array nesting: (array path, index, count) innermost last
    pub in_array: Option<(usize, usize)>,
}

#[derive(Debug, Clone, Copy, PartialEq, Eq, Hash)]
pub enum DecKind {
    Enum,
    Flag,
    Int,
    Float,
    Count,
    Optional,
    StrLen,
    Guid,
    Mask,
    Bool,
    Date,
}

#[derive(Debug, Clone)]
pub struct Decision {
    pub site: String,
    pub kind: DecKind,
    pub arity: u32,
    pub chosen: u32,
}

#[derive(Debug, Clone)]
pub struct Region {
    /// offset (in the parent region) of the u32 decompressed-size field
    pub size_field_offset: usize,
    pub parent: usize,
    pub payload: Vec<u8>,
    /// compressed stream as emitted / as found (empty when payload is empty)
    pub stream_len: usize,
}

pub struct Tape<'a> {
    pub data: &'a [u8],
    pub pos: usize,
}

impl<'a> Tape<'a> {
    pub fn new(data: &'a [u8]) -> Self {
        Tape { data, pos: 0 }
    }
    pub fn byte(&mut self) -> u8 {
        let b = self.data.get(self.pos).copied().unwrap_or(0);
        self.pos += 1;
        b
    }
    pub fn bytes(&mut self, n: usize) -> u128 {
        let mut v: u128 = 0;
        for i in 0..n {
            v |= (self.byte() as u128) << (8 * i);
        }
        v
    }
}

enum Io<'a> {
    Enc { tape: Tape<'a>, forced: &'a BTreeMap<String, u32> },
    Dec,
}

#[derive(Debug, Clone, Default)]
pub struct Limits {
    /// CString content bytes
    pub cstring_max: usize,
    pub sized_cstring_max: usize,
    /// element-count caps by array nesting depth
    pub count_caps: [usize; 3],
    /// allow values of classes the docs leave open (Level16 > 255 ...)
    pub wide_levels: bool,
    pub allow_nan: bool,
    /// known findings excluded by construction: definer name -> bits never set when drawing a flag value
    pub avoid_flag_bits: BTreeMap<String, i128>,
}

impl Limits {
    pub fn standard() -> Self {
        Limits { cstring_max: 255, sized_cstring_max: 400, count_caps: [300, 6, 3], wide_levels: false, allow_nan: false, avoid_flag_bits: BTreeMap::new() }
    }
}

pub struct Walker<'a> {
    pub u: &'a Universe,
    pub ns: Ns,
    io: Io<'a>,
    /// stack of (buffer, position, region id); Enc appends to the top buffer, Dec reads from it
    bufs: Vec<(Vec<u8>, usize, usize)>,
    pub regions: Vec<Region>,
    pub trace: Vec<Leaf>,
    pub decisions: Vec<Decision>,
    /// the definition cannot be walked (unknown type, ...): a model/corpus problem
    pub problems: Vec<String>,
    /// DECODE: bytes do not fit the definition; ENCODE: drawn values are not a canonical encoding
    pub invalid: Option<String>,
    pub limits: Limits,
    array_depth: usize,
    array_ctx: Vec<(usize, usize)>,
    depth: usize,
    /// features seen (for class histograms)
    pub features: BTreeMap<&'static str, u32>,
    /// (offset, width, start-of-counted-bytes, region) of `self.size` fields to back-patch
    self_sizes: Vec<(usize, usize, usize, usize)>,
    pending_zlib: Vec<Option<(usize, usize)>>,
    /// variables of flag `else if` chains of which a branch was taken
    pub elseif_flag_taken: Vec<String>,
}

#[derive(Debug, Clone)]
enum EnvVal {
    Int(i128),
    Def(usize, i128),
}

type Env = BTreeMap<String, EnvVal>;

pub const ALPHABET: &[&str] = &[
    "a", "b", "c", "d", "e", "f", "g", "h", "i", "j", "k", "l", "m", "n", "o", "p", "q", "r", "s", "t", "u", "v", "w", "x", "y", "z", "A", "B", "C", "Z", "0", "1", "9", " ", "_", "-", ".", ":", "'", "\"", "\\", "/", "{", "}", "[", "]",
    "|", "%", "\n", "\t", "\u{7f}", "\u{1}", "é", "ß", "ж", "中", "界", "€", "\u{10348}", "😀", "ñ", "ü", "Ω", "~",
];

impl<'a> Walker<'a> {
    pub fn encoder(u: &'a Universe, ns: Ns, tape: &'a [u8], forced: &'a BTreeMap<String, u32>) -> Self {
        Walker {
            u,
            ns,
            io: Io::Enc { tape: Tape::new(tape), forced },
            bufs: vec![(Vec::new(), 0, 0)],
            regions: vec![],
            trace: vec![],
            decisions: vec![],
            problems: vec![],
            invalid: None,
            limits: Limits::standard(),
            array_depth: 0,
            array_ctx: vec![],
            depth: 0,
            features: BTreeMap::new(),
            self_sizes: vec![],
            pending_zlib: vec![],
            elseif_flag_taken: vec![],
        }
    }

    pub fn decoder(u: &'a Universe, ns: Ns, body: &[u8]) -> Self {
        Walker {
            u,
            ns,
            io: Io::Dec,
            bufs: vec![(body.to_vec(), 0, 0)],
            regions: vec![],
            trace: vec![],
            decisions: vec![],
            problems: vec![],
            invalid: None,
            limits: Limits::standard(),
            array_depth: 0,
            array_ctx: vec![],
            depth: 0,
            features: BTreeMap::new(),
            self_sizes: vec![],
            pending_zlib: vec![],
            elseif_flag_taken: vec![],
        }
    }

    pub fn is_enc(&self) -> bool {
        matches!(self.io, Io::Enc { .. })
    }

    fn feat(&mut self, f: &'static str) {
        *self.features.entry(f).or_insert(0) += 1;
    }

    fn fail(&mut self, why: String) {
        if self.invalid.is_none() {
            self.invalid = Some(why);
        }
    }

    pub fn ok(&self) -> bool {
        self.invalid.is_none() && self.problems.is_empty()
    }

    /// body bytes (ENCODE) of region 0
    pub fn body(&self) -> &[u8] {
        &self.bufs[0].0
    }

    /// DECODE: number of unread bytes in the current buffer
    fn remaining(&self) -> usize {
        let (b, p, _) = self.bufs.last().unwrap();
        b.len().saturating_sub(*p)
    }

    pub fn dec_fully_consumed(&self) -> bool {
        self.bufs.len() == 1 && self.remaining() == 0
    }

    fn cur_offset(&self) -> usize {
        let (b, p, _) = self.bufs.last().unwrap();
        if self.is_enc() {
            b.len()
        } else {
            *p
        }
    }
    fn cur_region(&self) -> usize {
        self.bufs.last().unwrap().2
    }

    // ----- decisions -------------------------------------------------------------------------

    fn site(path: &str) -> String {
        // indices stripped: a decision site belongs to the definition, not to one element
        let mut s = String::with_capacity(path.len());
        let mut skip = false;
        for c in path.chars() {
            if c == '[' {
                skip = true;
                s.push_str("[]");
            } else if c == ']' {
                skip = false;
            } else if !skip {
                s.push(c);
            }
        }
        s
    }

    /// ENCODE only: pick one of `arity` alternatives
    fn choose(&mut self, path: &str, kind: DecKind, arity: u32) -> u32 {
        let site = format!("{}#{:?}", Self::site(path), kind);
        let arity = arity.max(1);
        let chosen = match &mut self.io {
            Io::Enc { tape, forced } => {
                let b = tape.byte() as u32;
                match forced.get(&site) {
                    Some(f) => (*f).min(arity - 1),
                    None => (b * arity) >> 8,
                }
            }
            Io::Dec => 0,
        };
        self.decisions.push(Decision { site, kind, arity, chosen });
        chosen
    }

    fn record(&mut self, path: &str, kind: DecKind, arity: u32, chosen: u32) {
        let site = format!("{}#{:?}", Self::site(path), kind);
        self.decisions.push(Decision { site, kind, arity, chosen });
    }

    fn tape_byte(&mut self) -> u8 {
        match &mut self.io {
            Io::Enc { tape, .. } => tape.byte(),
            Io::Dec => 0,
        }
    }
    fn tape_bytes(&mut self, n: usize) -> u128 {
        match &mut self.io {
            Io::Enc { tape, .. } => tape.bytes(n),
            Io::Dec => 0,
        }
    }

    // ----- raw io ------------------------------------------------------------------------------

    fn put(&mut self, bytes: &[u8]) {
        self.bufs.last_mut().unwrap().0.extend_from_slice(bytes);
    }

    fn get(&mut self, n: usize) -> Option<Vec<u8>> {
        let (b, p, _) = self.bufs.last_mut().unwrap();
        if *p + n > b.len() {
            let (have, at) = (b.len() - *p, *p);
            self.fail(format!("truncated: need {} bytes at offset {}, have {}", n, at, have));
            return None;
        }
        let v = b[*p..*p + n].to_vec();
        *p += n;
        Some(v)
    }

    #[allow(clippy::too_many_arguments)]
    fn leaf(&mut self, path: &str, offset: usize, width: usize, be: bool, role: Role, ty: &str, definer: Option<usize>, upcast: bool, value: Val) {
        let field = path.rsplit('.').next().unwrap_or(path);
        let field = field.split('[').next().unwrap_or(field).to_string();
        self.trace.push(Leaf { path: path.to_string(), offset, width, big_endian: be, role, ty: ty.to_string(), definer, upcast, value, region: self.cur_region(), field, in_array: self.array_ctx.last().copied() });
    }

    /// integer leaf: ENCODE writes `draw`'s value, DECODE reads it. Returns the value (sign-extended when `signed`).
    #[allow(clippy::too_many_arguments)]
    fn int_leaf(&mut self, path: &str, width: usize, be: bool, signed: bool, role: Role, ty: &str, definer: Option<usize>, upcast: bool, enc_value: i128) -> i128 {
        let offset = self.cur_offset();
        let v = if self.is_enc() {
            let bits = width * 8;
            let raw = (enc_value as u128) & if bits >= 128 { u128::MAX } else { (1u128 << bits) - 1 };
            let mut bytes: Vec<u8> = (0..width).map(|i| (raw >> (8 * i)) as u8).collect();
            if be {
                bytes.reverse();
            }
            self.put(&bytes);
            enc_value
        } else {
            let Some(mut bytes) = self.get(width) else { return 0 };
            if be {
                bytes.reverse();
            }
            let mut raw: u128 = 0;
            for (i, b) in bytes.iter().enumerate() {
                raw |= (*b as u128) << (8 * i);
            }
            let bits = width * 8;
            if signed && bits < 128 && (raw >> (bits - 1)) & 1 == 1 {
                raw as i128 - (1i128 << bits)
            } else {
                raw as i128
            }
        };
        self.leaf(path, offset, width, be, role, ty, definer, upcast, Val::I(v));
        v
    }

    // ----- value drawing (ENCODE) ----------------------------------------------------------------

    fn draw_int(&mut self, path: &str, bits: usize, signed: bool, range: Option<(i128, i128)>) -> i128 {
        if !self.is_enc() {
            return 0;
        }
        let k = self.choose(path, DecKind::Int, 8);
        let max_u: u128 = if bits >= 128 { u128::MAX } else { (1u128 << bits) - 1 };
        let (lo, hi): (i128, i128) = if signed { (-(1i128 << (bits - 1)), (1i128 << (bits - 1)) - 1) } else { (0, max_u as i128) };
        let mut v: i128 = match k {
            0 => 0,
            1 => 1,
            2 | 3 => self.tape_byte() as i128,
            4 | 5 => {
                let raw = self.tape_bytes(bits / 8) & max_u;
                if signed && (raw >> (bits - 1)) & 1 == 1 {
                    raw as i128 - (1i128 << bits)
                } else {
                    raw as i128
                }
            }
            6 => hi,
            _ => {
                if signed {
                    lo
                } else {
                    (1i128 << (bits - 1)) as i128
                }
            }
        };
        if v > hi {
            v = hi;
        }
        if v < lo {
            v = lo;
        }
        if let Some((a, b)) = range {
            if v < a || v > b {
                // `valid_range`: values outside are not valid encodings; fold into the range
                let span = b - a + 1;
                v = a + (v - a).rem_euclid(span);
            }
        }
        v
    }

    fn draw_count(&mut self, path: &str, bits: usize) -> usize {
        let cap_depth = self.limits.count_caps[self.array_depth.min(2)];
        let type_max: u128 = if bits >= 64 { u64::MAX as u128 } else { (1u128 << bits) - 1 };
        let cap = (cap_depth as u128).min(type_max) as usize;
        let k = self.choose(path, DecKind::Count, 8);
        let n = match k {
            0 => 0,
            1 => 1,
            2 => 2,
            3 => 3,
            4 => (self.tape_byte() % 16) as usize,
            5 => (self.tape_byte() % 64) as usize,
            6 => self.tape_byte() as usize,
            _ => cap,
        };
        n.min(cap)
    }

    fn draw_string(&mut self, path: &str, max_bytes: usize) -> Vec<u8> {
        let k = self.choose(path, DecKind::StrLen, 8);
        let target = match k {
            0 => 0,
            1 => 1,
            2 | 3 => (self.tape_byte() % 16) as usize,
            4 | 5 => self.tape_byte() as usize,
            6 => max_bytes,
            _ => max_bytes.saturating_sub(1),
        }
        .min(max_bytes);
        let mut s: Vec<u8> = Vec::with_capacity(target);
        while s.len() < target {
            let b = self.tape_byte() as usize;
            // index mapped monotonically
            let c = ALPHABET[(b * ALPHABET.len()) >> 8].as_bytes();
            if s.len() + c.len() > target {
                // fill the rest with 1-byte characters
                s.push(b'a' + (b % 26) as u8);
                continue;
            }
            s.extend_from_slice(c);
        }
        s
    }

    fn draw_guid(&mut self, path: &str) -> u64 {
        let k = self.choose(path, DecKind::Guid, 8);
        match k {
            0 => 0,
            1 => 1,
            2 => self.tape_byte() as u64,
            3 => (self.tape_bytes(2) as u64) << 24,       // zero bytes in the middle
            4 => (self.tape_bytes(8) as u64) & 0xFF00_FF00_FF00_FF00, // alternating zero bytes
            5 | 6 => self.tape_bytes(8) as u64,
            _ => u64::MAX,
        }
    }

    fn draw_f32(&mut self, path: &str) -> u32 {
        let k = self.choose(path, DecKind::Float, 8);
        let bits = match k {
            0 => 0f32.to_bits(),
            1 => 1f32.to_bits(),
            2 => (-1.5f32).to_bits(),
            3 => (self.tape_byte() as f32 * 0.25).to_bits(),
            4 | 5 => self.tape_bytes(4) as u32,
            6 => f32::MAX.to_bits(),
            _ => 0x8000_0001, // negative subnormal
        };
        if !self.limits.allow_nan && f32::from_bits(bits).is_nan() {
            self.feat("nan_replaced");
            return bits & 0x807f_ffff | 0x3f00_0000;
        }
        bits
    }

    // ----- definers -------------------------------------------------------------------------------

    pub fn enumerators(&self, obj: usize) -> Vec<(String, i128)> {
        let d = self.u.objects[obj].definer().unwrap();
        d.members.iter().map(|m| (m.name.clone(), parse_int(&m.value_text).unwrap_or(0))).collect()
    }

    fn int_type(name: &str) -> Option<(usize, bool)> {
        Some(match name {
            "u8" => (1, false),
            "u16" => (2, false),
            "u32" => (4, false),
            "u48" => (6, false),
            "u64" => (8, false),
            "i8" => (1, true),
            "i16" => (2, true),
            "i32" => (4, true),
            "i64" => (8, true),
            _ => return None,
        })
    }

    fn walk_definer(&mut self, path: &str, obj: usize, upcast: Option<&str>, constant: Option<&str>) -> i128 {
        let d = self.u.objects[obj].definer().unwrap().clone();
        let wire_ty = upcast.unwrap_or(&d.base);
        let Some((width, signed)) = Self::int_type(wire_ty) else {
            self.problems.push(format!("{}: definer {} has non-integer wire type {}", path, d.name, wire_ty));
            return 0;
        };
        let ens = self.enumerators(obj);
        let is_flag = d.kind == DefinerKind::Flag;
        let mut value: i128 = 0;
        if self.is_enc() {
            if let Some(c) = constant {
                value = match parse_int(c) {
                    Some(v) => v,
                    None => ens.iter().find(|(n, _)| n == c).map(|(_, v)| *v).unwrap_or(0),
                };
            } else if !is_flag {
                let i = self.choose(path, DecKind::Enum, ens.len() as u32) as usize;
                value = ens[i.min(ens.len() - 1)].1;
            } else {
                let n = ens.len() as u32;
                // alternatives: 0 = none, 1..=n single enumerator, n+1 = all, n+2 = subset from the tape
                let site = format!("{}#{:?}", Self::site(path), DecKind::Flag);
                let forced = match &self.io {
                    Io::Enc { forced, .. } => forced.get(&site).copied(),
                    _ => None,
                };
                let b = self.tape_byte() as u32;
                let alt = match forced {
                    Some(f) => f.min(n + 2),
                    None => {
                        if b < 64 {
                            (b * (n + 2)) >> 6
                        } else {
                            n + 2
                        }
                    }
                };
                self.record(path, DecKind::Flag, n + 3, alt);
                if alt == 0 {
                    value = 0;
                } else if alt <= n {
                    value = ens[(alt - 1) as usize].1;
                } else if alt == n + 1 {
                    for (_, v) in &ens {
                        value |= *v;
                    }
                } else {
                    let nbytes = (ens.len() + 7) / 8;
                    let mask = self.tape_bytes(nbytes.min(16));
                    for (i, (_, v)) in ens.iter().enumerate() {
                        if (mask >> i) & 1 == 1 {
                            value |= *v;
                        }
                    }
                }
                if let Some(avoid) = self.limits.avoid_flag_bits.get(&d.name).copied() {
                    if value & avoid != 0 {
                        value &= !avoid;
                        self.feat("excluded_known_finding_flag_bits");
                    }
                }
            }
        }
        let role = if constant.is_some() {
            Role::Constant
        } else if is_flag {
            Role::Flag
        } else {
            Role::Enum
        };
        let v = self.int_leaf(path, width, false, signed, role, &d.name, Some(obj), upcast.is_some(), value);
        if !self.is_enc() && !is_flag && constant.is_none() && !ens.iter().any(|(_, x)| *x == v) {
            self.fail(format!("{}: value {} is not an enumerator of {}", path, v, d.name));
        }
        v
    }

    // ----- strings -------------------------------------------------------------------------------

    fn walk_cstring(&mut self, path: &str, ty: &str, max: usize) -> Vec<u8> {
        let offset = self.cur_offset();
        let s = if self.is_enc() {
            let s = self.draw_string(path, max);
            self.put(&s);
            self.put(&[0]);
            s
        } else {
            let (b, p, _) = self.bufs.last().unwrap();
            let rest = &b[(*p).min(b.len())..];
            match rest.iter().position(|x| *x == 0) {
                Some(n) => {
                    let s = rest[..n].to_vec();
                    let _ = self.get(n + 1);
                    s
                }
                None => {
                    self.fail(format!("{}: unterminated CString", path));
                    return vec![];
                }
            }
        };
        if !self.is_enc() && std::str::from_utf8(&s).is_err() {
            self.fail(format!("{}: CString is not UTF-8", path));
        }
        let n = s.len();
        self.leaf(path, offset, n, false, Role::StrBytes, ty, None, false, Val::S(s.clone()));
        self.leaf(&format!("{}.<nul>", path), offset + n, 1, false, Role::Terminator, ty, None, false, Val::I(0));
        s
    }

    // ----- built-in and user types ---------------------------------------------------------------

    /// walks one value of type `ty`; returns its integer value when it has one
    fn walk_type(&mut self, path: &str, ty: &str, upcast: Option<&str>, field: Option<&Field>) -> Option<EnvVal> {
        if !self.ok() {
            return None;
        }
        let constant = field.and_then(|f| f.value.as_deref()).filter(|v| *v != "self.size");
        let range = field.and_then(|f| f.tags.get("valid_range")).and_then(|r| {
            let mut it = r.split_whitespace().map(|x| x.parse::<i128>().ok());
            Some((it.next()??, it.next()??))
        });
        if let Some((width, signed)) = Self::int_type(ty) {
            if field.and_then(|f| f.value.as_deref()) == Some("self.size") {
                // written now, patched when the enclosing object is complete
                let off = self.cur_offset();
                let v = self.int_leaf(path, width, false, false, Role::SelfSize, ty, None, false, 0);
                self.self_sizes.push((off, width, off + width, self.cur_region()));
                return Some(EnvVal::Int(v));
            }
            let v = match constant {
                Some(c) => {
                    let cv = parse_int(c).unwrap_or(0);
                    self.int_leaf(path, width, false, signed, Role::Constant, ty, None, false, cv)
                }
                None => {
                    let d = self.draw_int(path, width * 8, signed, range);
                    self.int_leaf(path, width, false, signed, Role::Plain, ty, None, false, d)
                }
            };
            return Some(EnvVal::Int(v));
        }
        match ty {
            "Gold" | "Seconds" | "Milliseconds" | "Spell" | "Item" | "Spell16" | "Level" | "Level16" | "Level32" => {
                let (width, narrow) = match ty {
                    "Spell16" => (2, false),
                    "Level" => (1, true),
                    "Level16" => (2, true),
                    "Level32" => (4, true),
                    _ => (4, false),
                };
                let v = match constant {
                    Some(c) => parse_int(c).unwrap_or(0),
                    None => {
                        let bits = if narrow && !self.limits.wide_levels { 8 } else { width * 8 };
                        self.draw_int(path, bits, false, range)
                    }
                };
                let role = if constant.is_some() { Role::Constant } else { Role::Plain };
                let v = self.int_leaf(path, width, false, false, role, ty, None, false, v);
                Some(EnvVal::Int(v))
            }
            "IpAddress" => {
                let d = self.draw_int(path, 32, false, None);
                let v = self.int_leaf(path, 4, true, false, Role::Plain, ty, None, false, d);
                Some(EnvVal::Int(v))
            }
            "Guid" => {
                let d = if self.is_enc() { self.draw_guid(path) as i128 } else { 0 };
                let v = self.int_leaf(path, 8, false, false, Role::Guid, ty, None, false, d);
                Some(EnvVal::Int(v))
            }
            "Bool" | "Bool32" => {
                let width = if ty == "Bool" { 1 } else { 4 };
                let d = if self.is_enc() { self.choose(path, DecKind::Bool, 2) as i128 } else { 0 };
                let v = self.int_leaf(path, width, false, false, Role::Bool, ty, None, false, d);
                Some(EnvVal::Int(v))
            }
            "f32" | "Population" => {
                let offset = self.cur_offset();
                let bits = if self.is_enc() {
                    let b = match constant {
                        Some(c) => c.parse::<f32>().unwrap_or(0.0).to_bits(),
                        None => self.draw_f32(path),
                    };
                    self.put(&b.to_le_bytes());
                    b
                } else {
                    let b = self.get(4)?;
                    u32::from_le_bytes([b[0], b[1], b[2], b[3]])
                };
                self.leaf(path, offset, 4, false, Role::Float, ty, None, false, Val::F(bits));
                None
            }
            "DateTime" => {
                let d = if self.is_enc() {
                    self.choose(path, DecKind::Date, 1);
                    let y = self.tape_byte() as u32;
                    let m = (self.tape_byte() as u32 * 12) >> 8;
                    let dim = crate::calendar::days_in_month(2000 + y as i64, m);
                    let day = (self.tape_byte() as u32 * dim) >> 8;
                    let h = (self.tape_byte() as u32 * 24) >> 8;
                    let mi = (self.tape_byte() as u32 * 60) >> 8;
                    let wd = crate::calendar::weekday(2000 + y as i64, m, day);
                    (y << 24 | m << 20 | day << 14 | wd << 11 | h << 6 | mi) as i128
                } else {
                    0
                };
                let v = self.int_leaf(path, 4, false, false, Role::DateTime, ty, None, false, d);
                if !self.is_enc() && !crate::calendar::valid_datetime(v as u32) {
                    self.fail(format!("{}: invalid DateTime {:#x}", path, v));
                }
                Some(EnvVal::Int(v))
            }
            "CString" => {
                let max = field.and_then(|f| f.tags.get("maximum_length")).and_then(|m| m.parse::<usize>().ok()).map(|m| m.min(self.limits.cstring_max)).unwrap_or(self.limits.cstring_max);
                self.walk_cstring(path, ty, max);
                None
            }
            "SizedCString" => {
                // u32 size (string bytes plus terminator) followed by a CString
                let off = self.cur_offset();
                if self.is_enc() {
                    let max = self.limits.sized_cstring_max;
                    let s = self.draw_string(path, max);
                    self.int_leaf(&format!("{}.<len>", path), 4, false, false, Role::StrLen, ty, None, false, s.len() as i128 + 1);
                    let o2 = self.cur_offset();
                    self.put(&s);
                    self.put(&[0]);
                    self.leaf(path, o2, s.len(), false, Role::StrBytes, ty, None, false, Val::S(s.clone()));
                    self.leaf(&format!("{}.<nul>", path), o2 + s.len(), 1, false, Role::Terminator, ty, None, false, Val::I(0));
                } else {
                    let n = self.int_leaf(&format!("{}.<len>", path), 4, false, false, Role::StrLen, ty, None, false, 0);
                    let s = self.walk_cstring(path, ty, usize::MAX);
                    if s.len() as i128 + 1 != n {
                        self.fail(format!("{}: SizedCString size {} does not match string of {} bytes at {}", path, n, s.len(), off));
                    }
                }
                None
            }
            "String" => {
                if self.is_enc() {
                    let s = self.draw_string(path, 255);
                    self.int_leaf(&format!("{}.<len>", path), 1, false, false, Role::StrLen, ty, None, false, s.len() as i128);
                    let o2 = self.cur_offset();
                    self.put(&s);
                    self.leaf(path, o2, s.len(), false, Role::StrBytes, ty, None, false, Val::S(s));
                } else {
                    let n = self.int_leaf(&format!("{}.<len>", path), 1, false, false, Role::StrLen, ty, None, false, 0) as usize;
                    let o2 = self.cur_offset();
                    let s = self.get(n)?;
                    if std::str::from_utf8(&s).is_err() {
                        self.fail(format!("{}: String is not UTF-8", path));
                    }
                    self.leaf(path, o2, n, false, Role::StrBytes, ty, None, false, Val::S(s));
                }
                None
            }
            "PackedGuid" => {
                let g = if self.is_enc() { self.draw_guid(path) } else { 0 };
                self.walk_packed_guid(path, g);
                None
            }
            "NamedGuid" => {
                let d = if self.is_enc() { self.draw_guid(path) as i128 } else { 0 };
                let v = self.int_leaf(&format!("{}.guid", path), 8, false, false, Role::Guid, ty, None, false, d);
                if v != 0 {
                    let max = self.limits.cstring_max;
                    self.walk_cstring(&format!("{}.name", path), ty, max);
                }
                None
            }
            "VariableItemRandomProperty" => {
                let d = self.draw_int(path, 32, false, None);
                let v = self.int_leaf(&format!("{}.item_random_property_id", path), 4, false, false, Role::Plain, ty, None, false, d);
                if v != 0 {
                    let d2 = self.draw_int(&format!("{}.suffix", path), 32, false, None);
                    self.int_leaf(&format!("{}.item_suffix_factor", path), 4, false, false, Role::Plain, ty, None, false, d2);
                }
                None
            }
            "AuraMask" => {
                match self.ns {
                    Ns::World(Expansion::Vanilla) => self.walk_mask(path, ty, 4, 32, MaskMember::Int(2)),
                    _ => self.walk_mask(path, ty, 8, 64, MaskMember::Struct("Aura")),
                }
                None
            }
            "EnchantMask" => {
                self.walk_mask(path, ty, 2, 16, MaskMember::Int(2));
                None
            }
            "InspectTalentGearMask" => {
                self.walk_mask(path, ty, 4, 32, MaskMember::Struct("InspectTalentGear"));
                None
            }
            "CacheMask" => {
                self.walk_mask(path, ty, 4, 32, MaskMember::Int(4));
                None
            }
            "MonsterMoveSplines" => {
                let c = if self.is_enc() { self.draw_count(&format!("{}.amount", path), 32) } else { 0 };
                let n = self.int_leaf(&format!("{}.<amount>", path), 4, false, false, Role::LengthOf, ty, None, false, c as i128) as usize;
                if !self.is_enc() && n > self.remaining() {
                    self.fail(format!("{}: spline count {} exceeds buffer", path, n));
                    return None;
                }
                for i in 0..n {
                    if i == 0 {
                        for a in ["x", "y", "z"] {
                            self.walk_type(&format!("{}[0].{}", path, a), "f32", None, None);
                        }
                    } else {
                        // packed: x 11 bits, y 11 bits, z 10 bits, quarter units; canonical values are
                        // multiples of 4 quarter-units (the documented from_packed divides by 4 as an integer)
                        let d = if self.is_enc() {
                            let x = ((self.tape_byte() as u32) << 2) & 0x7FC;
                            let y = ((self.tape_byte() as u32) << 2) & 0x7FC;
                            let z = ((self.tape_byte() as u32) << 2) & 0x3FC;
                            (x | y << 11 | z << 22) as i128
                        } else {
                            0
                        };
                        self.int_leaf(&format!("{}[{}].<packed>", path, i), 4, false, false, Role::Opaque, ty, None, false, d);
                    }
                }
                None
            }
            "AchievementDoneArray" | "AchievementInProgressArray" => {
                let st = if ty == "AchievementDoneArray" { "AchievementDone" } else { "AchievementInProgress" };
                let n = if self.is_enc() { self.draw_count(path, 8).min(20) } else { usize::MAX };
                let mut i = 0;
                loop {
                    if self.is_enc() {
                        if i >= n {
                            break;
                        }
                    } else {
                        // sentinel -1 (as u32) in the first member terminates
                        let (b, p, _) = self.bufs.last().unwrap();
                        if *p + 4 <= b.len() && b[*p..*p + 4] == [0xff, 0xff, 0xff, 0xff] {
                            break;
                        }
                        if *p >= b.len() {
                            self.fail(format!("{}: missing sentinel", path));
                            return None;
                        }
                    }
                    let first = self.trace.len();
                    self.walk_struct_named(&format!("{}[{}]", path, i), st);
                    if !self.ok() {
                        return None;
                    }
                    // the sentinel value itself cannot be an element's first member
                    if self.is_enc() && matches!(self.trace.get(first).map(|l| &l.value), Some(Val::I(0xffff_ffff))) {
                        self.fail(format!("{}: element {} starts with the sentinel value", path, i));
                        return None;
                    }
                    i += 1;
                }
                self.int_leaf(&format!("{}.<sentinel>", path), 4, false, false, Role::Terminator, ty, None, false, 0xffff_ffff);
                None
            }
            "UpdateMask" => {
                self.walk_update_mask(path);
                None
            }
            "AddonArray" => {
                self.problems.push(format!("{}: AddonArray needs an externally known element count (types/addon-array.md); no canonical encoding is defined", path));
                None
            }
            _ => {
                let Some(idx) = self.u.lookup_idx(self.ns, ty) else {
                    self.problems.push(format!("{}: unknown type {} in {}", path, ty, self.ns.text()));
                    return None;
                };
                match &self.u.objects[idx].def {
                    Def::Definer(_) => {
                        let v = self.walk_definer(path, idx, upcast, constant);
                        Some(EnvVal::Def(idx, v))
                    }
                    Def::Container(c) => {
                        if upcast.is_some() {
                            self.problems.push(format!("{}: upcast on struct", path));
                        }
                        let c = c.clone();
                        self.walk_container_inner(path, &c);
                        None
                    }
                }
            }
        }
    }

    fn walk_struct_named(&mut self, path: &str, name: &str) {
        let Some(idx) = self.u.lookup_idx(self.ns, name) else {
            self.problems.push(format!("{}: unknown struct {} in {}", path, name, self.ns.text()));
            return;
        };
        let Some(c) = self.u.objects[idx].container().cloned() else {
            self.problems.push(format!("{}: {} is not a struct", path, name));
            return;
        };
        self.walk_container_inner(path, &c);
    }

    fn walk_packed_guid(&mut self, path: &str, guid: u64) -> u64 {
        let bytes = guid.to_le_bytes();
        let mask: u8 = if self.is_enc() { bytes.iter().enumerate().fold(0, |m, (i, b)| if *b != 0 { m | 1 << i } else { m }) } else { 0 };
        let m = self.int_leaf(&format!("{}.<mask>", path), 1, false, false, Role::Mask, "PackedGuid", None, false, mask as i128) as u8;
        let mut out: u64 = 0;
        for i in 0..8 {
            if m & (1 << i) != 0 {
                let b = self.int_leaf(&format!("{}.<byte{}>", path, i), 1, false, false, Role::Guid, "PackedGuid", None, false, bytes[i] as i128) as u64;
                out |= b << (8 * i);
            }
        }
        // zero-width summary leaf carrying the whole guid (for value checks)
        let off = self.cur_offset();
        self.leaf(path, off, 0, false, Role::Guid, "PackedGuid", None, false, Val::I(out as i128));
        out
    }

    fn walk_mask(&mut self, path: &str, ty: &str, mask_width: usize, bits: usize, member: MaskMember) {
        let pattern: u128 = if self.is_enc() {
            let k = self.choose(path, DecKind::Mask, 6);
            let full: u128 = if bits >= 128 { u128::MAX } else { (1u128 << bits) - 1 };
            match k {
                0 => 0,
                1 => 1,
                2 => 1u128 << (bits - 1),
                3 | 4 => self.tape_bytes(mask_width) & full,
                _ => full,
            }
        } else {
            0
        };
        let p = self.int_leaf(&format!("{}.<pattern>", path), mask_width, false, false, Role::Mask, ty, None, false, pattern as i128) as u128;
        for i in 0..bits {
            if (p >> i) & 1 == 1 {
                match member {
                    MaskMember::Int(w) => {
                        let d = self.draw_int(&format!("{}[]", path), w * 8, false, None);
                        self.int_leaf(&format!("{}[{}]", path, i), w, false, false, Role::MaskMember, ty, None, false, d);
                    }
                    MaskMember::Struct(s) => self.walk_struct_named(&format!("{}[{}]", path, i), s),
                }
                if !self.ok() {
                    return;
                }
            }
        }
    }

    fn walk_update_mask(&mut self, path: &str) {
        // types/update-mask.md: u8 amount of u32 mask blocks, the blocks, one u32 per set bit.
        // Canonical masks carry the object TYPE field (index 2) with a valid type value.
        let ty = "UpdateMask";
        if self.is_enc() {
            let k = self.choose(path, DecKind::Mask, 7);
            let type_value: u32 = [0x3u32, 0x7, 0x9, 0x19, 0x21, 0x41, 0x81][k as usize];
            let blocks = 1 + (self.tape_byte() as usize * 6 >> 8);
            let mut masks = vec![0u32; blocks];
            masks[0] |= 1 << 2;
            let extra = self.tape_byte() as usize % 12;
            for _ in 0..extra {
                let bit = (self.tape_bytes(2) as usize) % (blocks * 32);
                masks[bit / 32] |= 1 << (bit % 32);
            }
            self.int_leaf(&format!("{}.<blocks>", path), 1, false, false, Role::LengthOf, ty, None, false, blocks as i128);
            for (i, m) in masks.iter().enumerate() {
                self.int_leaf(&format!("{}.<mask{}>", path, i), 4, false, false, Role::Mask, ty, None, false, *m as i128);
            }
            for bit in 0..blocks * 32 {
                if masks[bit / 32] >> (bit % 32) & 1 == 1 {
                    let v = if bit == 2 { type_value as i128 } else { self.draw_int(&format!("{}[]", path), 32, false, None) };
                    self.int_leaf(&format!("{}[{}]", path, bit), 4, false, false, Role::MaskMember, ty, None, false, v);
                }
            }
        } else {
            let blocks = self.int_leaf(&format!("{}.<blocks>", path), 1, false, false, Role::LengthOf, ty, None, false, 0) as usize;
            let mut masks = Vec::new();
            for i in 0..blocks {
                masks.push(self.int_leaf(&format!("{}.<mask{}>", path, i), 4, false, false, Role::Mask, ty, None, false, 0) as u32);
                if !self.ok() {
                    return;
                }
            }
            for bit in 0..blocks * 32 {
                if masks[bit / 32] >> (bit % 32) & 1 == 1 {
                    self.int_leaf(&format!("{}[{}]", path, bit), 4, false, false, Role::MaskMember, ty, None, false, 0);
                    if !self.ok() {
                        return;
                    }
                }
            }
        }
    }

    // ----- containers ------------------------------------------------------------------------------

    fn eval_cond(&mut self, path: &str, conds: &[Cond], env: &Env) -> bool {
        let mut any = false;
        for c in conds {
            let Some(ev) = env.get(&c.var) else {
                self.problems.push(format!("{}: if on unknown variable {}", path, c.var));
                return false;
            };
            let (obj, v) = match ev {
                EnvVal::Def(o, v) => (*o, *v),
                EnvVal::Int(_) => {
                    self.problems.push(format!("{}: if on non-definer variable {}", path, c.var));
                    return false;
                }
            };
            let ens = self.enumerators(obj);
            let Some(ev) = ens.iter().find(|(n, _)| *n == c.value).map(|(_, v)| *v) else {
                self.problems.push(format!("{}: {} is not an enumerator of the type of {}", path, c.value, c.var));
                return false;
            };
            let r = match c.op {
                CondOp::Eq => v == ev,
                CondOp::Ne => v != ev,
                // `flag & ENUMERATOR`; an enumerator with value 0 ("NONE") holds when no bit is set
                CondOp::And => {
                    if ev == 0 {
                        v == 0
                    } else {
                        v & ev != 0
                    }
                }
            };
            any |= r;
        }
        any
    }

    fn walk_members(&mut self, path: &str, members: &[Member], env: &mut Env, lengths: &BTreeMap<String, ()>) {
        for (mi, m) in members.iter().enumerate() {
            if !self.ok() {
                return;
            }
            match m {
                Member::Unimplemented => {
                    self.problems.push(format!("{}: unimplemented", path));
                }
                Member::Field(f) => {
                    let fpath = if path.is_empty() { f.name.clone() } else { format!("{}.{}", path, f.name) };
                    match &f.ty {
                        TypeRef::Simple { name, upcast } => {
                            // an integer that is the length of a later array is drawn as a count
                            if lengths.contains_key(&f.name) && Self::int_type(name).is_some() && f.value.is_none() {
                                let (w, _) = Self::int_type(name).unwrap();
                                let mut c = if self.is_enc() { self.draw_count(&fpath, w * 8) } else { 0 };
                                // `valid_range`: counts outside are not valid messages
                                if let Some((a, b)) = f.tags.get("valid_range").and_then(|r| {
                                    let mut it = r.split_whitespace().map(|x| x.parse::<usize>().ok());
                                    Some((it.next()??, it.next()??))
                                }) {
                                    if self.is_enc() && (c < a || c > b) {
                                        c = a + (c - a.min(c)) % (b - a + 1);
                                    }
                                }
                                let v = self.int_leaf(&fpath, w, false, false, Role::LengthOf, name, None, false, c as i128);
                                env.insert(f.name.clone(), EnvVal::Int(v));
                                continue;
                            }
                            if let Some(ev) = self.walk_type(&fpath, name, upcast.as_deref(), Some(f)) {
                                env.insert(f.name.clone(), ev);
                            }
                        }
                        TypeRef::Array { inner, size } => {
                            let compressed = f.tags.is_true("compressed");
                            if compressed {
                                self.enter_compressed(&fpath);
                                if !self.ok() {
                                    return;
                                }
                            }
                            self.walk_array(&fpath, inner, size, env, mi + 1 == members.len());
                            if compressed {
                                self.leave_compressed(&fpath);
                            }
                        }
                    }
                }
                Member::If(ifs) => {
                    let mut taken: Option<&Vec<Member>> = None;
                    let mut which = 0u32;
                    for (bi, b) in ifs.branches().enumerate() {
                        if self.eval_cond(path, &b.conds, env) {
                            taken = Some(&b.body);
                            which = bi as u32 + 1;
                            break;
                        }
                    }
                    if taken.is_none() {
                        if let Some(e) = &ifs.else_body {
                            taken = Some(e);
                            which = 1000;
                        }
                    }
                    if which != 0 {
                        self.feat("if_taken");
                        if !ifs.else_ifs.is_empty() && ifs.first.conds[0].op == CondOp::And && which != 1000 {
                            self.feat("elseif_flag_branch_taken");
                            self.elseif_flag_taken.push(ifs.var().to_string());
                        }
                    } else {
                        self.feat("if_not_taken");
                    }
                    let site = format!("{}.if({})@{}", path, ifs.var(), ifs.span.line);
                    self.decisions.push(Decision { site, kind: DecKind::Optional, arity: 0, chosen: which });
                    if let Some(body) = taken {
                        let body = body.clone();
                        self.walk_members(path, &body, env, lengths);
                    }
                }
                Member::Optional(o) => {
                    let opath = if path.is_empty() { o.name.clone() } else { format!("{}.{}", path, o.name) };
                    let present = if self.is_enc() { self.choose(&opath, DecKind::Optional, 2) == 1 } else { self.remaining() > 0 };
                    if !self.is_enc() {
                        self.record(&opath, DecKind::Optional, 2, present as u32);
                    }
                    if present {
                        self.feat("optional_present");
                        let body = o.body.clone();
                        self.walk_members(&opath, &body, env, lengths);
                    } else {
                        self.feat("optional_absent");
                    }
                }
            }
        }
    }

    fn walk_array(&mut self, path: &str, inner: &str, size: &ArraySize, env: &Env, _last: bool) {
        let count: Option<usize> = match size {
            ArraySize::Fixed(n) => Some(*n as usize),
            ArraySize::Variable(v) => match env.get(v) {
                Some(EnvVal::Int(n)) => Some(*n as usize),
                _ => {
                    self.problems.push(format!("{}: array length variable {} not found", path, v));
                    return;
                }
            },
            ArraySize::Endless => {
                if self.is_enc() {
                    Some(self.draw_count(path, 32))
                } else {
                    None
                }
            }
        };
        if let Some(n) = count {
            if !self.is_enc() && n > self.remaining() && n > 0 {
                self.fail(format!("{}: array of {} elements exceeds the {} remaining bytes", path, n, self.remaining()));
                return;
            }
        }
        self.array_depth += 1;
        let mut i = 0usize;
        loop {
            match count {
                Some(n) => {
                    if i >= n {
                        break;
                    }
                }
                None => {
                    if self.remaining() == 0 {
                        break;
                    }
                }
            }
            self.array_ctx.push((i, count.unwrap_or(usize::MAX)));
            self.walk_type(&format!("{}[{}]", path, i), inner, None, None);
            self.array_ctx.pop();
            if !self.ok() {
                break;
            }
            i += 1;
        }
        if i == 0 {
            self.feat("array_empty");
        } else if i == 1 {
            self.feat("array_one");
        } else {
            self.feat("array_many");
        }
        self.array_depth -= 1;
        // record the element count as a pseudo leaf (zero width) so that value checks can see it
        let off = self.cur_offset();
        self.leaf(&format!("{}.<count>", path), off, 0, false, Role::Opaque, inner, None, false, Val::I(i as i128));
    }

    fn enter_compressed(&mut self, path: &str) {
        self.feat("compressed");
        #[allow(unused_assignments)]
        let mut pending_zlib: Option<(usize, usize)> = None;
        if self.is_enc() {
            let id = self.regions.len() + 1;
            let parent = self.cur_region();
            let off = self.cur_offset();
            // placeholder, patched in leave_compressed
            self.int_leaf(&format!("{}.<decompressed_size>", path), 4, false, false, Role::DecompressedSize, "u32", None, false, 0);
            self.regions.push(Region { size_field_offset: off, parent, payload: vec![], stream_len: 0 });
            self.bufs.push((Vec::new(), 0, id));
        } else {
            let parent = self.cur_region();
            let off = self.cur_offset();
            let n = self.int_leaf(&format!("{}.<decompressed_size>", path), 4, false, false, Role::DecompressedSize, "u32", None, false, 0) as usize;
            if !self.ok() {
                return;
            }
            let rest_len = self.remaining();
            let zoff = self.cur_offset();
            let rest = self.get(rest_len).unwrap_or_default();
            pending_zlib = Some((zoff, rest.len()));
            let payload = if rest.is_empty() {
                Vec::new()
            } else {
                match miniz_oxide::inflate::decompress_to_vec_zlib(&rest) {
                    Ok(p) => p,
                    Err(e) => {
                        self.fail(format!("{}: zlib error {:?}", path, e.status));
                        return;
                    }
                }
            };
            if payload.len() != n {
                self.fail(format!("{}: decompressed size field {} but payload is {} bytes", path, n, payload.len()));
                return;
            }
            let id = self.regions.len() + 1;
            self.regions.push(Region { size_field_offset: off, parent, payload: payload.clone(), stream_len: rest.len() });
            self.pending_zlib.push(pending_zlib);
            self.bufs.push((payload, 0, id));
        }
    }

    fn leave_compressed(&mut self, path: &str) {
        if self.bufs.len() < 2 {
            return;
        }
        if self.is_enc() {
            let (payload, _, id) = self.bufs.pop().unwrap();
            let off = self.regions[id - 1].size_field_offset;
            let region = self.cur_region();
            let n = payload.len();
            {
                let buf = &mut self.bufs.last_mut().unwrap().0;
                buf[off..off + 4].copy_from_slice(&(n as u32).to_le_bytes());
            }
            for l in self.trace.iter_mut().rev() {
                if l.role == Role::DecompressedSize && l.offset == off && l.region == region {
                    l.value = Val::I(n as i128);
                    break;
                }
            }
            // an empty payload is sent as size 0 with no stream (as in the captured CMSG_UPDATE_ACCOUNT_DATA)
            let stream = if payload.is_empty() { Vec::new() } else { miniz_oxide::deflate::compress_to_vec_zlib(&payload, 6) };
            let off = self.cur_offset();
            self.put(&stream);
            self.leaf(&format!("{}.<zlib>", path), off, stream.len(), false, Role::Opaque, "zlib", None, false, Val::I(stream.len() as i128));
            self.regions[id - 1].payload = payload;
            self.regions[id - 1].stream_len = stream.len();
        } else {
            let (b, p, _) = self.bufs.pop().unwrap();
            if p != b.len() && self.ok() {
                self.fail(format!("{}: {} bytes of the decompressed payload left over", path, b.len() - p));
            }
            if let Some(Some((zoff, zlen))) = self.pending_zlib.pop() {
                self.leaf(&format!("{}.<zlib>", path), zoff, zlen, false, Role::Opaque, "zlib", None, false, Val::I(zlen as i128));
            }
        }
    }

    fn walk_container_inner(&mut self, path: &str, c: &Container) {
        self.depth += 1;
        if self.depth > 24 {
            self.problems.push(format!("{}: recursion limit", path));
            self.depth -= 1;
            return;
        }
        let mut lengths = BTreeMap::new();
        collect_lengths(&c.members, &mut lengths);
        let mut env = Env::new();
        let first_self_size = self.self_sizes.len();
        let start_region = self.cur_region();
        self.walk_members(path, &c.members, &mut env, &lengths);
        // patch `self.size` fields of this object: bytes of the object following the size field
        if self.is_enc() {
            let end = self.cur_offset();
            while self.self_sizes.len() > first_self_size {
                let (off, width, from, region) = self.self_sizes.pop().unwrap();
                if region != start_region {
                    continue;
                }
                let n = end - from;
                let max: u128 = (1u128 << (width * 8)) - 1;
                if n as u128 > max {
                    self.fail(format!("{}: self.size {} does not fit {} bytes", path, n, width));
                }
                let buf = &mut self.bufs.last_mut().unwrap().0;
                for i in 0..width {
                    buf[off + i] = (n >> (8 * i)) as u8;
                }
                for l in self.trace.iter_mut().rev() {
                    if l.role == Role::SelfSize && l.offset == off && l.region == region {
                        l.value = Val::I(n as i128);
                        break;
                    }
                }
            }
        } else {
            // DECODE: check the announced size
            let end = self.cur_offset();
            while self.self_sizes.len() > first_self_size {
                let (off, _w, from, region) = self.self_sizes.pop().unwrap();
                if region != start_region || !self.ok() {
                    continue;
                }
                let announced = self.trace.iter().rev().find(|l| l.role == Role::SelfSize && l.offset == off && l.region == region).map(|l| l.value.clone());
                if let Some(Val::I(a)) = announced {
                    if a as usize != end - from {
                        self.fail(format!("{}: self.size says {} but {} bytes follow", path, a, end - from));
                    }
                }
            }
        }
        self.depth -= 1;
    }

    /// Walks a whole message/struct body. For containers tagged `compressed` the body is one compressed region.
    pub fn walk_object(&mut self, obj: usize) {
        let o = &self.u.objects[obj];
        let Some(c) = o.container().cloned() else {
            self.problems.push(format!("{} is not a container", o.name));
            return;
        };
        let compressed = o.tags.is_true("compressed");
        if compressed {
            self.enter_compressed("");
            if !self.ok() {
                return;
            }
        }
        self.walk_container_inner("", &c);
        if compressed {
            self.leave_compressed("");
        }
    }

    pub fn into_body(mut self) -> Vec<u8> {
        std::mem::take(&mut self.bufs[0].0)
    }
}

#[derive(Clone, Copy)]
enum MaskMember {
    Int(usize),
    Struct(&'static str),
}

fn collect_lengths(members: &[Member], out: &mut BTreeMap<String, ()>) {
    for m in members {
        match m {
            Member::Field(f) => {
                if let TypeRef::Array { size: ArraySize::Variable(v), .. } = &f.ty {
                    out.insert(v.clone(), ());
                }
            }
            Member::If(i) => {
                for b in i.branches() {
                    collect_lengths(&b.body, out);
                }
                if let Some(e) = &i.else_body {
                    collect_lengths(e, out);
                }
            }
            Member::Optional(o) => collect_lengths(&o.body, out),
            Member::Unimplemented => {}
        }
    }
}
