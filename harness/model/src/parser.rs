//! Hand-written lexer and recursive-descent parser for the wowm surface syntax.
//! Written from `wowm_language/src/spec/lang-spec.md`, `commands.md`, `tags.md` and the grammar file.
use crate::ast::*;

#[derive(Debug, Clone, PartialEq)]
pub enum Tok {
    /// identifiers, keywords, numbers (`0x1F`, `-1`, `1.5`, `self.size`)
    Word(String),
    Str(String),
    Doc(String),
    Punct(&'static str),
    Eof,
}

#[derive(Debug, Clone)]
pub struct Token {
    pub tok: Tok,
    pub span: Span,
}

#[derive(Debug, Clone)]
pub struct ParseError {
    pub msg: String,
    pub line: usize,
    pub offset: usize,
}

impl std::fmt::Display for ParseError {
    fn fmt(&self, f: &mut std::fmt::Formatter<'_>) -> std::fmt::Result {
        write!(f, "line {}: {}", self.line, self.msg)
    }
}

pub fn lex(text: &str) -> Result<Vec<Token>, ParseError> {
    let b = text.as_bytes();
    let mut i = 0usize;
    let mut line = 1usize;
    let mut out = Vec::new();
    let is_word = |c: u8| c.is_ascii_alphanumeric() || c == b'_' || c >= 0x80;
    while i < b.len() {
        let c = b[i];
        if c == b'\n' {
            line += 1;
            i += 1;
            continue;
        }
        if c == b' ' || c == b'\t' || c == b'\r' {
            i += 1;
            continue;
        }
        if c == b'/' && i + 1 < b.len() && b[i + 1] == b'*' {
            let start_line = line;
            let mut j = i + 2;
            loop {
                if j + 1 >= b.len() {
                    return Err(ParseError { msg: "unterminated block comment".into(), line: start_line, offset: i });
                }
                if b[j] == b'*' && b[j + 1] == b'/' {
                    break;
                }
                if b[j] == b'\n' {
                    line += 1;
                }
                j += 1;
            }
            i = j + 2;
            continue;
        }
        if c == b'/' && i + 2 < b.len() && b[i + 1] == b'/' && b[i + 2] == b'/' {
            let mut j = i + 3;
            while j < b.len() && b[j] != b'\n' {
                j += 1;
            }
            let s = &text[i + 3..j];
            out.push(Token { tok: Tok::Doc(s.trim_end_matches('\r').to_string()), span: Span { start: i, end: j, line } });
            i = j;
            continue;
        }
        if c == b'"' {
            let mut j = i + 1;
            while j < b.len() && b[j] != b'"' {
                if b[j] == b'\n' {
                    line += 1;
                }
                j += 1;
            }
            if j >= b.len() {
                return Err(ParseError { msg: "unterminated string".into(), line, offset: i });
            }
            out.push(Token { tok: Tok::Str(text[i + 1..j].to_string()), span: Span { start: i, end: j + 1, line } });
            i = j + 1;
            continue;
        }
        // words, incl. negative numbers and dotted values
        if is_word(c) || (c == b'-' && i + 1 < b.len() && b[i + 1].is_ascii_digit()) {
            let mut j = i + 1;
            loop {
                while j < b.len() && is_word(b[j]) {
                    j += 1;
                }
                if j + 1 < b.len() && b[j] == b'.' && is_word(b[j + 1]) {
                    j += 1;
                    continue;
                }
                break;
            }
            out.push(Token { tok: Tok::Word(text[i..j].to_string()), span: Span { start: i, end: j, line } });
            i = j;
            continue;
        }
        let two = if i + 1 < b.len() { &text[i..i + 2] } else { "" };
        let p: Option<&'static str> = match two {
            "==" => Some("=="),
            "!=" => Some("!="),
            "||" => Some("||"),
            _ => None,
        };
        if let Some(p) = p {
            out.push(Token { tok: Tok::Punct(p), span: Span { start: i, end: i + 2, line } });
            i += 2;
            continue;
        }
        let p: Option<&'static str> = match c {
            b'{' => Some("{"),
            b'}' => Some("}"),
            b'[' => Some("["),
            b']' => Some("]"),
            b'(' => Some("("),
            b')' => Some(")"),
            b';' => Some(";"),
            b',' => Some(","),
            b'=' => Some("="),
            b'&' => Some("&"),
            b'|' => Some("|"),
            b':' => Some(":"),
            b'#' => Some("#"),
            b'-' => Some("-"),
            _ => None,
        };
        match p {
            Some(p) => {
                out.push(Token { tok: Tok::Punct(p), span: Span { start: i, end: i + 1, line } });
                i += 1;
            }
            None => {
                return Err(ParseError { msg: format!("unexpected character '{}'", c as char), line, offset: i });
            }
        }
    }
    out.push(Token { tok: Tok::Eof, span: Span { start: b.len(), end: b.len(), line } });
    Ok(out)
}

struct P<'a> {
    t: &'a [Token],
    i: usize,
}

type R<T> = Result<T, ParseError>;

impl<'a> P<'a> {
    fn peek(&self) -> &Tok {
        &self.t[self.i].tok
    }
    fn peek_at(&self, k: usize) -> &Tok {
        &self.t[(self.i + k).min(self.t.len() - 1)].tok
    }
    fn span(&self) -> Span {
        self.t[self.i].span
    }
    fn prev_end(&self) -> usize {
        if self.i == 0 {
            0
        } else {
            self.t[self.i - 1].span.end
        }
    }
    fn err<T>(&self, msg: &str) -> R<T> {
        Err(ParseError { msg: format!("{} (found {:?})", msg, self.peek()), line: self.span().line, offset: self.span().start })
    }
    fn bump(&mut self) -> Token {
        let t = self.t[self.i].clone();
        if self.i + 1 < self.t.len() {
            self.i += 1;
        }
        t
    }
    fn is_punct(&self, p: &str) -> bool {
        matches!(self.peek(), Tok::Punct(q) if *q == p)
    }
    fn eat(&mut self, p: &str) -> bool {
        if self.is_punct(p) {
            self.bump();
            true
        } else {
            false
        }
    }
    fn expect(&mut self, p: &str) -> R<Span> {
        if self.is_punct(p) {
            Ok(self.bump().span)
        } else {
            self.err(&format!("expected '{}'", p))
        }
    }
    fn word(&mut self) -> R<(String, Span)> {
        match self.peek().clone() {
            Tok::Word(w) => {
                let s = self.bump().span;
                Ok((w, s))
            }
            _ => self.err("expected identifier or value"),
        }
    }
    fn is_word(&self, w: &str) -> bool {
        matches!(self.peek(), Tok::Word(x) if x == w)
    }
    /// value: a word or a quoted string (kept with its quotes so that `"\0AB"` stays recognisable)
    fn value(&mut self) -> R<(String, Span)> {
        match self.peek().clone() {
            Tok::Word(w) => {
                let s = self.bump().span;
                Ok((w, s))
            }
            Tok::Str(s) => {
                let sp = self.bump().span;
                Ok((format!("\"{}\"", s), sp))
            }
            _ => self.err("expected value"),
        }
    }
    fn docs(&mut self) -> Vec<String> {
        let mut v = Vec::new();
        while let Tok::Doc(d) = self.peek().clone() {
            v.push(d);
            self.bump();
        }
        v
    }

    /// `{ key = "value"; ... }`
    fn tags_block(&mut self) -> R<Tags> {
        self.expect("{")?;
        let mut tags = Tags::default();
        while !self.is_punct("}") {
            let (k, _) = self.word()?;
            self.expect("=")?;
            let v = match self.peek().clone() {
                Tok::Str(s) => {
                    self.bump();
                    s
                }
                _ => return self.err("expected quoted tag value"),
            };
            self.expect(";")?;
            tags.pairs.push((k, v));
        }
        self.expect("}")?;
        Ok(tags)
    }

    fn opt_tags(&mut self) -> R<Tags> {
        // a tags block starts with `{ ident = "`
        if self.is_punct("{") && matches!(self.peek_at(1), Tok::Word(_)) && matches!(self.peek_at(2), Tok::Punct("=")) && matches!(self.peek_at(3), Tok::Str(_)) {
            self.tags_block()
        } else {
            Ok(Tags::default())
        }
    }

    fn definer(&mut self, comments: Vec<String>) -> R<Definer> {
        let start = self.span();
        let (kw, _) = self.word()?;
        let kind = if kw == "enum" { DefinerKind::Enum } else { DefinerKind::Flag };
        let (name, name_span) = self.word()?;
        self.expect(":")?;
        let (base, base_span) = self.word()?;
        self.expect("{")?;
        let mut members = Vec::new();
        while !self.is_punct("}") {
            let comments = self.docs();
            let s = self.span();
            let (n, _) = self.word()?;
            self.expect("=")?;
            let (v, _) = self.value()?;
            let tags = if self.eat(";") {
                Tags::default()
            } else {
                self.tags_block()?
            };
            members.push(Enumerator { name: n, value_text: v, tags, comments, span: Span { start: s.start, end: self.prev_end(), line: s.line } });
        }
        self.expect("}")?;
        let tags = self.opt_tags()?;
        Ok(Definer { kind, name, base, members, tags, comments, span: Span { start: start.start, end: self.prev_end(), line: start.line }, name_span, base_span })
    }

    fn conds(&mut self) -> R<Vec<Cond>> {
        self.expect("(")?;
        let mut v = Vec::new();
        loop {
            let (var, var_span) = self.word()?;
            let op_span = self.span();
            let op = if self.eat("==") {
                CondOp::Eq
            } else if self.eat("!=") {
                CondOp::Ne
            } else if self.eat("&") {
                CondOp::And
            } else {
                return self.err("expected ==, != or &");
            };
            let (value, value_span) = self.value()?;
            v.push(Cond { var, op, value, span: Span { start: var_span.start, end: value_span.end, line: var_span.line }, var_span, op_span, value_span });
            if !self.eat("||") {
                break;
            }
        }
        self.expect(")")?;
        Ok(v)
    }

    fn block(&mut self) -> R<Vec<Member>> {
        self.expect("{")?;
        let mut v = Vec::new();
        while !self.is_punct("}") {
            v.push(self.member()?);
        }
        self.expect("}")?;
        Ok(v)
    }

    fn member(&mut self) -> R<Member> {
        let comments = self.docs();
        let start = self.span();
        if self.is_word("if") {
            self.bump();
            let conds = self.conds()?;
            let body = self.block()?;
            let mut else_ifs = Vec::new();
            let mut else_body = None;
            while self.is_word("else") {
                self.bump();
                if self.is_word("if") {
                    self.bump();
                    let c = self.conds()?;
                    let b = self.block()?;
                    else_ifs.push(Branch { conds: c, body: b });
                } else {
                    else_body = Some(self.block()?);
                    break;
                }
            }
            return Ok(Member::If(IfStmt { first: Branch { conds, body }, else_ifs, else_body, span: Span { start: start.start, end: self.prev_end(), line: start.line } }));
        }
        if self.is_word("optional") && matches!(self.peek_at(1), Tok::Word(_)) && matches!(self.peek_at(2), Tok::Punct("{")) {
            self.bump();
            let (name, _) = self.word()?;
            let body = self.block()?;
            let tags = self.opt_tags()?;
            return Ok(Member::Optional(OptionalStmt { name, body, tags, span: Span { start: start.start, end: self.prev_end(), line: start.line } }));
        }
        if self.is_word("unimplemented") && !matches!(self.peek_at(1), Tok::Word(_)) {
            self.bump();
            return Ok(Member::Unimplemented);
        }
        // declaration: [ (upcast) ] type [ '[' size ']' ] name [ = value ] ( ';' | tags )
        let ty_start = self.span();
        let mut upcast = None;
        if self.eat("(") {
            let (u, _) = self.word()?;
            self.expect(")")?;
            upcast = Some(u);
        }
        let (tyname, _) = self.word()?;
        let ty = if self.eat("[") {
            let size = if self.eat("-") {
                ArraySize::Endless
            } else {
                let (w, _) = self.word()?;
                match w.parse::<u64>() {
                    Ok(n) => ArraySize::Fixed(n),
                    Err(_) => ArraySize::Variable(w),
                }
            };
            self.expect("]")?;
            if upcast.is_some() {
                return self.err("upcast on array");
            }
            TypeRef::Array { inner: tyname, size }
        } else {
            TypeRef::Simple { name: tyname, upcast }
        };
        let ty_span = Span { start: ty_start.start, end: self.prev_end(), line: ty_start.line };
        let (name, name_span) = self.word()?;
        let mut value = None;
        if self.eat("=") {
            let (v, _) = self.value()?;
            value = Some(v);
        }
        let tags = if self.eat(";") {
            Tags::default()
        } else {
            self.tags_block()?
        };
        Ok(Member::Field(Field { ty, name, value, tags, comments, span: Span { start: start.start, end: self.prev_end(), line: start.line }, ty_span, name_span }))
    }

    fn container(&mut self, comments: Vec<String>) -> R<Container> {
        let start = self.span();
        let (kw, _) = self.word()?;
        let kind = match kw.as_str() {
            "struct" => ContainerKind::Struct,
            "clogin" => ContainerKind::CLogin,
            "slogin" => ContainerKind::SLogin,
            "smsg" => ContainerKind::Smsg,
            "cmsg" => ContainerKind::Cmsg,
            "msg" => ContainerKind::Msg,
            _ => return self.err("expected container keyword"),
        };
        let (name, name_span) = self.word()?;
        let mut opcode_text = None;
        let mut opcode_span = None;
        if self.eat("=") {
            let (v, s) = self.value()?;
            opcode_text = Some(v);
            opcode_span = Some(s);
        }
        let members = self.block()?;
        let tags = self.opt_tags()?;
        Ok(Container { kind, name, opcode_text, members, tags, comments, span: Span { start: start.start, end: self.prev_end(), line: start.line }, name_span, opcode_span })
    }

    fn test_value(&mut self) -> R<TestValue> {
        if self.is_punct("[") {
            // array of values or array of sub objects
            self.bump();
            if self.is_punct("{") {
                let mut subs = Vec::new();
                while self.is_punct("{") {
                    subs.push(self.test_fields_block()?);
                    self.eat(",");
                }
                self.expect("]")?;
                return Ok(TestValue::ArrayOfSubs(subs));
            }
            let mut vals = Vec::new();
            while !self.is_punct("]") {
                let (v, _) = self.value()?;
                vals.push(v);
                if !self.eat(",") {
                    break;
                }
            }
            self.expect("]")?;
            return Ok(TestValue::Array(vals));
        }
        if self.is_punct("{") {
            return Ok(TestValue::Sub(self.test_fields_block()?));
        }
        let mut vals = Vec::new();
        loop {
            let (v, _) = self.value()?;
            vals.push(v);
            if !self.eat("|") {
                break;
            }
        }
        Ok(TestValue::Scalar(vals))
    }

    fn test_fields_block(&mut self) -> R<Vec<TestField>> {
        self.expect("{")?;
        let mut v = Vec::new();
        while !self.is_punct("}") {
            let _ = self.docs();
            let (name, _) = self.word()?;
            self.expect("=")?;
            let value = self.test_value()?;
            let tags = if self.eat(";") {
                Tags::default()
            } else {
                self.tags_block()?
            };
            v.push(TestField { name, value, tags });
        }
        self.expect("}")?;
        Ok(v)
    }

    fn test(&mut self, comments: Vec<String>) -> R<TestCase> {
        let start = self.span();
        self.bump(); // test
        let (subject, _) = self.word()?;
        let fields = self.test_fields_block()?;
        self.expect("[")?;
        let mut bytes_text = Vec::new();
        while !self.is_punct("]") {
            let (v, _) = self.value()?;
            bytes_text.push(v);
            if !self.eat(",") {
                break;
            }
        }
        self.expect("]")?;
        let tags = self.opt_tags()?;
        Ok(TestCase { subject, fields, bytes_text, tags, comments, span: Span { start: start.start, end: self.prev_end(), line: start.line } })
    }
}

pub fn parse_file(path: &str, text: &str) -> Result<SourceFile, ParseError> {
    let toks = lex(text)?;
    let mut p = P { t: &toks, i: 0 };
    let mut commands = Vec::new();
    while p.is_punct("#") {
        let s = p.span();
        p.bump();
        let (name, _) = p.word()?;
        let (key, _) = p.word()?;
        let value = match p.peek().clone() {
            Tok::Str(s) => {
                p.bump();
                s
            }
            _ => return p.err("expected quoted command value"),
        };
        p.expect(";")?;
        commands.push(Command { name, key, value, span: Span { start: s.start, end: p.prev_end(), line: s.line } });
    }
    let mut items = Vec::new();
    loop {
        let comments = p.docs();
        match p.peek().clone() {
            Tok::Eof => break,
            Tok::Word(w) => match w.as_str() {
                "enum" | "flag" => items.push(Item::Definer(p.definer(comments)?)),
                "struct" | "clogin" | "slogin" | "smsg" | "cmsg" | "msg" => items.push(Item::Container(p.container(comments)?)),
                "test" => items.push(Item::Test(p.test(comments)?)),
                _ => return p.err("expected statement"),
            },
            _ => return p.err("expected statement"),
        }
    }
    Ok(SourceFile { path: path.to_string(), text: text.to_string(), commands, items })
}

/// Numeric value of a wowm literal (decimal, negative, `0x`, `0b`, or a quoted string read as
/// big-endian characters with `\0` = zero byte, as in `lang-spec.md`).
pub fn parse_int(text: &str) -> Option<i128> {
    let t = text.trim();
    if let Some(h) = t.strip_prefix("0x").or_else(|| t.strip_prefix("0X")) {
        return i128::from_str_radix(h, 16).ok();
    }
    if let Some(b) = t.strip_prefix("0b") {
        return i128::from_str_radix(b, 2).ok();
    }
    if t.len() >= 2 && t.starts_with('"') && t.ends_with('"') {
        let inner = &t[1..t.len() - 1];
        let inner = inner.replace("\\0", "\0");
        let mut v: i128 = 0;
        for b in inner.bytes() {
            v = (v << 8) | b as i128;
        }
        return Some(v);
    }
    t.parse::<i128>().ok()
}
