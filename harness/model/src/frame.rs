//! Messages as they travel: opcode and size header around the body
//! (`ir/implementing_world.md` "Message Layout", `ir/implementing_login.md`).
use crate::ast::*;
use crate::parser::parse_int;
use crate::resolve::*;
use crate::walk::*;
use std::collections::BTreeMap;

pub const CMSG_MAX_BODY: usize = 0x2800;

#[derive(Debug, Clone, Copy, PartialEq, Eq, Hash, PartialOrd, Ord)]
pub enum Direction {
    /// sent by the client (cmsg, clogin, msg)
    Client,
    /// sent by the server (smsg, slogin, msg)
    Server,
}

impl Direction {
    pub fn name(&self) -> &'static str {
        match self {
            Direction::Client => "client",
            Direction::Server => "server",
        }
    }
}

#[derive(Debug, Clone)]
pub struct Entry {
    pub obj: usize,
    pub ns: Ns,
    pub dir: Direction,
    pub name: String,
    pub opcode: u32,
}

impl Entry {
    pub fn label(&self) -> String {
        format!("{}/{}/{}", self.ns.text(), self.dir.name(), self.name)
    }
}

/// every (message, namespace, direction) the sources define
pub fn entries(u: &Universe) -> Vec<Entry> {
    let mut v = Vec::new();
    for ns in Ns::all() {
        for i in u.objects_in(ns) {
            let o = &u.objects[i];
            let Some(c) = o.container() else { continue };
            if o.is_test() {
                continue;
            }
            let dirs: &[Direction] = match c.kind {
                ContainerKind::Struct => continue,
                ContainerKind::CLogin | ContainerKind::Cmsg => &[Direction::Client],
                ContainerKind::SLogin | ContainerKind::Smsg => &[Direction::Server],
                ContainerKind::Msg => &[Direction::Client, Direction::Server],
            };
            let opcode = c.opcode_text.as_deref().and_then(parse_int).unwrap_or(-1);
            for d in dirs {
                v.push(Entry { obj: i, ns, dir: *d, name: o.name.clone(), opcode: opcode as u32 });
            }
        }
    }
    v
}

/// header in front of a world body, or None when the header form cannot express the length
pub fn world_header(exp: Expansion, dir: Direction, opcode: u32, body_len: usize) -> Option<Vec<u8>> {
    match dir {
        Direction::Client => {
            let size = body_len + 4;
            if size > 0xFFFF {
                return None;
            }
            let mut h = (size as u16).to_be_bytes().to_vec();
            h.extend_from_slice(&opcode.to_le_bytes());
            Some(h)
        }
        Direction::Server => {
            let size = body_len + 2;
            if exp == Expansion::Wrath && size > 0x7FFF {
                if size > 0x7F_FFFF {
                    return None;
                }
                let mut h = vec![0x80 | (size >> 16) as u8, (size >> 8) as u8, size as u8];
                h.extend_from_slice(&(opcode as u16).to_le_bytes());
                Some(h)
            } else {
                if size > 0xFFFF {
                    return None;
                }
                let mut h = (size as u16).to_be_bytes().to_vec();
                h.extend_from_slice(&(opcode as u16).to_le_bytes());
                Some(h)
            }
        }
    }
}

pub fn header(e: &Entry, body_len: usize) -> Option<Vec<u8>> {
    match e.ns {
        Ns::World(exp) => world_header(exp, e.dir, e.opcode, body_len),
        Ns::Login(_) => Some(vec![e.opcode as u8]),
    }
}

#[derive(Debug, Clone)]
pub struct Encoded {
    pub frame: Vec<u8>,
    pub header_len: usize,
    pub trace: Vec<Leaf>,
    pub decisions: Vec<Decision>,
    pub regions: Vec<Region>,
    pub features: BTreeMap<&'static str, u32>,
    pub elseif_flag_taken: Vec<String>,
}

impl Encoded {
    pub fn body(&self) -> &[u8] {
        &self.frame[self.header_len..]
    }
    pub fn has_compressed(&self) -> bool {
        !self.regions.is_empty()
    }
    /// shape signature: control decisions and length classes (not the values)
    pub fn shape(&self) -> u64 {
        let mut h: u64 = 0xcbf29ce484222325;
        let mut add = |x: u64| {
            h ^= x;
            h = h.wrapping_mul(0x100000001b3);
        };
        for d in &self.decisions {
            match d.kind {
                DecKind::Enum | DecKind::Optional | DecKind::Bool | DecKind::Mask => {
                    for b in d.site.bytes() {
                        add(b as u64);
                    }
                    add(d.chosen as u64);
                }
                DecKind::Flag => {
                    for b in d.site.bytes() {
                        add(b as u64);
                    }
                    add((d.chosen == 0) as u64 + 2 * (d.chosen + 1 == d.arity) as u64);
                }
                _ => {}
            }
        }
        for l in &self.trace {
            if l.path.ends_with(".<count>") {
                if let Val::I(n) = l.value {
                    add(n.min(2) as u64 + 7);
                }
            }
            if l.role == Role::StrBytes {
                add(if l.width == 0 { 11 } else if l.width == 1 { 12 } else { 13 });
            }
        }
        h
    }
    /// non-trivial: a non-default control decision or a non-zero value
    pub fn nontrivial(&self) -> bool {
        self.decisions.iter().any(|d| d.chosen != 0) || self.body().iter().any(|b| *b != 0)
    }
}

#[derive(Debug, Clone)]
pub enum EncodeError {
    /// the drawn values are not a canonical encoding (self.size overflow, frame too large): discard, count
    NotCanonical(String),
    /// the definition cannot be walked by the model
    Problem(String),
}

pub fn encode_with(u: &Universe, e: &Entry, tape: &[u8], forced: &BTreeMap<String, u32>, limits: Option<Limits>) -> Result<Encoded, EncodeError> {
    let mut w = Walker::encoder(u, e.ns, tape, forced);
    if let Some(l) = limits {
        w.limits = l;
    }
    w.walk_object(e.obj);
    if !w.problems.is_empty() {
        return Err(EncodeError::Problem(w.problems.join("; ")));
    }
    if let Some(i) = &w.invalid {
        return Err(EncodeError::NotCanonical(i.clone()));
    }
    let trace = std::mem::take(&mut w.trace);
    let decisions = std::mem::take(&mut w.decisions);
    let regions = std::mem::take(&mut w.regions);
    let features = std::mem::take(&mut w.features);
    let elseif_flag_taken = std::mem::take(&mut w.elseif_flag_taken);
    let body = w.into_body();
    // client messages: the documented largest buffer a client message may have (0x2800), compiled into every
    // reader of a variable-sized CMSG as its upper size bound
    if matches!(e.ns, Ns::World(_)) && e.dir == Direction::Client && body.len() > CMSG_MAX_BODY {
        return Err(EncodeError::NotCanonical(format!("client message body of {} bytes exceeds the documented 0x2800 limit", body.len())));
    }
    let Some(mut frame) = header(e, body.len()) else {
        return Err(EncodeError::NotCanonical(format!("body of {} bytes does not fit the header form", body.len())));
    };
    let header_len = frame.len();
    frame.extend_from_slice(&body);
    Ok(Encoded { frame, header_len, trace, decisions, regions, features, elseif_flag_taken })
}

pub fn encode(u: &Universe, e: &Entry, tape: &[u8], forced: &BTreeMap<String, u32>) -> Result<Encoded, EncodeError> {
    encode_with(u, e, tape, forced, None)
}

#[derive(Debug, Clone)]
pub struct Decoded {
    pub header_len: usize,
    pub opcode: u32,
    pub trace: Vec<Leaf>,
    pub decisions: Vec<Decision>,
    pub regions: Vec<Region>,
}

/// splits a frame into (header_len, opcode, announced body length)
pub fn split_header(ns: Ns, dir: Direction, frame: &[u8]) -> Result<(usize, u32, usize), String> {
    match ns {
        Ns::Login(_) => {
            if frame.is_empty() {
                return Err("empty".into());
            }
            Ok((1, frame[0] as u32, frame.len() - 1))
        }
        Ns::World(exp) => match dir {
            Direction::Client => {
                if frame.len() < 6 {
                    return Err("short header".into());
                }
                let size = u16::from_be_bytes([frame[0], frame[1]]) as usize;
                let opcode = u32::from_le_bytes([frame[2], frame[3], frame[4], frame[5]]);
                if size < 4 {
                    return Err("size below opcode width".into());
                }
                Ok((6, opcode, size - 4))
            }
            Direction::Server => {
                if frame.len() < 4 {
                    return Err("short header".into());
                }
                if exp == Expansion::Wrath && frame[0] & 0x80 != 0 {
                    if frame.len() < 5 {
                        return Err("short header".into());
                    }
                    let size = ((frame[0] & 0x7f) as usize) << 16 | (frame[1] as usize) << 8 | frame[2] as usize;
                    let opcode = u16::from_le_bytes([frame[3], frame[4]]) as u32;
                    if size < 2 {
                        return Err("size below opcode width".into());
                    }
                    Ok((5, opcode, size - 2))
                } else {
                    let size = u16::from_be_bytes([frame[0], frame[1]]) as usize;
                    let opcode = u16::from_le_bytes([frame[2], frame[3]]) as u32;
                    if size < 2 {
                        return Err("size below opcode width".into());
                    }
                    Ok((4, opcode, size - 2))
                }
            }
        },
    }
}

/// model decode of a whole frame of message `e`
pub fn decode(u: &Universe, e: &Entry, frame: &[u8]) -> Result<Decoded, String> {
    let (hl, opcode, body_len) = split_header(e.ns, e.dir, frame)?;
    if opcode != e.opcode {
        return Err(format!("opcode {:#x} is not {}'s {:#x}", opcode, e.name, e.opcode));
    }
    if frame.len() != hl + body_len {
        return Err(format!("header announces {} body bytes, frame has {}", body_len, frame.len() - hl));
    }
    let mut w = Walker::decoder(u, e.ns, &frame[hl..]);
    w.walk_object(e.obj);
    if !w.problems.is_empty() {
        return Err(format!("model problem: {}", w.problems.join("; ")));
    }
    if let Some(i) = &w.invalid {
        return Err(i.clone());
    }
    if !w.dec_fully_consumed() {
        return Err("bytes left over after the last member".into());
    }
    Ok(Decoded { header_len: hl, opcode, trace: std::mem::take(&mut w.trace), decisions: std::mem::take(&mut w.decisions), regions: std::mem::take(&mut w.regions) })
}
