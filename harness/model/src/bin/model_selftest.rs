//! Validates the model against the corpus: every file parses, names resolve, every `test` block's
//! bytes decode under the model exactly to their end, and every message encodes from the zero tape
//! and from a few fixed tapes and decodes back to the same trace.
use std::collections::BTreeMap;
use wowm_model::frame::*;
use wowm_model::resolve::*;

fn main() {
    let repo = std::env::args().nth(1).unwrap_or_else(|| "/repo".into());
    let u = wowm_model::load_corpus(std::path::Path::new(&repo)).unwrap_or_else(|e| {
        eprintln!("LOAD ERROR {}", e);
        std::process::exit(2)
    });
    println!("files={} objects={} tests={} problems={}", u.files.len(), u.objects.len(), u.tests.len(), u.problems.len());
    for p in u.problems.iter().take(20) {
        println!("  problem: {}", p);
    }
    let es = entries(&u);
    println!("entries={}", es.len());
    for ns in Ns::all() {
        println!("  {}: {} objects, {} entries", ns.text(), u.objects_in(ns).len(), es.iter().filter(|e| e.ns == ns).count());
    }
    // test vectors
    let (mut ok, mut bad, mut unmatched) = (0, 0, 0);
    for t in &u.tests {
        let mut matched = false;
        for e in &es {
            if e.name != t.case.subject || !t.in_ns(e.ns) {
                continue;
            }
            // direction: pick the one whose header parses with the right opcode
            match decode(&u, e, &t.bytes) {
                Ok(_) => {
                    ok += 1;
                    matched = true;
                }
                Err(err) => {
                    if err.starts_with("opcode") || err.starts_with("header announces") || err.starts_with("short") || err.starts_with("size below") {
                        continue;
                    }
                    matched = true;
                    bad += 1;
                    println!("  TEST MISMATCH {} ({}): {}", e.label(), u.files[t.file].path, err);
                }
            }
        }
        if !matched {
            unmatched += 1;
            println!("  test for {} in {} matched no entry", t.case.subject, u.files[t.file].path);
        }
    }
    println!("test vectors: decoded ok={} mismatches={} unmatched={}", ok, bad, unmatched);
    // encode / decode agreement
    let forced = BTreeMap::new();
    let tapes: Vec<Vec<u8>> = vec![vec![], vec![0xff; 4096], (0..4096u32).map(|i| (i * 37 + 11) as u8).collect(), (0..4096u32).map(|i| (i * 101 + 200) as u8).collect()];
    let (mut enc_ok, mut enc_nc, mut enc_prob, mut rt_bad) = (0, 0, 0, 0);
    let mut prob_msgs = std::collections::BTreeSet::new();
    for e in &es {
        for t in &tapes {
            match encode(&u, e, t, &forced) {
                Ok(enc) => {
                    enc_ok += 1;
                    match decode(&u, e, &enc.frame) {
                        Ok(d) => {
                            let a: Vec<_> = enc.trace.iter().map(|l| (l.path.clone(), l.offset, l.width, l.value.clone(), l.region)).collect();
                            let b: Vec<_> = d.trace.iter().map(|l| (l.path.clone(), l.offset, l.width, l.value.clone(), l.region)).collect();
                            if a != b {
                                rt_bad += 1;
                                if rt_bad < 10 {
                                    let i = a.iter().zip(b.iter()).position(|(x, y)| x != y).unwrap_or(a.len().min(b.len()));
                                    println!("  TRACE DIFF {} at {}: enc {:?} dec {:?}", e.label(), i, a.get(i), b.get(i));
                                }
                            }
                        }
                        Err(err) => {
                            rt_bad += 1;
                            if rt_bad < 10 {
                                println!("  MODEL DECODE FAIL {}: {}", e.label(), err);
                            }
                        }
                    }
                }
                Err(EncodeError::NotCanonical(_)) => enc_nc += 1,
                Err(EncodeError::Problem(p)) => {
                    enc_prob += 1;
                    if prob_msgs.insert(p.clone()) && prob_msgs.len() < 20 {
                        println!("  PROBLEM {}: {}", e.label(), p);
                    }
                }
            }
        }
    }
    println!("encodings ok={} not_canonical={} problems={} roundtrip_bad={}", enc_ok, enc_nc, enc_prob, rt_bad);
}
