//! Ad-hoc queries over the corpus (development aid).
use wowm_model::ast::*;
use wowm_model::resolve::*;

fn walk(u: &Universe, ns: Ns, o: &Object, c: &Container, members: &[Member], seen_cond: bool, out: &mut Vec<String>) {
    for (i, m) in members.iter().enumerate() {
        match m {
            Member::If(ifs) => {
                let var = ifs.var();
                // type of var
                let is_flag = ifs.first.conds[0].op == CondOp::And;
                if is_flag && !ifs.else_ifs.is_empty() {
                    out.push(format!("ELSEIF_FLAG {} {} var={} branches={}", ns.text(), c.name, var, ifs.branches().map(|b| b.conds.iter().map(|c| c.value.clone()).collect::<Vec<_>>().join("|")).collect::<Vec<_>>().join(",")));
                }
                for b in ifs.branches() {
                    if !b.body.is_empty() && b.body.iter().all(|m| matches!(m, Member::Field(f) if f.value.is_some())) {
                        out.push(format!("CONST_ONLY_BRANCH {} {} var={}", ns.text(), c.name, var));
                    }
                    walk(u, ns, o, c, &b.body, true, out);
                }
                if let Some(e) = &ifs.else_body {
                    if !e.is_empty() && e.iter().all(|m| matches!(m, Member::Field(f) if f.value.is_some())) {
                        out.push(format!("CONST_ONLY_ELSE {} {} var={}", ns.text(), c.name, var));
                    }
                    walk(u, ns, o, c, e, true, out);
                }
                let _ = i;
            }
            Member::Field(f) => {
                if let TypeRef::Array { size: ArraySize::Endless, .. } = &f.ty {
                    // any if statement before this member in the container?
                    let has_if_before = members[..i].iter().any(|m| matches!(m, Member::If(_))) || seen_cond;
                    if has_if_before {
                        out.push(format!("ENDLESS_AFTER_IF {} {} field={}", ns.text(), c.name, f.name));
                    }
                }
                if let TypeRef::Simple { upcast: Some(up), name } = &f.ty {
                    out.push(format!("UPCAST {} {} field={} ({}){}", ns.text(), c.name, f.name, up, name));
                }
            }
            Member::Optional(op) => walk(u, ns, o, c, &op.body, seen_cond, out),
            _ => {}
        }
    }
}

fn main() {
    let u = wowm_model::load_corpus(std::path::Path::new("/repo")).unwrap();
    let mut out = Vec::new();
    for ns in Ns::all() {
        for i in u.objects_in(ns) {
            let o = &u.objects[i];
            if let Some(c) = o.container() {
                walk(&u, ns, o, c, &c.members, false, &mut out);
            }
        }
    }
    let what = std::env::args().nth(1).unwrap_or_default();
    for l in out {
        if l.starts_with(&what) {
            println!("{}", l);
        }
    }
}
