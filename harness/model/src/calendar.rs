//! Proleptic Gregorian calendar for `types/datetime.md`
//! (`years_after_2000 << 24 | month << 20 | month_day << 14 | weekday << 11 | hours << 6 | minutes`, all zero based, weekday 0 = Sunday).

pub fn is_leap(y: i64) -> bool {
    (y % 4 == 0 && y % 100 != 0) || y % 400 == 0
}

pub fn days_in_month(y: i64, m0: u32) -> u32 {
    match m0 {
        0 | 2 | 4 | 6 | 7 | 9 | 11 => 31,
        3 | 5 | 8 | 10 => 30,
        1 => {
            if is_leap(y) {
                29
            } else {
                28
            }
        }
        _ => 0,
    }
}

fn days_from_civil(y: i64, m: i64, d: i64) -> i64 {
    let y = if m <= 2 { y - 1 } else { y };
    let era = if y >= 0 { y } else { y - 399 } / 400;
    let yoe = y - era * 400;
    let mp = (m + 9) % 12;
    let doy = (153 * mp + 2) / 5 + d - 1;
    let doe = yoe * 365 + yoe / 4 - yoe / 100 + doy;
    era * 146097 + doe - 719468
}

/// 0 = Sunday
pub fn weekday(y: i64, m0: u32, d0: u32) -> u32 {
    let z = days_from_civil(y, m0 as i64 + 1, d0 as i64 + 1);
    ((z % 7 + 7 + 4) % 7) as u32
}

pub fn valid_datetime(v: u32) -> bool {
    let minutes = v & 0x3f;
    let hours = (v >> 6) & 0x1f;
    let wd = (v >> 11) & 7;
    let day = (v >> 14) & 0x3f;
    let month = (v >> 20) & 0xf;
    let year = (v >> 24) & 0xff;
    minutes < 60 && hours < 24 && month < 12 && day < days_in_month(2000 + year as i64, month) && weekday(2000 + year as i64, month, day) == wd
}
