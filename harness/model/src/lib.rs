//! Independent reading of the wowm language (no dependency on the crates of /repo).
pub mod ast;
pub mod calendar;
pub mod frame;
pub mod parser;
pub mod resolve;
pub mod sizes;
pub mod walk;

use std::path::Path;

/// Loads the corpus of `/repo` (`wow_message_parser/wowm/**`).
pub fn load_corpus(repo: &Path) -> Result<resolve::Universe, String> {
    resolve::Universe::load_dir(&repo.join("wow_message_parser/wowm"), repo)
}
