//! Exact extremal size analysis of a container: the true minimum and maximum encoded length over
//! its whole conditional structure (not sampling). Conditional members are decided per assignment
//! of the definer variables the `if`s test, so correlated `if`s on one variable are exact.
//!
//! Domain constants are those of DESIGN.md 1.10 (CString <= 255 content bytes, SizedCString <= 7,999,
//! String <= 255); everything else follows from the wire forms.
use crate::ast::*;
use crate::parser::parse_int;
use crate::resolve::*;
use std::collections::BTreeMap;

pub const UNBOUNDED: u128 = u128::MAX;

#[derive(Debug, Clone, Copy, PartialEq, Eq)]
pub struct Interval {
    pub min: u128,
    /// UNBOUNDED when no finite maximum exists
    pub max: u128,
    /// false when `min` is only a lower bound, not a length some encoding has (compressed payloads)
    pub min_achievable: bool,
}

impl Interval {
    pub fn exact(n: u128) -> Self {
        Interval { min: n, max: n, min_achievable: true }
    }
    pub fn new(min: u128, max: u128) -> Self {
        Interval { min, max, min_achievable: true }
    }
    pub fn add(self, o: Interval) -> Interval {
        Interval { min: self.min.saturating_add(o.min), max: if self.max == UNBOUNDED || o.max == UNBOUNDED { UNBOUNDED } else { self.max.saturating_add(o.max) }, min_achievable: self.min_achievable && o.min_achievable }
    }
    pub fn hull(self, o: Interval) -> Interval {
        Interval { min: self.min.min(o.min), max: self.max.max(o.max), min_achievable: if self.min < o.min { self.min_achievable } else if o.min < self.min { o.min_achievable } else { self.min_achievable || o.min_achievable } }
    }
    pub fn times(self, lo: u128, hi: u128) -> Interval {
        Interval { min: self.min.saturating_mul(lo), max: if self.max == UNBOUNDED || hi == UNBOUNDED { if self.max == 0 || hi == 0 { 0 } else { UNBOUNDED } } else { self.max.saturating_mul(hi) }, min_achievable: self.min_achievable || lo == 0 }
    }
    pub fn is_constant(&self) -> bool {
        self.min == self.max
    }
}

#[derive(Debug, Clone)]
pub struct SizeInfo {
    pub interval: Interval,
    /// definer-variable assignment (member name -> value) reaching the minimum / maximum
    pub min_assign: BTreeMap<String, i128>,
    pub max_assign: BTreeMap<String, i128>,
    /// number of assignments enumerated
    pub assignments: u64,
    /// true when the flag-subset enumeration was capped (result then is a sound hull, not exact)
    pub approximate: bool,
}

pub struct Sizer<'a> {
    pub u: &'a Universe,
    pub ns: Ns,
    memo: BTreeMap<usize, Interval>,
    pub cstring_max: u128,
    pub sized_cstring_max: u128,
    /// largest achievable UpdateMask wire size, when known for this namespace
    pub update_mask_max: Option<u128>,
    pub problems: Vec<String>,
}

fn int_width(name: &str) -> Option<u128> {
    Some(match name {
        "u8" | "i8" => 1,
        "u16" | "i16" => 2,
        "u32" | "i32" | "f32" => 4,
        "u48" => 6,
        "u64" | "i64" | "f64" => 8,
        _ => return None,
    })
}

fn collect_if_vars(members: &[Member], out: &mut BTreeMap<String, Vec<String>>) {
    for m in members {
        match m {
            Member::If(i) => {
                for b in i.branches() {
                    for c in &b.conds {
                        let e = out.entry(c.var.clone()).or_default();
                        if !e.contains(&c.value) {
                            e.push(c.value.clone());
                        }
                    }
                    collect_if_vars(&b.body, out);
                }
                if let Some(e) = &i.else_body {
                    collect_if_vars(e, out);
                }
            }
            Member::Optional(o) => collect_if_vars(&o.body, out),
            _ => {}
        }
    }
}

fn find_field<'m>(members: &'m [Member], name: &str) -> Option<&'m Field> {
    for m in members {
        match m {
            Member::Field(f) if f.name == name => return Some(f),
            Member::If(i) => {
                for b in i.branches() {
                    if let Some(f) = find_field(&b.body, name) {
                        return Some(f);
                    }
                }
                if let Some(e) = &i.else_body {
                    if let Some(f) = find_field(e, name) {
                        return Some(f);
                    }
                }
            }
            Member::Optional(o) => {
                if let Some(f) = find_field(&o.body, name) {
                    return Some(f);
                }
            }
            _ => {}
        }
    }
    None
}

impl<'a> Sizer<'a> {
    pub fn new(u: &'a Universe, ns: Ns) -> Self {
        Sizer { u, ns, memo: BTreeMap::new(), cstring_max: 255, sized_cstring_max: 7999, update_mask_max: None, problems: vec![] }
    }

    pub fn type_interval(&mut self, ty: &str, upcast: Option<&str>) -> Interval {
        if let Some(w) = int_width(ty) {
            return Interval::exact(w);
        }
        match ty {
            "Bool" | "Level" => Interval::exact(1),
            "Level16" | "Spell16" => Interval::exact(2),
            "Bool32" | "Gold" | "Seconds" | "Milliseconds" | "Spell" | "Item" | "Level32" | "IpAddress" | "DateTime" | "Population" => Interval::exact(4),
            "Guid" => Interval::exact(8),
            "PackedGuid" => Interval::new(1, 9),
            "CString" => Interval::new(1, self.cstring_max + 1),
            "String" => Interval::new(1, 256),
            "SizedCString" => Interval::new(5, 4 + self.sized_cstring_max + 1),
            "NamedGuid" => Interval::new(8, 8 + self.cstring_max + 1),
            "VariableItemRandomProperty" => Interval::new(4, 8),
            "AuraMask" => match self.ns {
                Ns::World(Expansion::Vanilla) => Interval::new(4, 4 + 32 * 2),
                _ => {
                    let a = self.named_struct("Aura");
                    Interval::new(8, 8).add(a.times(0, 64))
                }
            },
            "EnchantMask" => Interval::new(2, 2 + 16 * 2),
            "CacheMask" => Interval::new(4, 4 + 32 * 4),
            "InspectTalentGearMask" => {
                let a = self.named_struct("InspectTalentGear");
                Interval::new(4, 4).add(a.times(0, 32))
            }
            "MonsterMoveSplines" => Interval::new(4, UNBOUNDED),
            "AchievementDoneArray" | "AchievementInProgressArray" => Interval::new(4, UNBOUNDED),
            // u8 block count, blocks, values; a canonical mask carries the TYPE field
            "UpdateMask" => Interval::new(1 + 4 + 4, self.update_mask_max.unwrap_or(1 + 255 * 4 + 255 * 32 * 4)),
            "AddonArray" => Interval::new(0, UNBOUNDED),
            _ => match self.u.lookup_idx(self.ns, ty) {
                None => {
                    self.problems.push(format!("unknown type {}", ty));
                    Interval::exact(0)
                }
                Some(i) => match &self.u.objects[i].def {
                    Def::Definer(d) => Interval::exact(int_width(upcast.unwrap_or(&d.base)).unwrap_or(0)),
                    Def::Container(_) => self.object_interval(i),
                },
            },
        }
    }

    fn named_struct(&mut self, name: &str) -> Interval {
        match self.u.lookup_idx(self.ns, name) {
            Some(i) => self.object_interval(i),
            None => {
                self.problems.push(format!("unknown struct {}", name));
                Interval::exact(0)
            }
        }
    }

    pub fn object_interval(&mut self, obj: usize) -> Interval {
        if let Some(i) = self.memo.get(&obj) {
            return *i;
        }
        let i = self.object_info(obj).interval;
        self.memo.insert(obj, i);
        i
    }

    fn count_max(&mut self, c: &Container, var: &str) -> u128 {
        match find_field(&c.members, var).map(|f| &f.ty) {
            Some(TypeRef::Simple { name, .. }) => match int_width(name) {
                Some(w) if w < 16 => (1u128 << (8 * w)) - 1,
                _ => UNBOUNDED,
            },
            _ => UNBOUNDED,
        }
    }

    fn members_interval(&mut self, c: &Container, members: &[Member], env: &BTreeMap<String, (usize, i128)>) -> Interval {
        let mut total = Interval::exact(0);
        for m in members {
            match m {
                Member::Unimplemented => {}
                Member::Field(f) => {
                    let iv = match &f.ty {
                        TypeRef::Simple { name, upcast } => self.type_interval(name, upcast.as_deref()),
                        TypeRef::Array { inner, size } => {
                            let e = self.type_interval(inner, None);
                            let a = match size {
                                ArraySize::Fixed(n) => e.times(*n as u128, *n as u128),
                                ArraySize::Variable(v) => {
                                    let cm = self.count_max(c, v);
                                    e.times(0, cm)
                                }
                                ArraySize::Endless => e.times(0, UNBOUNDED),
                            };
                            if f.tags.is_true("compressed") {
                                // u32 decompressed size + zlib stream (nothing when empty)
                                Interval { min: 4, max: UNBOUNDED, min_achievable: a.min == 0 }
                            } else {
                                a
                            }
                        }
                    };
                    total = total.add(iv);
                }
                Member::If(ifs) => {
                    let mut taken: Option<&Vec<Member>> = None;
                    for b in ifs.branches() {
                        let mut any = false;
                        for cnd in &b.conds {
                            let Some((obj, v)) = env.get(&cnd.var) else { continue };
                            let ev = self.u.objects[*obj].definer().and_then(|d| d.members.iter().find(|m| m.name == cnd.value)).and_then(|m| parse_int(&m.value_text)).unwrap_or(0);
                            any |= match cnd.op {
                                CondOp::Eq => *v == ev,
                                CondOp::Ne => *v != ev,
                                CondOp::And => {
                                    if ev == 0 {
                                        *v == 0
                                    } else {
                                        v & ev != 0
                                    }
                                }
                            };
                        }
                        if any {
                            taken = Some(&b.body);
                            break;
                        }
                    }
                    if taken.is_none() {
                        taken = ifs.else_body.as_ref();
                    }
                    if let Some(body) = taken {
                        let iv = self.members_interval(c, body, env);
                        total = total.add(iv);
                    }
                }
                Member::Optional(o) => {
                    let iv = self.members_interval(c, &o.body, env);
                    total = total.add(Interval::new(0, iv.max));
                }
            }
        }
        total
    }

    /// interval of a member list with no definer variable fixed (nested ifs then count as absent)
    pub fn body_interval(&mut self, c: &Container, body: &[Member]) -> Interval {
        self.members_interval(c, body, &BTreeMap::new())
    }

    pub fn object_info(&mut self, obj: usize) -> SizeInfo {
        let o = &self.u.objects[obj];
        let Some(c) = o.container().cloned() else {
            return SizeInfo { interval: Interval::exact(0), min_assign: BTreeMap::new(), max_assign: BTreeMap::new(), assignments: 0, approximate: false };
        };
        let compressed = o.tags.is_true("compressed");
        let mut vars: BTreeMap<String, Vec<String>> = BTreeMap::new();
        collect_if_vars(&c.members, &mut vars);
        // candidate values per variable
        let mut domains: Vec<(String, usize, Vec<i128>)> = Vec::new();
        let mut approximate = false;
        for (var, mentioned) in &vars {
            let Some(f) = find_field(&c.members, var) else {
                self.problems.push(format!("{}: if on unknown variable {}", c.name, var));
                continue;
            };
            let TypeRef::Simple { name: tyname, .. } = &f.ty else { continue };
            let Some(di) = self.u.lookup_idx(self.ns, tyname) else { continue };
            let Some(d) = self.u.objects[di].definer() else { continue };
            let vals: Vec<(String, i128)> = d.members.iter().map(|m| (m.name.clone(), parse_int(&m.value_text).unwrap_or(0))).collect();
            let dom: Vec<i128> = match d.kind {
                DefinerKind::Enum => vals.iter().map(|(_, v)| *v).collect(),
                DefinerKind::Flag => {
                    let ms: Vec<i128> = mentioned.iter().filter_map(|m| vals.iter().find(|(n, _)| n == m).map(|(_, v)| *v)).filter(|v| *v != 0).collect();
                    let k = ms.len().min(16);
                    if ms.len() > 16 {
                        approximate = true;
                    }
                    let mut dom: Vec<i128> = (0..(1u32 << k)).map(|mask| ms.iter().take(k).enumerate().fold(0i128, |acc, (i, v)| if mask >> i & 1 == 1 { acc | v } else { acc })).collect();
                    if ms.len() > k {
                        // capped: add every tested bit at once (the maximum when the conditional blocks are independent)
                        // and each of the remaining bits on top of nothing and of everything else
                        let all = ms.iter().fold(0i128, |a, v| a | v);
                        dom.push(all);
                        for v in ms.iter().skip(k) {
                            dom.push(*v);
                            dom.push(all & !*v);
                        }
                    }
                    dom
                }
            };
            domains.push((var.clone(), di, dom));
        }
        let mut best: Option<(Interval, BTreeMap<String, i128>, BTreeMap<String, i128>)> = None;
        let mut idx = vec![0usize; domains.len()];
        let mut assignments = 0u64;
        let total: u128 = domains.iter().map(|d| d.2.len().max(1) as u128).product();
        if total > 4_000_000 {
            approximate = true;
        }
        loop {
            let mut env: BTreeMap<String, (usize, i128)> = BTreeMap::new();
            for (k, (var, di, dom)) in domains.iter().enumerate() {
                if let Some(v) = dom.get(idx[k]) {
                    env.insert(var.clone(), (*di, *v));
                }
            }
            let iv = self.members_interval(&c, &c.members, &env);
            assignments += 1;
            let asg: BTreeMap<String, i128> = env.iter().map(|(k, v)| (k.clone(), v.1)).collect();
            best = Some(match best {
                None => (iv, asg.clone(), asg),
                Some((b, mn, mx)) => {
                    let nmn = if iv.min < b.min { asg.clone() } else { mn };
                    let nmx = if iv.max > b.max { asg.clone() } else { mx };
                    (b.hull(iv), nmn, nmx)
                }
            });
            // next assignment
            let mut k = 0;
            loop {
                if k == domains.len() {
                    break;
                }
                idx[k] += 1;
                if idx[k] < domains[k].2.len() {
                    break;
                }
                idx[k] = 0;
                k += 1;
            }
            if k == domains.len() || assignments >= 4_000_000 {
                break;
            }
        }
        let (mut interval, min_assign, max_assign) = best.unwrap();
        if compressed {
            // u32 decompressed size + zlib stream of the members (nothing when they are empty)
            interval = Interval { min: 4, max: UNBOUNDED, min_achievable: interval.min == 0 };
        }
        SizeInfo { interval, min_assign, max_assign, assignments, approximate }
    }
}
