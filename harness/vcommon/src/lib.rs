//! Shared plumbing of the /verif checks: seeds, tiers, evidence files, known findings, replay files.
//! Nothing in here knows about wow_messages.

use serde_json::{json, Map, Value};
use std::collections::{BTreeMap, BTreeSet};
use std::io::Write;
use std::path::{Path, PathBuf};
use std::time::Instant;

pub const VERIF_ROOT: &str = "/verif";

#[derive(Debug, Clone, Copy, PartialEq, Eq)]
pub enum Tier {
    Quick,
    Thorough,
}

impl Tier {
    pub fn as_str(&self) -> &'static str {
        match self {
            Tier::Quick => "quick",
            Tier::Thorough => "thorough",
        }
    }
    pub fn pick<T>(&self, quick: T, thorough: T) -> T {
        match self {
            Tier::Quick => quick,
            Tier::Thorough => thorough,
        }
    }
}

pub fn env_seed() -> u64 {
    std::env::var("VERIF_SEED")
        .ok()
        .and_then(|s| s.trim().parse::<i128>().ok())
        .map(|v| v as u64)
        .unwrap_or(1)
}

pub fn env_tier() -> Tier {
    match std::env::var("VERIF_TIER").ok().as_deref() {
        Some("thorough") => Tier::Thorough,
        _ => Tier::Quick,
    }
}

pub fn verif_root() -> PathBuf {
    PathBuf::from(std::env::var("VERIF_ROOT").unwrap_or_else(|_| VERIF_ROOT.to_string()))
}

pub fn repo_root() -> PathBuf {
    PathBuf::from(std::env::var("VERIF_REPO").unwrap_or_else(|_| "/repo".to_string()))
}

/// splitmix64: used only to derive sub-seeds (per site) from VERIF_SEED, never to draw test data.
pub fn mix(seed: u64, salt: u64) -> u64 {
    let mut z = seed.wrapping_add(salt.wrapping_mul(0x9E3779B97F4A7C15)).wrapping_add(0x9E3779B97F4A7C15);
    z = (z ^ (z >> 30)).wrapping_mul(0xBF58476D1CE4E5B9);
    z = (z ^ (z >> 27)).wrapping_mul(0x94D049BB133111EB);
    z ^ (z >> 31)
}

pub fn fnv(s: &[u8]) -> u64 {
    let mut h: u64 = 0xcbf29ce484222325;
    for b in s {
        h ^= *b as u64;
        h = h.wrapping_mul(0x100000001b3);
    }
    h
}

pub fn hex(b: &[u8]) -> String {
    let mut s = String::with_capacity(b.len() * 2);
    for x in b {
        s.push_str(&format!("{:02x}", x));
    }
    s
}

pub fn unhex(s: &str) -> Vec<u8> {
    let s: Vec<u8> = s.bytes().filter(|c| c.is_ascii_hexdigit()).collect();
    s.chunks(2)
        .map(|c| u8::from_str_radix(std::str::from_utf8(c).unwrap(), 16).unwrap())
        .collect()
}

/// hex for evidence samples: long inputs are abbreviated.
pub fn hex_short(b: &[u8]) -> String {
    if b.len() <= 96 {
        hex(b)
    } else {
        format!("{}..({} bytes)..{}", hex(&b[..64]), b.len(), hex(&b[b.len() - 16..]))
    }
}

/// A proptest runner seeded from VERIF_SEED and a salt; no persistence, no forking.
pub fn runner(seed: u64, salt: u64, cases: u32) -> proptest::test_runner::TestRunner {
    use proptest::test_runner::{Config, RngAlgorithm, TestRng, TestRunner};
    let mut cfg = Config::default();
    cfg.cases = cases;
    cfg.failure_persistence = None;
    cfg.max_shrink_iters = 4096;
    cfg.max_global_rejects = 1_000_000;
    cfg.verbose = 0;
    let s = mix(seed, salt);
    let mut bytes = [0u8; 32];
    for i in 0..4 {
        bytes[i * 8..i * 8 + 8].copy_from_slice(&mix(s, i as u64).to_le_bytes());
    }
    TestRunner::new_with_rng(cfg, TestRng::from_seed(RngAlgorithm::ChaCha, &bytes))
}

// ---------------------------------------------------------------------------------------------
// Known findings

#[derive(Debug, Clone)]
pub struct Finding {
    pub property: String,
    pub sig: String,
    pub text: String,
}

#[derive(Debug, Default)]
pub struct KnownFindings {
    pub findings: Vec<Finding>,
    pub fixed: Vec<String>,
}

impl KnownFindings {
    pub fn load() -> Self {
        let p = verif_root().join("known_findings.txt");
        let mut k = KnownFindings::default();
        let Ok(s) = std::fs::read_to_string(&p) else { return k };
        for line in s.lines() {
            let line = line.trim();
            if line.starts_with('#') || line.is_empty() {
                continue;
            }
            if let Some(rest) = line.strip_prefix("finding:") {
                let rest = rest.trim();
                let mut property = String::new();
                let mut sig = String::new();
                let mut text = Vec::new();
                for tok in rest.split_whitespace() {
                    if let Some(p) = tok.strip_prefix("property=") {
                        if property.is_empty() {
                            property = p.to_string();
                            continue;
                        }
                    }
                    if let Some(p) = tok.strip_prefix("sig=") {
                        if sig.is_empty() {
                            sig = p.to_string();
                            continue;
                        }
                    }
                    text.push(tok);
                }
                k.findings.push(Finding { property, sig, text: text.join(" ") });
            } else if let Some(rest) = line.strip_prefix("fixed:") {
                k.fixed.push(rest.trim().to_string());
            }
        }
        k
    }

    /// exact-signature match
    pub fn lookup(&self, property: &str, sig: &str) -> Option<&Finding> {
        self.findings.iter().find(|f| f.property == property && f.sig == sig)
    }

    pub fn has(&self, property: &str, sig: &str) -> bool {
        self.lookup(property, sig).is_some()
    }
}

// ---------------------------------------------------------------------------------------------
// Check context: counts, samples, violations, evidence

pub struct Check {
    pub id: String,
    pub tier: Tier,
    pub seed: u64,
    pub level: String,
    start: Instant,
    pub evaluations: u64,
    distinct: BTreeSet<u64>,
    distinct_override: Option<u64>,
    pub rule: String,
    pub samples: Vec<Value>,
    pub max_samples: usize,
    pub extra: Map<String, Value>,
    pub assumptions: Vec<String>,
    pub histogram: BTreeMap<String, u64>,
    pub known: KnownFindings,
    known_hit: BTreeMap<String, u64>,
    pub violations: u64,
    violation_sigs: BTreeSet<String>,
    pub inconclusive: Vec<String>,
    pub exhaustive: Option<bool>,
}

impl Check {
    pub fn new(id: &str, tier: Tier) -> Self {
        Check {
            id: id.to_string(),
            tier,
            seed: env_seed(),
            level: "exploration".to_string(),
            start: Instant::now(),
            evaluations: 0,
            distinct: BTreeSet::new(),
            distinct_override: None,
            rule: String::new(),
            samples: Vec::new(),
            max_samples: 12,
            extra: Map::new(),
            assumptions: Vec::new(),
            histogram: BTreeMap::new(),
            known: KnownFindings::load(),
            known_hit: BTreeMap::new(),
            violations: 0,
            violation_sigs: BTreeSet::new(),
            inconclusive: Vec::new(),
            exhaustive: None,
        }
    }

    pub fn eval(&mut self) {
        self.evaluations += 1;
    }
    pub fn evals(&mut self, n: u64) {
        self.evaluations += n;
    }
    /// record a distinct non-trivial case by its shape signature
    pub fn nontrivial(&mut self, sig: u64) {
        self.distinct.insert(sig);
    }
    pub fn nontrivial_str(&mut self, sig: &str) {
        self.distinct.insert(fnv(sig.as_bytes()));
    }
    pub fn distinct_count(&self) -> usize {
        self.distinct_override.map(|d| d as usize).unwrap_or(self.distinct.len())
    }
    /// for exhaustive sweeps that count distinct class representatives arithmetically
    pub fn set_distinct(&mut self, n: u64) {
        self.distinct_override = Some(n);
    }
    pub fn count(&mut self, class: &str) {
        *self.histogram.entry(class.to_string()).or_insert(0) += 1;
    }
    pub fn count_n(&mut self, class: &str, n: u64) {
        *self.histogram.entry(class.to_string()).or_insert(0) += n;
    }
    pub fn sample(&mut self, v: Value) {
        if self.samples.len() < self.max_samples {
            self.samples.push(v);
        }
    }
    pub fn want_sample(&self) -> bool {
        self.samples.len() < self.max_samples
    }
    pub fn assume(&mut self, s: &str) {
        if !self.assumptions.iter().any(|a| a == s) {
            self.assumptions.push(s.to_string());
        }
    }

    /// Report a failed case. `sig` is the finding signature; if `known_findings.txt` lists it the
    /// case is printed (once) as KNOWN-FINDING and does not fail the run; otherwise a replay file is
    /// written and a VIOLATION line printed (once per signature).
    pub fn fail(&mut self, sig: &str, what: &str, replay: Value) -> bool {
        if let Some(f) = self.known.lookup(&self.id, sig) {
            let n = self.known_hit.entry(sig.to_string()).or_insert(0);
            if *n == 0 {
                println!("KNOWN-FINDING: property={} sig={} {}", self.id, sig, f.text);
            }
            *n += 1;
            return true;
        }
        self.violations += 1;
        let cap = std::env::var("VERIF_MAX_VIOLATIONS").ok().and_then(|v| v.parse::<usize>().ok()).unwrap_or(40);
        if self.violation_sigs.insert(sig.to_string()) && self.violation_sigs.len() <= cap {
            let path = self.write_replay(sig, what, replay);
            println!("VIOLATION property={} replay={}", self.id, path.display());
            println!("  sig={} {}", sig, what);
        }
        false
    }

    pub fn known_hits(&self, sig: &str) -> u64 {
        self.known_hit.get(sig).copied().unwrap_or(0)
    }

    /// print KNOWN-FINDING for a listed finding that the run excluded by construction and confirmed with a probe
    pub fn known_probe(&mut self, sig: &str) {
        self.fail(sig, "probe", Value::Null);
    }

    fn write_replay(&self, sig: &str, what: &str, mut replay: Value) -> PathBuf {
        let dir = verif_root().join("replays").join(&self.id);
        let _ = std::fs::create_dir_all(&dir);
        if !replay.is_object() {
            replay = json!({ "case": replay });
        }
        let o = replay.as_object_mut().unwrap();
        o.insert("property".into(), json!(self.id));
        o.insert("sig".into(), json!(sig));
        o.insert("what".into(), json!(what));
        o.insert("seed".into(), json!(self.seed));
        o.insert("tier".into(), json!(self.tier.as_str()));
        let text = serde_json::to_string_pretty(&replay).unwrap();
        let name = format!("{:016x}.json", fnv(format!("{}{}", sig, text).as_bytes()));
        let path = dir.join(name);
        let _ = std::fs::write(&path, text);
        path
    }

    pub fn inconclusive(&mut self, why: &str) {
        self.inconclusive.push(why.to_string());
    }

    pub fn write_evidence(&self) {
        let mut coverage = Map::new();
        coverage.insert("evaluations".into(), json!(self.evaluations.max(0)));
        coverage.insert("distinct_nontrivial".into(), json!(self.distinct_count()));
        coverage.insert("rule".into(), json!(self.rule));
        coverage.insert("samples".into(), Value::Array(self.samples.clone()));
        if let Some(e) = self.exhaustive {
            coverage.insert("exhaustive".into(), json!(e));
        }
        if !self.histogram.is_empty() {
            coverage.insert("classes".into(), json!(self.histogram));
        }
        if !self.known_hit.is_empty() {
            coverage.insert("known_finding_hits".into(), json!(self.known_hit));
        }
        for (k, v) in &self.extra {
            coverage.insert(k.clone(), v.clone());
        }
        let ev = json!({
            "property_id": self.id,
            "tier": self.tier.as_str(),
            "seed": self.seed as i64,
            "level": self.level,
            "coverage": coverage,
            "assumptions": self.assumptions,
            "wall_s": (self.start.elapsed().as_secs_f64() * 100.0).round() / 100.0,
            "violations": self.violations,
            "inconclusive": self.inconclusive,
        });
        let dir = verif_root().join("evidence");
        let _ = std::fs::create_dir_all(&dir);
        let p = dir.join(format!("{}.json", self.id));
        let tmp = dir.join(format!(".{}.json.tmp", self.id));
        std::fs::write(&tmp, serde_json::to_string_pretty(&ev).unwrap()).expect("write evidence");
        std::fs::rename(&tmp, &p).expect("rename evidence");
    }

    /// writes evidence, prints a summary and returns the process exit code
    pub fn finish(&self) -> i32 {
        // every listed finding of this property is printed, also when this run excluded it by construction
        for f in &self.known.findings {
            if f.property == self.id && !self.known_hit.contains_key(&f.sig) {
                println!("KNOWN-FINDING: property={} sig={} {} [not re-observed in this run: excluded by construction]", self.id, f.sig, f.text);
            }
        }
        self.write_evidence();
        let _ = std::io::stdout().flush();
        eprintln!(
            "[{}] tier={} seed={} evaluations={} distinct_nontrivial={} violations={} wall={:.1}s",
            self.id,
            self.tier.as_str(),
            self.seed,
            self.evaluations,
            self.distinct_count(),
            self.violations,
            self.start.elapsed().as_secs_f64()
        );
        if self.violations > 0 {
            1
        } else if !self.inconclusive.is_empty() {
            for i in &self.inconclusive {
                eprintln!("[{}] INCONCLUSIVE: {}", self.id, i);
            }
            2
        } else {
            0
        }
    }
}

pub fn read_json(p: &Path) -> Value {
    serde_json::from_str(&std::fs::read_to_string(p).unwrap_or_else(|e| panic!("read {}: {e}", p.display())))
        .unwrap_or_else(|e| panic!("parse {}: {e}", p.display()))
}

// ---------------------------------------------------------------------------------------------
// proptest search helper

/// Runs `cases` generated cases of `strat` through `f`. `f` gets `counting = true` until the first
/// failure (proptest re-runs the closure while shrinking; evidence counters must not include those).
/// Returns the shrunk failing value and its message, if any.
pub fn prop_search<S, F>(seed: u64, salt: u64, cases: u32, strat: &S, f: F) -> Option<(S::Value, String)>
where
    S: proptest::strategy::Strategy,
    S::Value: Clone + std::fmt::Debug,
    F: FnMut(&S::Value, bool) -> Result<(), String>,
{
    use proptest::test_runner::{TestCaseError, TestError};
    let failed = std::cell::Cell::new(false);
    let f = std::cell::RefCell::new(f);
    let mut r = runner(seed, salt, cases);
    let res = r.run(strat, |v| {
        let counting = !failed.get();
        let out = (f.borrow_mut())(&v, counting);
        match out {
            Ok(()) => Ok(()),
            Err(e) => {
                failed.set(true);
                Err(TestCaseError::fail(e))
            }
        }
    });
    match res {
        Ok(()) => None,
        Err(TestError::Fail(reason, v)) => Some((v, reason.message().to_string())),
        Err(TestError::Abort(reason)) => panic!("proptest aborted: {}", reason.message()),
    }
}
