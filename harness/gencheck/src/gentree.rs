//! A generated tree: scratch copy + one generator run + the artefacts read back, together with the
//! independent model's reading of the same (possibly mutated) wowm sources.
use crate::scratch::*;
use serde_json::Value;
use std::path::Path;
use wowm_model::resolve::*;

pub struct GenTree {
    pub scratch: Scratch,
    pub run: GenRun,
    pub ir: Value,
    pub u: Universe,
}

impl GenTree {
    /// runs the generator in `scratch` (whose wowm files may have been edited) and reads the results
    pub fn generate(scratch: Scratch, bin: &Path) -> Result<GenTree, (Scratch, GenRun)> {
        let run = scratch.run_generator(bin);
        if run.status != Some(0) {
            return Err((scratch, run));
        }
        let ir = vcommon::read_json(&scratch.path("intermediate_representation.json"));
        let u = match wowm_model::load_corpus(&scratch.root) {
            Ok(u) => u,
            Err(e) => {
                let mut run = run;
                run.stderr = format!("model could not read the tree: {}", e);
                run.status = None;
                return Err((scratch, run));
            }
        };
        Ok(GenTree { scratch, run, ir, u })
    }
}

/// namespaces an IR `object_tags.version` value covers
pub fn ir_namespaces(tags: &Value) -> Vec<Ns> {
    let v = &tags["version"];
    let mut out = Vec::new();
    match v["version_type_tag"].as_str() {
        Some("world") => {
            let vt = &v["version_type"];
            match vt["world_version_tag"].as_str() {
                Some("all") => out.extend(Expansion::ALL.iter().map(|e| Ns::World(*e))),
                _ => {
                    for w in vt["versions"].as_array().cloned().unwrap_or_default() {
                        if let Some(wv) = ir_world_version(&w) {
                            for e in Expansion::ALL {
                                if wv.covers(&e.version()) && !out.contains(&Ns::World(e)) {
                                    out.push(Ns::World(e));
                                }
                            }
                        }
                    }
                }
            }
        }
        Some("login") => {
            let vt = &v["version_type"];
            match vt["login_version_tag"].as_str() {
                Some("all") => out.extend(LOGIN_VERSIONS.iter().map(|l| Ns::Login(*l))),
                _ => {
                    for l in vt["versions"].as_array().cloned().unwrap_or_default() {
                        if let Some(n) = l.as_u64() {
                            out.push(Ns::Login(n as u8));
                        }
                    }
                }
            }
        }
        _ => {}
    }
    out
}

pub fn ir_world_version(w: &Value) -> Option<WorldVersion> {
    let major = w["major"].as_u64()? as u8;
    Some(match (w["minor"].as_u64(), w["patch"].as_u64(), w["build"].as_u64()) {
        (None, _, _) => WorldVersion::Major(major),
        (Some(mi), None, _) => WorldVersion::Minor(major, mi as u8),
        (Some(mi), Some(p), None) => WorldVersion::Patch(major, mi as u8, p as u8),
        (Some(mi), Some(p), Some(b)) => WorldVersion::Exact(major, mi as u8, p as u8, b as u16),
    })
}

/// version texts ("1.12", "2.4.3", "*", "3" for login) of an IR tags value
pub fn ir_version_texts(tags: &Value) -> Vec<String> {
    let v = &tags["version"];
    let vt = &v["version_type"];
    match v["version_type_tag"].as_str() {
        Some("world") => match vt["world_version_tag"].as_str() {
            Some("all") => vec!["*".into()],
            _ => vt["versions"].as_array().cloned().unwrap_or_default().iter().filter_map(ir_world_version).map(|w| w.text()).collect(),
        },
        Some("login") => match vt["login_version_tag"].as_str() {
            Some("all") => vec!["*".into()],
            _ => vt["versions"].as_array().cloned().unwrap_or_default().iter().filter_map(|l| l.as_u64()).map(|l| l.to_string()).collect(),
        },
        _ => vec![],
    }
}

pub struct IrObject<'a> {
    pub section: &'static str,
    pub kind: &'static str,
    pub v: &'a Value,
}

impl<'a> IrObject<'a> {
    pub fn name(&self) -> &'a str {
        self.v["name"].as_str().unwrap_or("")
    }
    pub fn label(&self) -> String {
        format!("{}/{}/{}@{}", self.section, self.kind, self.name(), ir_version_texts(&self.v["tags"]).join(" "))
    }
}

pub fn ir_objects(ir: &Value) -> Vec<IrObject<'_>> {
    let mut out = Vec::new();
    for section in ["login", "world"] {
        for kind in ["enums", "flags", "structs", "messages"] {
            if let Some(a) = ir[section][kind].as_array() {
                for v in a {
                    out.push(IrObject { section, kind, v });
                }
            }
        }
    }
    out
}
