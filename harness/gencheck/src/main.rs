#![allow(dead_code, clippy::all)]
mod c07;
mod c08;
mod progs;
mod c09;
mod c10;
mod gentree;
mod jtd;
mod mutate;
mod c16;
mod c17;
mod c18;
mod c19;
mod scratch;

fn main() {
    let args: Vec<String> = std::env::args().collect();
    let id = args.get(1).map(|s| s.as_str()).unwrap_or("");
    let tier = match args.get(2).map(|s| s.as_str()) {
        Some("thorough") => vcommon::Tier::Thorough,
        Some("quick") => vcommon::Tier::Quick,
        _ => vcommon::env_tier(),
    };
    let replay = args.iter().position(|a| a == "--replay").and_then(|i| args.get(i + 1)).cloned();
    let code = match id {
        "C07" => c07::run(tier, replay),
        "C08" => c08::run(tier, replay),
        "C09" => c09::run(tier, replay),
        "C10" => c10::run(tier, replay),
        "C16" => c16::run(tier, replay),
        "C17" => c17::run(tier, replay),
        "C18" => c18::run(tier, replay),
        "C19" => c19::run(tier, replay),
        _ => {
            eprintln!("usage: gencheck C07..C10|C16..C19 quick|thorough");
            2
        }
    };
    std::process::exit(code);
}
