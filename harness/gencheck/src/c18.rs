//! C18: documentation shows each object's definition and examples faithfully.
//! The wowm text of every doc page section and every Rust doc comment is parsed back by the
//! independent model's parser and compared with the source object; body tables and annotated
//! examples are compared with the model's member order, sizes and decoding of the test bytes.
use crate::c10::{collect_fields, collect_ifs};
use crate::gentree::*;
use crate::mutate;
use crate::scratch::*;
use serde_json::{json, Value};
use std::collections::{BTreeMap, BTreeSet};
use std::path::Path;
use vcommon::{Check, Tier};
use wowm_model::ast::*;
use wowm_model::frame::{decode, entries, Entry};
use wowm_model::parser::{parse_file, parse_int};
use wowm_model::resolve::*;
use wowm_model::sizes::Sizer;

pub struct Failure {
    pub sig: String,
    pub object: String,
    pub what: String,
    pub detail: Value,
}

pub struct Stats {
    pub sections: u64,
    pub rust_comments: u64,
    pub body_tables: u64,
    pub body_tables_omitted_nested: u64,
    pub examples: u64,
    pub classes: BTreeMap<String, u64>,
    pub distinct: BTreeSet<u64>,
    pub samples: Vec<Value>,
}

impl Stats {
    pub fn new() -> Self {
        Stats { sections: 0, rust_comments: 0, body_tables: 0, body_tables_omitted_nested: 0, examples: 0, classes: BTreeMap::new(), distinct: BTreeSet::new(), samples: vec![] }
    }
}

fn norm_value(v: &str) -> String {
    match parse_int(v) {
        Some(n) => n.to_string(),
        None => v.split_whitespace().collect::<Vec<_>>().join(" "),
    }
}

fn norm_members(ms: &[Member]) -> Value {
    Value::Array(
        ms.iter()
            .map(|m| match m {
                Member::Field(f) => json!({"field": f.name, "type": f.ty.display(), "value": f.value.as_deref().map(norm_value)}),
                Member::If(i) => json!({
                    "if": i.branches().map(|b| json!({"conds": b.conds.iter().map(|c| json!([c.var, format!("{:?}", c.op), c.value])).collect::<Vec<_>>(), "body": norm_members(&b.body)})).collect::<Vec<_>>(),
                    "else": i.else_body.as_ref().map(|e| norm_members(e)),
                }),
                Member::Optional(o) => json!({"optional": o.name, "body": norm_members(&o.body)}),
                Member::Unimplemented => json!("unimplemented"),
            })
            .collect(),
    )
}

/// the definition as the statement lists it: name, kind, opcode, base type, enumerators and values, member order and types, conditions
pub fn norm_def(item: &Item) -> Value {
    match item {
        Item::Definer(d) => json!({"kind": format!("{:?}", d.kind), "name": d.name, "base": d.base, "enumerators": d.members.iter().map(|m| json!([m.name, norm_value(&m.value_text)])).collect::<Vec<_>>()}),
        Item::Container(c) => json!({"kind": c.kind.keyword(), "name": c.name, "opcode": c.opcode_text.as_deref().map(norm_value), "members": norm_members(&c.members)}),
        Item::Test(_) => json!("test"),
    }
}

fn norm_obj(o: &Object) -> Value {
    match &o.def {
        Def::Definer(d) => norm_def(&Item::Definer(d.clone())),
        Def::Container(c) => norm_def(&Item::Container(c.clone())),
    }
}

fn first_difference(a: &Value, b: &Value, path: &str) -> Option<String> {
    if a == b {
        return None;
    }
    match (a, b) {
        (Value::Array(x), Value::Array(y)) => {
            for (i, (p, q)) in x.iter().zip(y.iter()).enumerate() {
                if let Some(d) = first_difference(p, q, &format!("{}[{}]", path, i)) {
                    return Some(d);
                }
            }
            Some(format!("{}: source has {} entries, documentation {}", path, x.len(), y.len()))
        }
        (Value::Object(x), Value::Object(y)) => {
            for (k, p) in x {
                match y.get(k) {
                    Some(q) => {
                        if let Some(d) = first_difference(p, q, &format!("{}.{}", path, k)) {
                            return Some(d);
                        }
                    }
                    None => return Some(format!("{}.{}: missing in the documentation", path, k)),
                }
            }
            Some(format!("{}: keys differ", path))
        }
        _ => Some(format!("{}: source {} documentation {}", path, a, b)),
    }
}

/// parses a heading like "Client Version 1.12, Client Version 2" / "Protocol Version 2, Protocol Version 3" / "Protocol Version *"
fn heading_versions(h: &str) -> Vec<String> {
    h.split(',').map(|p| p.trim().trim_start_matches("Client Version").trim_start_matches("Protocol Version").trim().to_string()).filter(|s| !s.is_empty()).collect()
}

struct Section<'a> {
    heading: &'a str,
    lines: Vec<&'a str>,
}

fn split_sections(text: &str) -> Vec<Section<'_>> {
    let mut out: Vec<Section> = Vec::new();
    let mut in_code = false;
    for l in text.lines() {
        if l.starts_with("```") {
            in_code = !in_code;
        }
        if !in_code && l.starts_with("## ") {
            out.push(Section { heading: &l[3..], lines: vec![] });
        } else if let Some(s) = out.last_mut() {
            s.lines.push(l);
        }
    }
    out
}

fn source_ref(line: &str) -> Option<(String, usize)> {
    // [`path:line`](url)
    let a = line.find("[`")? + 2;
    let b = line[a..].find("`]")? + a;
    let (p, l) = line[a..b].rsplit_once(':')?;
    Some((p.to_string(), l.parse().ok()?))
}

fn strip_links(s: &str) -> String {
    // [X](x.md) -> X
    let mut out = String::new();
    let b = s.as_bytes();
    let mut i = 0;
    while i < b.len() {
        if b[i] == b'[' {
            if let Some(c) = s[i..].find("](") {
                if let Some(e) = s[i + c..].find(')') {
                    let inner = &s[i + 1..i + c];
                    if !inner.contains('[') {
                        out.push_str(inner);
                        i = i + c + e + 1;
                        continue;
                    }
                }
            }
        }
        out.push(b[i] as char);
        i += 1;
    }
    out
}

/// flattened member list in documentation order: members in order, if-branches in order, optional tail last
fn flat_fields<'a>(ms: &'a [Member], out: &mut Vec<&'a Field>, tail: &mut Vec<&'a Field>) {
    for m in ms {
        match m {
            Member::Field(f) => out.push(f),
            Member::If(i) => {
                for b in i.branches() {
                    flat_fields(&b.body, out, tail);
                }
                if let Some(e) = &i.else_body {
                    flat_fields(e, out, tail);
                }
            }
            Member::Optional(o) => {
                let mut t2 = Vec::new();
                flat_fields(&o.body, tail, &mut t2);
            }
            Member::Unimplemented => {}
        }
    }
}

struct Ctx<'a> {
    t: &'a GenTree,
    es: Vec<Entry>,
    fails: Vec<Failure>,
}

impl<'a> Ctx<'a> {
    fn fail(&mut self, label: &str, kind: &str, object: &str, what: String, detail: Value) {
        self.fails.push(Failure { sig: format!("c18:{}:{}", label, kind), object: object.to_string(), what: format!("{}: {}", label, what), detail });
    }

    fn objects_at(&self, path: &str, line: usize) -> Vec<usize> {
        self.t.u.objects.iter().enumerate().filter(|(_, o)| self.t.u.path_of(o) == path && o.line() == line).map(|(i, _)| i).collect()
    }

    fn check_wowm_block(&mut self, label: &str, object: &str, block: &str, src: usize, where_: &str) {
        let o = &self.t.u.objects[src];
        match parse_file("doc", block) {
            Err(e) => self.fail(label, "wowm-text-does-not-parse", object, format!("{}: the embedded wowm text does not parse: {:?}", where_, e), json!({"text": block})),
            Ok(f) => {
                let items: Vec<&Item> = f.items.iter().collect();
                if items.len() != 1 {
                    self.fail(label, "wowm-text-item-count", object, format!("{}: {} definitions in the embedded text", where_, items.len()), json!({"text": block}));
                    return;
                }
                let a = norm_obj(o);
                let b = norm_def(items[0]);
                if let Some(d) = first_difference(&a, &b, "") {
                    self.fail(label, "wowm-text-differs", object, format!("{}: embedded definition differs from the source at {}", where_, d), json!({"text": block, "source_file": self.t.u.path_of(o), "line": o.line()}));
                }
            }
        }
    }

    fn body_table(&mut self, label: &str, object: &str, lines: &[&str], src: usize, ns: Ns, stats: &mut Stats) {
        let o = &self.t.u.objects[src];
        let Some(c) = o.container() else { return };
        let start = lines.iter().position(|l| l.trim() == "### Body");
        let mut ifs = Vec::new();
        collect_ifs(&c.members, &mut ifs);
        let nested = c.members.iter().any(|m| match m {
            Member::If(i) => i.branches().any(|b| b.body.iter().any(|x| matches!(x, Member::If(_)))) || i.else_body.as_ref().map(|e| e.iter().any(|x| matches!(x, Member::If(_)))).unwrap_or(false),
            _ => false,
        });
        let Some(start) = start else {
            if nested {
                stats.body_tables_omitted_nested += 1;
            } else {
                self.fail(label, "body-table-missing", object, "the page section has no body table".into(), json!({}));
            }
            return;
        };
        let end = lines[start + 1..].iter().position(|l| l.starts_with("### ")).map(|p| p + start + 1).unwrap_or(lines.len());
        let rows: Vec<Vec<String>> = lines[start + 1..end]
            .iter()
            .filter(|l| l.starts_with("| ") && !l.starts_with("| Offset") && !l.starts_with("| ---"))
            .map(|l| {
                let t = l.trim().trim_start_matches('|').trim_end_matches('|');
                // the comment column may contain '|' : take the first four cells
                let mut cells: Vec<String> = t.splitn(5, " | ").map(|s| s.trim().to_string()).collect();
                cells.truncate(5);
                cells
            })
            .collect();
        stats.body_tables += 1;
        let mut flat = Vec::new();
        let mut tail = Vec::new();
        flat_fields(&c.members, &mut flat, &mut tail);
        flat.extend(tail);
        let want: Vec<&str> = flat.iter().map(|f| f.name.as_str()).collect();
        let got: Vec<&str> = rows.iter().filter_map(|r| r.get(3).map(|s| s.as_str())).collect();
        if o.tags.is_true("unimplemented") || lines[start + 1..end].iter().any(|l| l.contains("has not been implemented yet")) {
            return;
        }
        if want != got {
            let i = want.iter().zip(got.iter()).position(|(a, b)| a != b).unwrap_or(want.len().min(got.len()));
            self.fail(label, "body-table-members", object, format!("body table lists {} members, the definition has {}; first difference at position {}: definition {:?}, table {:?}", got.len(), want.len(), i, want.get(i), got.get(i)), json!({"definition": want, "table": got}));
            return;
        }
        let mut sizer = Sizer::new(&self.t.u, ns);
        for (f, r) in flat.iter().zip(rows.iter()) {
            // type column (not part of the property: upcasts and some built-in names are rendered differently): counted only
            let ty = strip_links(&r[2]);
            if ty.replace(' ', "") != f.ty.display().replace(' ', "") {
                *stats.classes.entry("body-table-type-rendered-differently".into()).or_insert(0) += 1;
            }
            // size column: "N / endianness"
            let size_txt = r[1].split('/').next().unwrap_or("").trim().to_string();
            let iv = match &f.ty {
                TypeRef::Simple { name, upcast } => Some(sizer.type_interval(name, upcast.as_deref())),
                TypeRef::Array { inner, size: ArraySize::Fixed(n) } => {
                    let e = sizer.type_interval(inner, None);
                    Some(e.times(*n as u128, *n as u128))
                }
                _ => None,
            };
            if let (Ok(n), Some(iv)) = (size_txt.parse::<u128>(), iv) {
                if !(iv.min == iv.max && iv.min == n) {
                    self.fail(label, "body-table-size", object, format!("member {}: table size {}, definition size {}..{}", f.name, n, iv.min, if iv.max == u128::MAX { "unbounded".to_string() } else { iv.max.to_string() }), json!({"row": r}));
                }
            } else if let Some(iv) = iv {
                if iv.min == iv.max && size_txt != "-" && size_txt != "?" && !size_txt.is_empty() && !f.tags.is_true("compressed") {
                    self.fail(label, "body-table-size", object, format!("member {}: table size {:?}, definition size {}", f.name, size_txt, iv.min), json!({"row": r}));
                }
            }
        }
    }

    fn examples(&mut self, label: &str, object: &str, lines: &[&str], src: usize, ns: Ns, stats: &mut Stats) {
        let o = &self.t.u.objects[src];
        let _ = ns;
        let nss: Vec<Ns> = Ns::all().into_iter().filter(|n| o.in_ns(*n)).collect();
        let tests: Vec<&TestObj> = self.t.u.tests.iter().filter(|t| t.case.subject == o.name && nss.iter().any(|n| t.in_ns(*n))).collect();
        // example blocks of this section
        let mut blocks: Vec<Vec<&str>> = Vec::new();
        let mut i = 0;
        while i < lines.len() {
            if lines[i].starts_with("#### Example") {
                let mut j = i + 1;
                while j < lines.len() && lines[j].trim() != "```c" {
                    j += 1;
                }
                let mut k = j + 1;
                while k < lines.len() && lines[k].trim() != "```" {
                    k += 1;
                }
                if j < lines.len() {
                    blocks.push(lines[j + 1..k.min(lines.len())].to_vec());
                }
                i = k;
            }
            i += 1;
        }
        if blocks.len() != tests.len() {
            self.fail(label, "example-count", object, format!("{} examples documented, the sources have {} test vectors for this object and version", blocks.len(), tests.len()), json!({}));
            return;
        }
        for (k, (b, t)) in blocks.iter().zip(tests.iter()).enumerate() {
            stats.examples += 1;
            let mut bytes: Vec<u8> = Vec::new();
            let mut groups: Vec<(usize, String)> = Vec::new(); // (end offset, annotation)
            let mut malformed = None;
            for l in b {
                let (left, right) = match l.find("//") {
                    Some(p) => (&l[..p], l[p + 2..].trim()),
                    None => (&l[..], ""),
                };
                for tok in left.split(',') {
                    let tok = tok.trim();
                    if tok.is_empty() {
                        continue;
                    }
                    match tok.parse::<u8>() {
                        Ok(v) => bytes.push(v),
                        Err(_) => malformed = Some(l.to_string()),
                    }
                }
                // bytes hidden behind the comment marker are lost to a reader
                if right.split(',').filter(|x| x.trim().parse::<u8>().is_ok()).count() >= 2 && right.contains(", ") && right.split("//").count() > 1 {
                    malformed = Some(l.to_string());
                }
                groups.push((bytes.len(), right.to_string()));
            }
            let elabel = format!("example {}", k + 1);
            if let Some(m) = malformed {
                self.fail(label, "example-malformed-line", object, format!("{}: a line does not have the form `bytes, // annotation`: {:?}", elabel, m), json!({"line": m}));
            }
            if bytes != t.bytes {
                let p = bytes.iter().zip(t.bytes.iter()).position(|(a, b)| a != b).unwrap_or(bytes.len().min(t.bytes.len()));
                // a compressed member shown inflated? then the groups are the wire bytes with that stream replaced by its payload
                let mut kind = "example-bytes";
                if let Some(e) = self.es.iter().find(|e| e.obj == src && t.in_ns(e.ns) && decode(&self.t.u, e, &t.bytes).is_ok()) {
                    if let Ok(d) = decode(&self.t.u, e, &t.bytes) {
                        if d.regions.len() == 1 && d.regions[0].parent == 0 && !o.tags.is_true("compressed") {
                            let r = &d.regions[0];
                            let at = d.header_len + r.size_field_offset + 4;
                            let mut inflated = t.bytes[..at].to_vec();
                            inflated.extend_from_slice(&r.payload);
                            inflated.extend_from_slice(&t.bytes[(at + r.stream_len).min(t.bytes.len())..]);
                            kind = if inflated == bytes { "example-shows-compressed-member-inflated" } else { "example-bytes-even-with-member-inflated" };
                        }
                    }
                }
                self.fail(label, kind, object, format!("{}: the annotated groups give {} bytes, the test vector has {}; first difference at byte {}", elabel, bytes.len(), t.bytes.len(), p), json!({"documented": bytes, "test_vector": t.bytes}));
                continue;
            }
            // field order: decode with the model and compare the order of member names
            let Some(e) = self.es.iter().find(|e| e.obj == src && t.in_ns(e.ns) && decode(&self.t.u, e, &t.bytes).is_ok()) else { continue };
            let Ok(d) = decode(&self.t.u, e, &t.bytes) else { continue };
            if o.tags.is_true("compressed") {
                continue;
            }
            let mut want: Vec<String> = Vec::new();
            for l in &d.trace {
                if l.region != 0 || l.field.starts_with('<') {
                    continue;
                }
                if want.last() != Some(&l.field) {
                    want.push(l.field.clone());
                }
            }
            let mut got: Vec<String> = Vec::new();
            for (_, a) in &groups {
                if a.is_empty() || a.starts_with("size") && !a.contains(':') || a.starts_with("opcode (") || a.starts_with("Optional ") {
                    continue;
                }
                let head = a.split(':').next().unwrap_or("").trim();
                let name = head.rsplit('.').next().unwrap_or(head).trim();
                let name = name.split('[').next().unwrap_or(name).trim();
                if name.is_empty() || name.contains(' ') {
                    continue;
                }
                if got.last().map(|s| s.as_str()) != Some(name) {
                    got.push(name.to_string());
                }
            }
            // the documentation may add marker lines for containers (arrays, structs): every leaf member of the decoding must appear, in order
            let mut gi = 0;
            let mut missing = None;
            for w in &want {
                match got[gi..].iter().position(|g| g == w) {
                    Some(p) => gi += p,
                    None => {
                        missing = Some(w.clone());
                        break;
                    }
                }
            }
            if let Some(m) = missing {
                self.fail(label, "example-field-order", object, format!("{}: member {} of the decoded test vector is not annotated in definition order (annotations: {:?})", elabel, m, got), json!({"decoded_order": want, "annotated_order": got}));
            }
        }
    }
}

pub fn compare(t: &GenTree, stats: &mut Stats) -> Vec<Failure> {
    let mut ctx = Ctx { t, es: entries(&t.u), fails: Vec::new() };
    let docs = t.scratch.path("wowm_language/src/docs");
    // every source object wants a section
    let mut wanted: BTreeMap<usize, bool> = t.u.objects.iter().enumerate().map(|(i, _)| (i, false)).collect();
    let mut pages: Vec<std::path::PathBuf> = std::fs::read_dir(&docs).map(|rd| rd.flatten().map(|e| e.path()).filter(|p| p.extension().map(|e| e == "md").unwrap_or(false)).collect()).unwrap_or_default();
    pages.sort();
    let names: BTreeSet<String> = t.u.objects.iter().map(|o| o.name.to_lowercase()).collect();
    for p in &pages {
        let stem = p.file_stem().unwrap().to_string_lossy().to_string();
        if !names.contains(&stem) {
            continue; // stale pages are C08's subject
        }
        let Ok(text) = std::fs::read_to_string(p) else { continue };
        for sec in split_sections(&text) {
            let Some((path, line)) = sec.lines.iter().find_map(|l| if l.starts_with("Autogenerated from") { source_ref(l) } else { None }) else { continue };
            let hv = heading_versions(sec.heading);
            let cands = ctx.objects_at(&path, line);
            // objects of that position whose versions are all in the heading
            let matched: Vec<usize> = cands.iter().copied().filter(|i| {
                let o = &t.u.objects[*i];
                let vt: Vec<String> = o.versions_text().split_whitespace().map(|s| s.to_string()).collect();
                !vt.is_empty() && vt.iter().all(|v| hv.contains(v))
            }).collect();
            let label = format!("{}.md[{}]", stem, heading_versions(sec.heading).join("+"));
            stats.sections += 1;
            if matched.is_empty() {
                ctx.fail(&label, "section-without-source", &stem, format!("section refers to {}:{} where no object with versions {:?} is defined", path, line, hv), json!({}));
                continue;
            }
            let union: BTreeSet<String> = matched.iter().flat_map(|i| t.u.objects[*i].versions_text().split_whitespace().map(|s| s.to_string()).collect::<Vec<_>>()).collect();
            if union != hv.iter().cloned().collect::<BTreeSet<_>>() {
                ctx.fail(&label, "section-versions", &stem, format!("heading versions {:?}, source versions {:?}", hv, union), json!({}));
            }
            for i in &matched {
                wanted.insert(*i, true);
            }
            let src = matched[0];
            let o = &t.u.objects[src];
            let oname = o.name.clone();
            if o.name.to_lowercase() != stem {
                ctx.fail(&label, "section-object-name", &stem, format!("page {} documents object {}", stem, o.name), json!({}));
            }
            // wowm block
            let mut block = String::new();
            let mut inb = false;
            for l in &sec.lines {
                if l.starts_with("```rust,ignore") {
                    inb = true;
                    continue;
                }
                if inb && l.starts_with("```") {
                    break;
                }
                if inb {
                    block.push_str(l);
                    block.push('\n');
                }
            }
            ctx.check_wowm_block(&label, &oname, &block, src, "doc page");
            stats.distinct.insert(vcommon::fnv(format!("{}", norm_obj(o)).as_bytes()));
            if o.container().is_some() {
                // namespaces of this section
                for ns in Ns::all() {
                    if matched.iter().any(|i| t.u.objects[*i].in_ns(ns)) {
                        let s2 = matched.iter().copied().find(|i| t.u.objects[*i].in_ns(ns)).unwrap();
                        ctx.body_table(&label, &oname, &sec.lines, s2, ns, stats);
                        ctx.examples(&label, &oname, &sec.lines, s2, ns, stats);
                        break; // the section text is one: judged in its first namespace
                    }
                }
            }
            if stats.samples.len() < 6 && stats.sections % 331 == 0 {
                stats.samples.push(json!({"page": format!("{}.md", stem), "section": sec.heading, "source": format!("{}:{}", path, line)}));
            }
        }
    }
    for (i, seen) in &wanted {
        let o = &t.u.objects[*i];
        if !seen && !o.is_test() {
            ctx.fail(&format!("{}@{}", o.name, o.versions_text()), "object-without-doc-section", &o.name, format!("no documentation section for {} ({}:{})", o.name, t.u.path_of(o), o.line()), json!({}));
        }
    }
    // Rust doc comments
    let mut documented: BTreeSet<(String, usize)> = BTreeSet::new();
    for dir in ["wow_world_messages/src/world", "wow_login_messages/src/logon", "wow_world_base/src/inner"] {
        walk_rs(&t.scratch.path(dir), &mut |p: &Path, text: &str| {
            let rel = p.strip_prefix(&t.scratch.root).map(|x| x.to_string_lossy().to_string()).unwrap_or_default();
            let lines: Vec<&str> = text.lines().collect();
            let mut i = 0;
            while i < lines.len() {
                let l = lines[i].trim_start();
                if l.starts_with("/// Auto generated from the original `wowm` in file") {
                    if let Some((path, line)) = source_ref(l) {
                        let mut block = String::new();
                        let mut j = i + 1;
                        if lines.get(j).map(|x| x.trim_start().starts_with("/// ```text")).unwrap_or(false) {
                            j += 1;
                            while j < lines.len() {
                                let x = lines[j].trim_start();
                                if x.starts_with("/// ```") {
                                    break;
                                }
                                block.push_str(x.strip_prefix("/// ").or(x.strip_prefix("///")).unwrap_or(x));
                                block.push('\n');
                                j += 1;
                            }
                        }
                        stats.rust_comments += 1;
                        let cands = ctx.objects_at(&path, line);
                        let label = format!("{}:{}", rel, i + 1);
                        match cands.first() {
                            None => ctx.fail(&label, "rust-doc-without-source", "", format!("doc comment refers to {}:{} where nothing is defined", path, line), json!({})),
                            Some(src) => {
                                let name = t.u.objects[*src].name.clone();
                                documented.insert((path.clone(), line));
                                ctx.check_wowm_block(&label, &name, &block, *src, "Rust doc comment");
                            }
                        }
                        i = j;
                    }
                }
                i += 1;
            }
        });
    }
    for o in &t.u.objects {
        if o.is_test() {
            continue;
        }
        if !documented.contains(&(t.u.path_of(o).to_string(), o.line())) {
            *stats.classes.entry("object-without-rust-doc-comment".into()).or_insert(0) += 1;
        }
    }
    ctx.fails
}

fn walk_rs(dir: &Path, f: &mut dyn FnMut(&Path, &str)) {
    let Ok(rd) = std::fs::read_dir(dir) else { return };
    let mut es: Vec<_> = rd.flatten().map(|e| e.path()).collect();
    es.sort();
    for p in es {
        if p.is_dir() {
            walk_rs(&p, f);
        } else if p.extension().map(|e| e == "rs").unwrap_or(false) {
            if let Ok(t) = std::fs::read_to_string(&p) {
                f(&p, &t);
            }
        }
    }
}

pub fn run(tier: Tier, replay: Option<String>) -> i32 {
    let mut c = Check::new("C18", tier);
    c.rule = "one evaluation = one documentation unit: a page section (object x version set), a Rust doc comment, a body table or an annotated example. The embedded wowm text is parsed by the independent model's parser and its definition (name, kind, opcode, base type, enumerators and values, member order and types, constants, conditions, optional blocks) must equal the source object's; the section heading must carry the object's versions; the body table must list the definition's members in order with their types and fixed sizes; each example's byte groups must concatenate to the test vector and its annotations must follow the order in which the model decodes the vector. Every source object must have a section. Non-trivial = unit of an object with members; distinct = definition. The same runs on valid mutants of the corpus (the documentation must follow the edit).".into();
    let bin = match generator_binary() {
        Ok(b) => b,
        Err(e) => {
            eprintln!("C18: {}", e);
            return 2;
        }
    };
    let scratch = match Scratch::new() {
        Ok(s) => s,
        Err(e) => {
            eprintln!("C18: {}", e);
            return 2;
        }
    };
    let base = match GenTree::generate(scratch, &bin) {
        Ok(t) => t,
        Err((_, run)) => {
            eprintln!("C18: generator failed on the unmodified tree: {:?} {}", run.status, run.stderr.lines().take(5).collect::<Vec<_>>().join(" | "));
            return 2;
        }
    };
    let mut stats = Stats::new();
    let base_fails = compare(&base, &mut stats);
    let base_sigs: BTreeSet<String> = base_fails.iter().map(|f| f.sig.clone()).collect();
    let mut reported = BTreeSet::new();
    if replay.is_none() {
        for f in base_fails {
            if reported.insert(f.sig.clone()) {
                c.fail(&f.sig, &f.what, f.detail);
            }
        }
    }
    let batches = tier.pick(4usize, 192);
    let per_batch = tier.pick(80usize, 100);
    let outcome = mutate::run_batches(&base.u, &bin, c.seed, 0x1818, batches, per_batch, mutate::ALL_KINDS, replay.as_deref(), |t, _batch| {
        let mut st = Stats::new();
        let f = compare(t, &mut st);
        // positions move when a file is edited: signatures of Rust doc comments carry a line number, compare without it
        (f.into_iter().filter(|f| !base_sigs.contains(&f.sig)).map(|f| mutate::MutFailure { sig: f.sig, object: f.object, what: f.what, detail: f.detail }).collect(), json!({"sections": st.sections, "rust_comments": st.rust_comments, "body_tables": st.body_tables, "examples": st.examples}))
    });
    for f in &outcome.failures {
        if reported.insert(f.sig.clone()) {
            c.fail(&f.sig, &f.what, f.detail.clone());
        }
    }
    for (k, v) in &outcome.classes {
        c.count_n(k, *v);
    }
    let mut munits = 0u64;
    for s in outcome.per_batch.iter() {
        munits += s["sections"].as_u64().unwrap_or(0) + s["rust_comments"].as_u64().unwrap_or(0) + s["body_tables"].as_u64().unwrap_or(0) + s["examples"].as_u64().unwrap_or(0);
    }
    for w in &outcome.inconclusive {
        c.inconclusive(w);
    }
    c.evals(stats.sections + stats.rust_comments + stats.body_tables + stats.examples + munits);
    for d in &stats.distinct {
        c.nontrivial(*d);
    }
    c.count_n("doc-page-sections", stats.sections);
    c.count_n("rust-doc-comments", stats.rust_comments);
    c.count_n("body-tables", stats.body_tables);
    c.count_n("body-tables-omitted-by-design-for-nested-ifs", stats.body_tables_omitted_nested);
    c.count_n("examples", stats.examples);
    for (k, v) in &stats.classes {
        c.count_n(k, *v);
    }
    c.extra.insert("units_on_mutants".into(), json!(munits));
    c.extra.insert("mutants".into(), json!({"batches": outcome.batches_run, "mutations_applied": outcome.mutations_applied, "mutations_dropped_as_rejected": outcome.dropped}));
    for s in stats.samples {
        c.sample(s);
    }
    for s in outcome.samples {
        c.sample(s);
    }
    c.finish()
}
