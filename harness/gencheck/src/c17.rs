//! C17: the generated Wireshark dissector fragment walks every message exactly to its end.
//! An interpreter for the C subset of tests/wireshark/parser.txt (ptvcursor_add*, helper calls,
//! for / while / if / else-if / else, nested switch, compression blocks) is run over canonical
//! encodings produced by the independent wowm model (directed enumeration of every decision site +
//! proptest tapes); its reads must line up with the model's trace leaf by leaf and stop at the end.
#[path = "../../codec_harness/src/gen.rs"]
mod gen;
use crate::gentree::*;
use crate::mutate;
use crate::scratch::*;
use gen::*;
use proptest::strategy::{Strategy, ValueTree};
use serde_json::{json, Value};
use std::collections::{BTreeMap, BTreeSet};
use vcommon::{Check, Tier};
use wowm_model::frame::*;
use wowm_model::resolve::*;
use wowm_model::walk::{Leaf, Role};

// ------------------------------------------------------------------------------------------------
// parsing the fragment

#[derive(Debug, Clone, PartialEq)]
pub enum Tok {
    Id(String),
    Num(i128),
    Str(String),
    P(String),
}

fn lex(text: &str) -> Vec<Tok> {
    let b = text.as_bytes();
    let mut i = 0;
    let mut out = Vec::new();
    while i < b.len() {
        let c = b[i] as char;
        if c.is_whitespace() {
            i += 1;
        } else if c.is_ascii_alphabetic() || c == '_' {
            let s = i;
            while i < b.len() && ((b[i] as char).is_ascii_alphanumeric() || b[i] == b'_') {
                i += 1;
            }
            out.push(Tok::Id(text[s..i].to_string()));
        } else if c.is_ascii_digit() {
            let s = i;
            while i < b.len() && ((b[i] as char).is_ascii_alphanumeric()) {
                i += 1;
            }
            let t = &text[s..i];
            let v = if let Some(h) = t.strip_prefix("0x").or(t.strip_prefix("0X")) { i128::from_str_radix(h, 16).unwrap_or(0) } else { t.parse().unwrap_or(0) };
            out.push(Tok::Num(v));
        } else if c == '"' {
            let s = i + 1;
            i += 1;
            while i < b.len() && b[i] != b'"' {
                i += 1;
            }
            out.push(Tok::Str(text[s..i].to_string()));
            i += 1;
        } else {
            let two = if i + 1 < b.len() { &text[i..i + 2] } else { "" };
            if ["==", "!=", "||", "&&", "++", "<=", ">="].contains(&two) {
                out.push(Tok::P(two.to_string()));
                i += 2;
            } else {
                out.push(Tok::P(c.to_string()));
                i += 1;
            }
        }
    }
    out
}

#[derive(Debug, Clone)]
pub enum Stmt {
    Simple(Vec<Tok>),
    If(Vec<(Vec<Tok>, Vec<Stmt>)>, Option<Vec<Stmt>>),
    For(Vec<Tok>, Vec<Stmt>),
    While(Vec<Tok>, Vec<Stmt>),
    Switch(Vec<Tok>, Vec<(Vec<Tok>, Vec<Stmt>)>),
}

struct Parser<'a> {
    t: &'a [Tok],
    i: usize,
}

impl<'a> Parser<'a> {
    fn peek(&self) -> Option<&Tok> {
        self.t.get(self.i)
    }
    fn is_p(&self, p: &str) -> bool {
        matches!(self.peek(), Some(Tok::P(x)) if x == p)
    }
    fn is_id(&self, p: &str) -> bool {
        matches!(self.peek(), Some(Tok::Id(x)) if x == p)
    }
    fn expect_p(&mut self, p: &str) -> Result<(), String> {
        if self.is_p(p) {
            self.i += 1;
            Ok(())
        } else {
            Err(format!("expected {:?} at token {} ({:?})", p, self.i, self.peek()))
        }
    }
    fn paren(&mut self) -> Result<Vec<Tok>, String> {
        self.expect_p("(")?;
        let mut depth = 1;
        let s = self.i;
        while self.i < self.t.len() {
            if self.is_p("(") {
                depth += 1;
            } else if self.is_p(")") {
                depth -= 1;
                if depth == 0 {
                    let v = self.t[s..self.i].to_vec();
                    self.i += 1;
                    return Ok(v);
                }
            }
            self.i += 1;
        }
        Err("unbalanced parenthesis".into())
    }
    fn block(&mut self) -> Result<Vec<Stmt>, String> {
        self.expect_p("{")?;
        let mut v = Vec::new();
        while !self.is_p("}") {
            if self.peek().is_none() {
                return Err("unexpected end in block".into());
            }
            v.push(self.stmt()?);
        }
        self.i += 1;
        Ok(v)
    }
    fn stmt(&mut self) -> Result<Stmt, String> {
        if self.is_id("if") {
            self.i += 1;
            let c = self.paren()?;
            let b = self.block()?;
            let mut arms = vec![(c, b)];
            let mut els = None;
            while self.is_id("else") {
                self.i += 1;
                if self.is_id("if") {
                    self.i += 1;
                    let c = self.paren()?;
                    let b = self.block()?;
                    arms.push((c, b));
                } else {
                    els = Some(self.block()?);
                    break;
                }
            }
            return Ok(Stmt::If(arms, els));
        }
        if self.is_id("for") {
            self.i += 1;
            let h = self.paren()?;
            return Ok(Stmt::For(h, self.block()?));
        }
        if self.is_id("while") {
            self.i += 1;
            let h = self.paren()?;
            return Ok(Stmt::While(h, self.block()?));
        }
        if self.is_id("switch") {
            self.i += 1;
            let h = self.paren()?;
            self.expect_p("{")?;
            let mut cases: Vec<(Vec<Tok>, Vec<Stmt>)> = Vec::new();
            while !self.is_p("}") {
                let mut labels = Vec::new();
                loop {
                    if self.is_id("case") {
                        self.i += 1;
                        labels.push(self.t[self.i].clone());
                        self.i += 1;
                        self.expect_p(":")?;
                    } else if self.is_id("default") {
                        self.i += 1;
                        self.expect_p(":")?;
                        labels.push(Tok::Id("default".into()));
                    } else {
                        break;
                    }
                }
                if labels.is_empty() {
                    return Err(format!("statement outside a case at token {} ({:?})", self.i, self.peek()));
                }
                let mut body = Vec::new();
                loop {
                    if self.is_id("break") {
                        self.i += 1;
                        self.expect_p(";")?;
                        break;
                    }
                    if self.is_id("case") || self.is_id("default") || self.is_p("}") {
                        return Err(format!("case {:?} falls through without break", labels));
                    }
                    body.push(self.stmt()?);
                }
                cases.push((labels, body));
            }
            self.i += 1;
            return Ok(Stmt::Switch(h, cases));
        }
        let s = self.i;
        while !self.is_p(";") {
            if self.peek().is_none() {
                return Err("unexpected end in statement".into());
            }
            self.i += 1;
        }
        let v = self.t[s..self.i].to_vec();
        self.i += 1;
        Ok(Stmt::Simple(v))
    }
}

pub struct Dissector {
    pub top: Vec<Stmt>,
    pub enums: BTreeMap<String, i128>,
    pub declared_hf: BTreeSet<String>,
    pub registered_hf: BTreeMap<String, String>,
    pub variables: BTreeSet<String>,
}

pub fn load_dissector(root: &std::path::Path) -> Result<Dissector, String> {
    let dir = root.join("wow_message_parser/tests/wireshark");
    let rd = |n: &str| std::fs::read_to_string(dir.join(n)).map_err(|e| format!("{}: {}", n, e));
    let parser = rd("parser.txt")?;
    let toks = lex(&parser);
    let mut p = Parser { t: &toks, i: 0 };
    let mut top = Vec::new();
    while p.peek().is_some() {
        top.push(p.stmt()?);
    }
    let mut enums = BTreeMap::new();
    let et = lex(&rd("enums.txt")?);
    let mut i = 0;
    while i + 2 < et.len() {
        if let (Tok::Id(n), Tok::P(eq), Tok::Num(v)) = (&et[i], &et[i + 1], &et[i + 2]) {
            if eq == "=" {
                enums.insert(n.clone(), *v);
            }
        }
        i += 1;
    }
    let declared_hf: BTreeSet<String> = lex(&rd("imports.txt")?).into_iter().filter_map(|t| if let Tok::Id(s) = t { if s.starts_with("hf_") { Some(s) } else { None } } else { None }).collect();
    let mut registered_hf = BTreeMap::new();
    let rt = lex(&rd("register.txt")?);
    let mut i = 0;
    while i < rt.len() {
        if let Tok::Id(s) = &rt[i] {
            if s.starts_with("hf_") {
                let ft = rt[i..].iter().find_map(|t| if let Tok::Id(x) = t { if x.starts_with("FT_") { Some(x.clone()) } else { None } } else { None }).unwrap_or_default();
                registered_hf.insert(s.clone(), ft);
            }
        }
        i += 1;
    }
    let vt = lex(&rd("variables.txt")?);
    let mut variables = BTreeSet::new();
    let mut i = 0;
    while i + 1 < vt.len() {
        if let (Tok::Id(ty), Tok::Id(n)) = (&vt[i], &vt[i + 1]) {
            if ty.starts_with("guint") || ty.starts_with("gint") {
                variables.insert(n.clone());
            }
        }
        i += 1;
    }
    Ok(Dissector { top, enums, declared_hf, registered_hf, variables })
}

// ------------------------------------------------------------------------------------------------
// interpreting it

#[derive(Debug, Clone)]
pub struct Read {
    pub region: usize,
    pub offset: usize,
    pub width: usize,
    pub hf: String,
    pub enc: String,
    pub call: &'static str,
}

struct Cursor {
    buf: Vec<u8>,
    pos: usize,
    region: usize,
}

pub struct Interp<'a> {
    d: &'a Dissector,
    cur: Cursor,
    saved: Vec<Cursor>,
    vars: BTreeMap<String, i128>,
    pub reads: Vec<Read>,
    server_to_client: bool,
    opcode_name: String,
    protocol: i128,
    compressed: Option<Vec<u8>>,
    regions: usize,
    subtree_depth: i64,
    steps: u64,
    vanilla_aura: bool,
}

type R<T> = Result<T, String>;

impl<'a> Interp<'a> {
    fn need(&self, n: usize) -> R<()> {
        if self.cur.pos + n > self.cur.buf.len() {
            Err(format!("reads {} bytes at offset {} of a {}-byte buffer (region {})", n, self.cur.pos, self.cur.buf.len(), self.cur.region))
        } else {
            Ok(())
        }
    }
    fn take(&mut self, n: usize, hf: &str, enc: &str, call: &'static str) -> R<Vec<u8>> {
        self.need(n)?;
        let v = self.cur.buf[self.cur.pos..self.cur.pos + n].to_vec();
        self.reads.push(Read { region: self.cur.region, offset: self.cur.pos, width: n, hf: hf.to_string(), enc: enc.to_string(), call });
        self.cur.pos += n;
        Ok(v)
    }

    fn eval(&self, t: &[Tok]) -> R<i128> {
        // precedence: || < && < ==,!= < <,> < & < -
        fn split<'x>(t: &'x [Tok], ops: &[&str]) -> Option<(&'x [Tok], String, &'x [Tok])> {
            let mut depth = 0;
            for i in (0..t.len()).rev() {
                match &t[i] {
                    Tok::P(p) if p == ")" => depth += 1,
                    Tok::P(p) if p == "(" => depth -= 1,
                    Tok::P(p) if depth == 0 && ops.contains(&p.as_str()) && i > 0 => return Some((&t[..i], p.clone(), &t[i + 1..])),
                    _ => {}
                }
            }
            None
        }
        for ops in [&["||"][..], &["&&"], &["==", "!="], &["<", ">", "<=", ">="], &["&"], &["-"]] {
            if let Some((a, op, b)) = split(t, ops) {
                let x = self.eval(a)?;
                let y = self.eval(b)?;
                return Ok(match op.as_str() {
                    "||" => (x != 0 || y != 0) as i128,
                    "&&" => (x != 0 && y != 0) as i128,
                    "==" => (x == y) as i128,
                    "!=" => (x != y) as i128,
                    "<" => (x < y) as i128,
                    ">" => (x > y) as i128,
                    "<=" => (x <= y) as i128,
                    ">=" => (x >= y) as i128,
                    "&" => x & y,
                    "-" => x - y,
                    _ => 0,
                });
            }
        }
        match t {
            [Tok::Num(n)] => Ok(*n),
            [Tok::P(p), rest @ ..] if p == "(" && matches!(rest.last(), Some(Tok::P(q)) if q == ")") => self.eval(&rest[..rest.len() - 1]),
            [Tok::P(p), Tok::Id(_)] if p == "*" => Ok(self.protocol),
            [Tok::Id(n)] => match n.as_str() {
                "WOWW_SERVER_TO_CLIENT" | "WOW_SERVER_TO_CLIENT" => Ok(self.server_to_client as i128),
                "offset_packet_end" => Ok(if self.cur.region == 0 { self.cur.buf.len() as i128 } else { self.saved.first().map(|c| c.buf.len() as i128).unwrap_or(0) }),
                "compression_end" => Ok(self.cur.buf.len() as i128),
                "compressed_tvb" => Ok(self.compressed.is_some() as i128),
                "NULL" => Ok(0),
                _ => {
                    if let Some(v) = self.vars.get(n) {
                        Ok(*v)
                    } else if let Some(v) = self.d.enums.get(n) {
                        Ok(*v)
                    } else {
                        Err(format!("identifier {} is neither a declared variable nor a declared enumerator", n))
                    }
                }
            },
            [Tok::Id(f), Tok::P(p), ..] if p == "(" => match f.as_str() {
                "ptvcursor_current_offset" => Ok(self.cur.pos as i128),
                "tvb_reported_length" => Ok(self.compressed.as_ref().map(|c| c.len() as i128).unwrap_or(0)),
                _ => Err(format!("unknown function {} in an expression", f)),
            },
            _ => Err(format!("cannot evaluate {:?}", t)),
        }
    }

    fn run(&mut self, stmts: &[Stmt]) -> R<()> {
        for s in stmts {
            self.steps += 1;
            if self.steps > 5_000_000 {
                return Err("interpreter step limit (non-terminating loop)".into());
            }
            match s {
                Stmt::Simple(t) => self.simple(t)?,
                Stmt::If(arms, els) => {
                    let mut done = false;
                    for (c, b) in arms {
                        if self.eval(c)? != 0 {
                            self.run(b)?;
                            done = true;
                            break;
                        }
                    }
                    if !done {
                        if let Some(e) = els {
                            self.run(e)?;
                        }
                    }
                }
                Stmt::For(h, b) => {
                    // guint32 i1 = 0 ; i1 < LIMIT ; ++ i1
                    let parts: Vec<&[Tok]> = h.split(|t| matches!(t, Tok::P(p) if p == ";")).collect();
                    if parts.len() != 3 {
                        return Err(format!("unsupported for header {:?}", h));
                    }
                    let lim_toks = match parts[1] {
                        [Tok::Id(_), Tok::P(lt), rest @ ..] if lt == "<" => rest,
                        _ => return Err(format!("unsupported for condition {:?}", parts[1])),
                    };
                    let lim = self.eval(lim_toks)?;
                    let mut i = 0;
                    while i < lim {
                        self.run(b)?;
                        i += 1;
                        if self.steps > 5_000_000 {
                            return Err("interpreter step limit".into());
                        }
                    }
                }
                Stmt::While(c, b) => {
                    let mut guard = 0;
                    while self.eval(c)? != 0 {
                        let before = self.cur.pos;
                        self.run(b)?;
                        guard += 1;
                        if self.cur.pos == before || guard > 1_000_000 {
                            return Err("while loop makes no progress".into());
                        }
                    }
                }
                Stmt::Switch(h, cases) => {
                    let key: Option<i128> = match h.as_slice() {
                        [Tok::Id(x)] if x == "header_opcode" => None,
                        other => Some(self.eval(other)?),
                    };
                    for (labels, body) in cases {
                        let hit = labels.iter().any(|l| match (l, key) {
                            (Tok::Id(n), None) => *n == self.opcode_name,
                            (Tok::Num(n), Some(k)) => *n == k,
                            (Tok::Id(n), Some(k)) => self.d.enums.get(n) == Some(&k),
                            _ => false,
                        });
                        if hit {
                            self.run(body)?;
                            break;
                        }
                    }
                }
            }
        }
        Ok(())
    }

    fn hf_of(t: &[Tok]) -> String {
        t.iter().find_map(|x| if let Tok::Id(s) = x { if s.starts_with("hf_") { Some(s.clone()) } else { None } } else { None }).unwrap_or_default()
    }

    fn simple(&mut self, t: &[Tok]) -> R<()> {
        let name = match t.first() {
            Some(Tok::Id(n)) => n.as_str(),
            _ => return Err(format!("unsupported statement {:?}", t)),
        };
        // arguments of a call, split at top-level commas
        let args = |t: &[Tok]| -> Vec<Vec<Tok>> {
            let inner = &t[2..t.len().saturating_sub(1)];
            let mut out = vec![vec![]];
            let mut depth = 0;
            for x in inner {
                match x {
                    Tok::P(p) if p == "(" => {
                        depth += 1;
                        out.last_mut().unwrap().push(x.clone());
                    }
                    Tok::P(p) if p == ")" => {
                        depth -= 1;
                        out.last_mut().unwrap().push(x.clone());
                    }
                    Tok::P(p) if p == "," && depth == 0 => out.push(vec![]),
                    _ => out.last_mut().unwrap().push(x.clone()),
                }
            }
            out
        };
        match name {
            "ptvcursor_add" | "ptvcursor_add_ret_uint" => {
                let a = args(t);
                let hf = Self::hf_of(&a[1]);
                let n = self.eval(&a[2])?;
                if n < 0 {
                    return Err(format!("negative length {} for {}", n, hf));
                }
                let enc = match a[3].first() {
                    Some(Tok::Id(e)) => e.clone(),
                    _ => String::new(),
                };
                let bytes = self.take(n as usize, &hf, &enc, if name == "ptvcursor_add" { "add" } else { "add_ret_uint" })?;
                if name == "ptvcursor_add_ret_uint" {
                    let var = match a[4].as_slice() {
                        [Tok::P(p), Tok::Id(v)] if p == "&" => v.clone(),
                        _ => return Err("ptvcursor_add_ret_uint without &variable".into()),
                    };
                    if !self.d.variables.contains(&var) {
                        return Err(format!("variable {} is not declared in variables.txt", var));
                    }
                    let mut v: i128 = 0;
                    if enc == "ENC_BIG_ENDIAN" {
                        for b in &bytes {
                            v = (v << 8) | *b as i128;
                        }
                    } else {
                        for (i, b) in bytes.iter().enumerate() {
                            v |= (*b as i128) << (8 * i);
                        }
                    }
                    self.vars.insert(var, v);
                }
            }
            "add_cstring" => {
                let hf = Self::hf_of(t);
                let n = self.cur.buf[self.cur.pos.min(self.cur.buf.len())..].iter().position(|b| *b == 0).ok_or("add_cstring: no terminator before the end of the buffer")?;
                self.take(n + 1, &hf, "", "add_cstring")?;
            }
            "add_string" => {
                let hf = Self::hf_of(t);
                self.need(1)?;
                let n = self.cur.buf[self.cur.pos] as usize;
                self.take(1 + n, &hf, "", "add_string")?;
            }
            "add_sized_cstring" => {
                let hf = Self::hf_of(t);
                self.need(4)?;
                let p = self.cur.pos;
                let n = u32::from_le_bytes([self.cur.buf[p], self.cur.buf[p + 1], self.cur.buf[p + 2], self.cur.buf[p + 3]]) as usize;
                self.take(4 + n, &hf, "", "add_sized_cstring")?;
            }
            "add_packed_guid" => {
                self.need(1)?;
                let n = self.cur.buf[self.cur.pos].count_ones() as usize;
                self.take(1 + n, "packed_guid", "", "add_packed_guid")?;
            }
            "add_aura_mask" => {
                self.need(4)?;
                let p = self.cur.pos;
                let m = u32::from_le_bytes([self.cur.buf[p], self.cur.buf[p + 1], self.cur.buf[p + 2], self.cur.buf[p + 3]]);
                let per = if self.vanilla_aura { 2 } else { 3 };
                self.take(4 + per * m.count_ones() as usize, "aura_mask", "", "add_aura_mask")?;
            }
            "add_update_mask" => {
                self.need(1)?;
                let p = self.cur.pos;
                let blocks = self.cur.buf[p] as usize;
                self.need(1 + 4 * blocks)?;
                let ones: usize = self.cur.buf[p + 1..p + 1 + 4 * blocks].iter().map(|b| b.count_ones() as usize).sum();
                self.take(1 + 4 * blocks + 4 * ones, "update_mask", "", "add_update_mask")?;
            }
            "add_monster_move_spline" => {
                self.need(4)?;
                let p = self.cur.pos;
                let n = u32::from_le_bytes([self.cur.buf[p], self.cur.buf[p + 1], self.cur.buf[p + 2], self.cur.buf[p + 3]]) as usize;
                let w = if n == 0 { 4 } else { 4 + 12 + 4 * (n - 1) };
                self.take(w, "monster_move_spline", "", "add_monster_move_spline")?;
            }
            "ptvcursor_add_text_with_subtree" => self.subtree_depth += 1,
            "ptvcursor_pop_subtree" => {
                self.subtree_depth -= 1;
                if self.subtree_depth < 0 {
                    return Err("ptvcursor_pop_subtree without a matching push".into());
                }
            }
            "len" => {
                let v = self.eval(&t[2..])?;
                self.vars.insert("len".into(), v);
            }
            "compressed_tvb" => {
                // compressed_tvb = tvb_uncompress(...) | NULL
                if matches!(t.get(2), Some(Tok::Id(x)) if x == "NULL") {
                    self.compressed = None;
                } else {
                    let rest = &self.cur.buf[self.cur.pos.min(self.cur.buf.len())..];
                    self.compressed = miniz_oxide::inflate::decompress_to_vec_zlib(rest).ok();
                }
            }
            "ptvcursor_t" => {
                // ptvcursor_t * old_ptv = ptv
            }
            "ptv" => {
                if t.iter().any(|x| matches!(x, Tok::Id(s) if s == "ptvcursor_new")) {
                    let payload = self.compressed.clone().unwrap_or_default();
                    self.regions += 1;
                    let new = Cursor { buf: payload, pos: 0, region: self.regions };
                    let old = std::mem::replace(&mut self.cur, new);
                    self.saved.push(old);
                } else {
                    // ptv = old_ptv: the compressed stream is the rest of the packet
                    let mut old = self.saved.pop().ok_or("ptv = old_ptv without a saved cursor")?;
                    old.pos = old.buf.len();
                    self.cur = old;
                }
            }
            "gint" | "ptvcursor_free" => {}
            _ => return Err(format!("unsupported statement starting with {}", name)),
        }
        Ok(())
    }
}

pub fn interpret(d: &Dissector, opcode_name: &str, protocol: i128, server_to_client: bool, vanilla_aura: bool, body: &[u8]) -> (Vec<Read>, Result<usize, String>) {
    let mut it = Interp { d, cur: Cursor { buf: body.to_vec(), pos: 0, region: 0 }, saved: vec![], vars: BTreeMap::new(), reads: vec![], server_to_client, opcode_name: opcode_name.to_string(), protocol, compressed: None, regions: 0, subtree_depth: 0, steps: 0, vanilla_aura };
    let r = it.run(&d.top);
    let end = it.cur.pos;
    let depth = it.subtree_depth;
    let reads = std::mem::take(&mut it.reads);
    match r {
        Err(e) => (reads, Err(e)),
        Ok(()) if depth != 0 => (reads, Err(format!("{} subtrees left open", depth))),
        Ok(()) => (reads, Ok(end)),
    }
}

fn has_case(d: &Dissector, name: &str) -> bool {
    d.top.iter().any(|s| matches!(s, Stmt::Switch(_, cases) if cases.iter().any(|(l, _)| l.iter().any(|t| matches!(t, Tok::Id(n) if n == name)))))
}

// ------------------------------------------------------------------------------------------------
// judging one encoding

/// groups of model leaves that one dissector call may cover: same member, contiguous, same region
fn judge(entry: &Entry, enc: &Encoded, reads: &[Read], end: &Result<usize, String>) -> Option<(String, String)> {
    let body_len = enc.frame.len() - enc.header_len;
    match end {
        Err(e) => return Some(("dissector-error".into(), e.clone())),
        Ok(n) if *n != body_len => return Some(("stops-before-or-after-end".into(), format!("dissector stops at body offset {} of {}", n, body_len))),
        _ => {}
    }
    // leaves by region
    let mut by_region: BTreeMap<usize, Vec<&Leaf>> = BTreeMap::new();
    for l in &enc.trace {
        by_region.entry(l.region).or_default().push(l);
    }
    for v in by_region.values_mut() {
        v.sort_by_key(|l| l.offset);
    }
    for r in reads {
        let Some(leaves) = by_region.get(&r.region) else {
            if r.width == 0 {
                continue;
            }
            return Some(("read-in-unknown-region".into(), format!("{} reads {} bytes in region {} the definition does not have", r.hf, r.width, r.region)));
        };
        if r.width == 0 {
            continue;
        }
        let covered: Vec<&&Leaf> = leaves.iter().filter(|l| l.offset >= r.offset && l.offset + l.width <= r.offset + r.width && l.width > 0).collect();
        let starts = leaves.iter().any(|l| l.offset == r.offset && l.width > 0);
        let ends = leaves.iter().any(|l| l.offset + l.width == r.offset + r.width && l.width > 0);
        let total: usize = covered.iter().map(|l| l.width).sum();
        if !starts || !ends || total != r.width {
            let near: Vec<String> = leaves.iter().filter(|l| l.offset + l.width > r.offset && l.offset < r.offset + r.width).map(|l| format!("{}@{}+{}", l.path, l.offset, l.width)).collect();
            return Some(("read-not-aligned-with-fields".into(), format!("{} reads [{}, {}) which is not a whole number of fields of the definition there: {:?}", r.hf, r.offset, r.offset + r.width, near)));
        }
        // one call covers one member (array elements of one member, or the parts of one composite value)
        let names: BTreeSet<&str> = covered.iter().map(|l| l.field.as_str()).filter(|f| !f.starts_with('<')).collect();
        let paths: BTreeSet<String> = covered.iter().map(|l| l.path.split('<').next().unwrap_or("").trim_end_matches('.').to_string()).collect();
        if names.len() > 1 && r.call == "add" {
            return Some(("read-spans-several-members".into(), format!("{} reads {} bytes covering members {:?}", r.hf, r.width, names)));
        }
        // integers wider than one byte: endianness
        if covered.len() == 1 && r.call != "add_cstring" {
            let l = covered[0];
            let scalar = matches!(l.role, Role::Plain | Role::Enum | Role::Flag | Role::Bool | Role::LengthOf | Role::Constant | Role::SelfSize | Role::DecompressedSize | Role::Float);
            if scalar && l.width > 1 && (r.enc == "ENC_BIG_ENDIAN") != l.big_endian && r.enc != "ENC_NA" {
                return Some(("endianness".into(), format!("{} is read as {} but {} is {}", r.hf, r.enc, l.path, if l.big_endian { "big endian" } else { "little endian" })));
            }
        }
        // the field name the dissector shows
        if r.call == "add" || r.call == "add_ret_uint" || r.call == "add_cstring" || r.call == "add_string" || r.call == "add_sized_cstring" {
            if let Some(f) = names.iter().next() {
                let shown = r.hf.trim_start_matches("hf_woww_").trim_start_matches("hf_wow_");
                if shown != *f && !paths.is_empty() {
                    // renamed for uniqueness across messages (same name, other type): counted by the caller
                    return Some(("name".into(), format!("{}|{}", shown, f)));
                }
            }
        }
    }
    let _ = entry;
    None
}

pub struct Stats {
    pub messages: u64,
    pub encodings: u64,
    pub reads: u64,
    pub not_covered: Vec<String>,
    pub renamed: BTreeMap<String, u64>,
    pub classes: BTreeMap<String, u64>,
    pub distinct: BTreeSet<u64>,
    pub samples: Vec<Value>,
}

pub struct Failure {
    pub sig: String,
    pub object: String,
    pub what: String,
    pub detail: Value,
}

pub fn compare(t: &GenTree, seed: u64, runs_per_entry: usize, tapes_per_entry: usize, stats: &mut Stats) -> Vec<Failure> {
    let mut fails = Vec::new();
    let d = match load_dissector(&t.scratch.root) {
        Ok(d) => d,
        Err(e) => {
            fails.push(Failure { sig: "c17:fragment:does-not-parse".into(), object: String::new(), what: format!("the generated parser fragment is not in the expected C subset: {}", e), detail: json!({}) });
            return fails;
        }
    };
    // every referenced hf is declared and registered, every referenced constant declared
    fn ids(s: &[Stmt], out: &mut BTreeSet<String>) {
        for x in s {
            match x {
                Stmt::Simple(t) => out.extend(t.iter().filter_map(|t| if let Tok::Id(s) = t { Some(s.clone()) } else { None })),
                Stmt::If(a, e) => {
                    for (c, b) in a {
                        out.extend(c.iter().filter_map(|t| if let Tok::Id(s) = t { Some(s.clone()) } else { None }));
                        ids(b, out);
                    }
                    if let Some(e) = e {
                        ids(e, out);
                    }
                }
                Stmt::For(h, b) | Stmt::While(h, b) => {
                    out.extend(h.iter().filter_map(|t| if let Tok::Id(s) = t { Some(s.clone()) } else { None }));
                    ids(b, out);
                }
                Stmt::Switch(_, cs) => {
                    for (_, b) in cs {
                        ids(b, out);
                    }
                }
            }
        }
    }
    let mut used = BTreeSet::new();
    ids(&d.top, &mut used);
    for id in &used {
        if id.starts_with("hf_") {
            if !d.declared_hf.contains(id) {
                fails.push(Failure { sig: format!("c17:{}:hf-not-declared", id), object: String::new(), what: format!("{} is used by the parser fragment but not declared in imports.txt", id), detail: json!({}) });
            }
            if !d.registered_hf.contains_key(id) {
                fails.push(Failure { sig: format!("c17:{}:hf-not-registered", id), object: String::new(), what: format!("{} is used by the parser fragment but not registered in register.txt", id), detail: json!({}) });
            }
        }
    }
    stats.classes.insert("hf-variables-referenced".into(), used.iter().filter(|i| i.starts_with("hf_")).count() as u64);
    let es = entries(&t.u);
    for e in &es {
        let (covered_ns, protocol) = match e.ns {
            Ns::World(Expansion::Vanilla) => (true, 0),
            Ns::Login(v) => (true, v as i128),
            _ => (false, 0),
        };
        if !covered_ns {
            continue;
        }
        let case_name = match e.ns {
            Ns::Login(_) => e.name.trim_end_matches("_Client").trim_end_matches("_Server").to_string(),
            _ => e.name.trim_end_matches("_Client").trim_end_matches("_Server").to_string(),
        };
        if !has_case(&d, &case_name) {
            // only messages with an empty body may go without a case
            let empty = t.u.objects[e.obj].container().map(|c| c.members.is_empty()).unwrap_or(true);
            if empty {
                *stats.classes.entry("entries-with-empty-body-and-no-case".into()).or_insert(0) += 1;
            } else {
                stats.not_covered.push(e.label());
                fails.push(Failure { sig: format!("c17:{}:message-without-case", e.label()), object: e.name.clone(), what: format!("{} has members but the fragment has no case for it", e.label()), detail: json!({}) });
            }
            continue;
        }
        let obj = &t.u.objects[e.obj];
        if obj.tags.is_true("unimplemented") {
            continue;
        }
        stats.messages += 1;
        let forced0 = BTreeMap::new();
        let encf = |tape: &[u8], forced: &BTreeMap<String, u32>| encode(&t.u, e, tape, forced);
        let mut cases: Vec<(Vec<u8>, BTreeMap<String, u32>)> = Vec::new();
        let mut ds = DirectedStats::default();
        if let Ok(cs) = directed(&encf, &[], runs_per_entry, &mut ds) {
            for c in cs {
                cases.push((c.tape.clone(), c.forced.clone()));
            }
        }
        let mut runner = vcommon::runner(seed, vcommon::fnv(e.label().as_bytes()), 1);
        let strat = proptest::collection::vec(tape_strategy(96), tapes_per_entry);
        for tape in strat.new_tree(&mut runner).map(|t| t.current()).unwrap_or_default() {
            cases.push((tape, forced0.clone()));
        }
        let mut shapes = BTreeSet::new();
        let mut reported = BTreeSet::new();
        for (tape, forced) in cases {
            let Ok(enc) = encode(&t.u, e, &tape, &forced) else { continue };
            if !shapes.insert(enc.shape()) && shapes.len() > 4 {
                // keep a few repeats of a shape (values differ), skip the rest
                if (vcommon::fnv(&tape) & 3) != 0 {
                    continue;
                }
            }
            stats.encodings += 1;
            let body = enc.body().to_vec();
            let (reads, end) = interpret(&d, &case_name, protocol, e.dir == Direction::Server, true, &body);
            stats.reads += reads.len() as u64;
            stats.distinct.insert(vcommon::fnv(format!("{}|{}", e.name, enc.shape()).as_bytes()));
            if let Some((kind, what)) = judge(e, &enc, &reads, &end) {
                if kind == "name" {
                    *stats.renamed.entry(what).or_insert(0) += 1;
                    continue;
                }
                if reported.insert(kind.clone()) {
                    fails.push(Failure { sig: format!("c17:{}:{}", e.label(), kind), object: e.name.clone(), what: format!("{}: {}", e.label(), what), detail: json!({"entry": e.label(), "tape": vcommon::hex(&tape), "forced": forced_json(&forced), "frame": vcommon::hex(&enc.frame), "reads": reads.iter().take(60).map(|r| format!("{}:{}+{} {}", r.region, r.offset, r.width, r.hf)).collect::<Vec<_>>()}) });
                }
            } else if stats.samples.len() < 8 && stats.encodings % 997 == 0 {
                stats.samples.push(json!({"entry": e.label(), "frame": vcommon::hex_short(&enc.frame), "dissector_reads": reads.len(), "shape": enc.shape()}));
            }
        }
    }
    fails
}

pub fn run(tier: Tier, replay: Option<String>) -> i32 {
    let mut c = Check::new("C17", tier);
    c.rule = "one evaluation = the generated case body of one message interpreted over one canonical encoding. Encodings come from the independent wowm model: directed enumeration visits every alternative of every decision site of the message (enum / flag / optional / array length choices), proptest tapes add value combinations. Oracle: the interpreter must not read past the buffer, must stop exactly at the end of the body, and every read must cover a whole number of consecutive leaves of ONE member of the model's trace (so order, widths and taken branches agree), with the member's endianness; every hf_ variable used must be declared and registered, every constant and variable declared. Non-trivial = encoding with at least one decision; distinct = (message, control shape). The same runs on valid mutants of the Vanilla / login corpus.".into();
    c.assume("helper functions of the hand-written dissector (add_cstring, add_string, add_sized_cstring, add_packed_guid, add_aura_mask, add_update_mask, add_monster_move_spline, tvb_uncompress) consume what their wire forms prescribe");
    let bin = match generator_binary() {
        Ok(b) => b,
        Err(e) => {
            eprintln!("C17: {}", e);
            return 2;
        }
    };
    let scratch = match Scratch::new() {
        Ok(s) => s,
        Err(e) => {
            eprintln!("C17: {}", e);
            return 2;
        }
    };
    let base = match GenTree::generate(scratch, &bin) {
        Ok(t) => t,
        Err((_, run)) => {
            eprintln!("C17: generator failed on the unmodified tree: {:?} {}", run.status, run.stderr.lines().take(5).collect::<Vec<_>>().join(" | "));
            return 2;
        }
    };
    let runs = tier.pick(120usize, 1500);
    let tapes = tier.pick(12usize, 200);
    let mut stats = Stats { messages: 0, encodings: 0, reads: 0, not_covered: vec![], renamed: BTreeMap::new(), classes: BTreeMap::new(), distinct: BTreeSet::new(), samples: vec![] };
    let seed = c.seed;
    let base_fails = compare(&base, seed, runs, tapes, &mut stats);
    let base_sigs: BTreeSet<String> = base_fails.iter().map(|f| f.sig.clone()).collect();
    let mut reported = BTreeSet::new();
    if replay.is_none() {
        for f in base_fails {
            if reported.insert(f.sig.clone()) {
                c.fail(&f.sig, &f.what, f.detail);
            }
        }
    }
    let batches = tier.pick(4usize, 96);
    let per_batch = tier.pick(80usize, 100);
    let outcome = mutate::run_batches(&base.u, &bin, seed, 0x1717, batches, per_batch, mutate::ALL_KINDS, replay.as_deref(), |t, _batch| {
        let mut st = Stats { messages: 0, encodings: 0, reads: 0, not_covered: vec![], renamed: BTreeMap::new(), classes: BTreeMap::new(), distinct: BTreeSet::new(), samples: vec![] };
        let f = compare(t, seed, 40, 4, &mut st);
        (f.into_iter().filter(|f| !base_sigs.contains(&f.sig)).map(|f| mutate::MutFailure { sig: f.sig, object: f.object, what: f.what, detail: f.detail }).collect(), json!({"encodings": st.encodings}))
    });
    for f in &outcome.failures {
        if reported.insert(f.sig.clone()) {
            c.fail(&f.sig, &f.what, f.detail.clone());
        }
    }
    for (k, v) in &outcome.classes {
        c.count_n(k, *v);
    }
    let mut menc = 0;
    for s in &outcome.per_batch {
        menc += s["encodings"].as_u64().unwrap_or(0);
    }
    for w in &outcome.inconclusive {
        c.inconclusive(w);
    }
    c.evals(stats.encodings + menc);
    for d in &stats.distinct {
        c.nontrivial(*d);
    }
    c.count_n("messages-with-a-case", stats.messages);
    c.count_n("dissector-reads-checked", stats.reads);
    c.extra.insert("entries_without_a_case_in_the_fragment".into(), json!(stats.not_covered));
    c.extra.insert("encodings_on_mutants".into(), json!(menc));
    let mut ren: Vec<(String, u64)> = stats.renamed.into_iter().collect();
    ren.sort_by(|a, b| b.1.cmp(&a.1));
    c.extra.insert("members_shown_under_another_name(shown|member)".into(), json!(ren.iter().take(40).collect::<Vec<_>>()));
    c.extra.insert("mutants".into(), json!({"batches": outcome.batches_run, "mutations_applied": outcome.mutations_applied, "mutations_dropped_as_rejected": outcome.dropped}));
    for (k, v) in &stats.classes {
        c.count_n(k, *v);
    }
    for s in stats.samples {
        c.sample(s);
    }
    for s in outcome.samples {
        c.sample(s);
    }
    c.finish()
}
