//! JSON Type Definition (RFC 8927) validator, written from the RFC: the eight schema forms,
//! `nullable`, `definitions`/`ref`, `additionalProperties` (false unless stated).
use serde_json::Value;

#[derive(Debug, Clone)]
pub struct JtdError {
    pub instance_path: String,
    pub schema_path: String,
    pub what: String,
}

pub struct Validator<'a> {
    pub root: &'a Value,
    pub errors: Vec<JtdError>,
    pub max_errors: usize,
    /// number of (instance node, schema node) pairs evaluated
    pub nodes: u64,
}

/// checks that the schema itself is well-formed enough for this validator (forms are exclusive, refs resolve)
pub fn check_schema(root: &Value) -> Vec<String> {
    let mut problems = Vec::new();
    fn walk(s: &Value, root: &Value, path: &str, problems: &mut Vec<String>, is_root: bool) {
        let Some(o) = s.as_object() else {
            problems.push(format!("{}: schema is not an object", path));
            return;
        };
        let forms = ["ref", "type", "enum", "elements", "values", "discriminator"];
        let mut present: Vec<&str> = forms.iter().copied().filter(|f| o.contains_key(*f)).collect();
        if o.contains_key("properties") || o.contains_key("optionalProperties") {
            present.push("properties");
        }
        if present.len() > 1 && !(present.len() == 2 && present.contains(&"discriminator") && o.contains_key("mapping") && !o.contains_key("properties")) {
            problems.push(format!("{}: more than one form {:?}", path, present));
        }
        for k in o.keys() {
            if !["ref", "type", "enum", "elements", "values", "discriminator", "mapping", "properties", "optionalProperties", "additionalProperties", "nullable", "metadata", "definitions"].contains(&k.as_str()) {
                problems.push(format!("{}: unknown keyword {}", path, k));
            }
        }
        if o.contains_key("definitions") && !is_root {
            problems.push(format!("{}: definitions outside the root", path));
        }
        if let Some(r) = o.get("ref") {
            if r.as_str().and_then(|r| root.get("definitions").and_then(|d| d.get(r))).is_none() {
                problems.push(format!("{}: unresolved ref {}", path, r));
            }
        }
        if let Some(t) = o.get("type").and_then(|t| t.as_str()) {
            if !["boolean", "string", "timestamp", "float32", "float64", "int8", "uint8", "int16", "uint16", "int32", "uint32"].contains(&t) {
                problems.push(format!("{}: unknown type {}", path, t));
            }
        }
        if let Some(e) = o.get("elements") {
            walk(e, root, &format!("{}/elements", path), problems, false);
        }
        if let Some(e) = o.get("values") {
            walk(e, root, &format!("{}/values", path), problems, false);
        }
        for key in ["properties", "optionalProperties", "mapping", "definitions"] {
            if let Some(p) = o.get(key).and_then(|p| p.as_object()) {
                for (k, v) in p {
                    walk(v, root, &format!("{}/{}/{}", path, key, k), problems, false);
                }
            }
        }
    }
    walk(root, root, "", &mut problems, true);
    problems
}

impl<'a> Validator<'a> {
    pub fn new(root: &'a Value) -> Self {
        Validator { root, errors: Vec::new(), max_errors: 50, nodes: 0 }
    }

    fn err(&mut self, ip: &str, sp: &str, what: String) {
        if self.errors.len() < self.max_errors {
            self.errors.push(JtdError { instance_path: ip.to_string(), schema_path: sp.to_string(), what });
        }
    }

    pub fn validate(&mut self, instance: &Value) {
        let root = self.root;
        self.check(root, instance, "", "", None);
    }

    fn check(&mut self, schema: &Value, inst: &Value, ip: &str, sp: &str, discriminator_tag: Option<&str>) {
        self.nodes += 1;
        if self.errors.len() >= self.max_errors {
            return;
        }
        let Some(s) = schema.as_object() else { return };
        if s.get("nullable").and_then(|n| n.as_bool()) == Some(true) && inst.is_null() {
            return;
        }
        if let Some(r) = s.get("ref").and_then(|r| r.as_str()) {
            let root = self.root;
            match root.get("definitions").and_then(|d| d.get(r)) {
                Some(def) => self.check(def, inst, ip, &format!("/definitions/{}", r), None),
                None => self.err(ip, sp, format!("unresolved ref {}", r)),
            }
            return;
        }
        if let Some(t) = s.get("type").and_then(|t| t.as_str()) {
            let ok = match t {
                "boolean" => inst.is_boolean(),
                "string" => inst.is_string(),
                "timestamp" => inst.is_string(),
                "float32" | "float64" => inst.is_number(),
                _ => {
                    let (lo, hi): (f64, f64) = match t {
                        "int8" => (-128.0, 127.0),
                        "uint8" => (0.0, 255.0),
                        "int16" => (-32768.0, 32767.0),
                        "uint16" => (0.0, 65535.0),
                        "int32" => (-2147483648.0, 2147483647.0),
                        "uint32" => (0.0, 4294967295.0),
                        _ => (1.0, 0.0),
                    };
                    match inst.as_f64() {
                        Some(f) => f.fract() == 0.0 && f >= lo && f <= hi && inst.is_number(),
                        None => false,
                    }
                }
            };
            if !ok {
                self.err(ip, &format!("{}/type", sp), format!("expected {} but found {}", t, short(inst)));
            }
            return;
        }
        if let Some(e) = s.get("enum").and_then(|e| e.as_array()) {
            if !(inst.is_string() && e.contains(inst)) {
                self.err(ip, &format!("{}/enum", sp), format!("{} is not one of the enum values", short(inst)));
            }
            return;
        }
        if let Some(e) = s.get("elements") {
            match inst.as_array() {
                Some(a) => {
                    for (i, x) in a.iter().enumerate() {
                        self.check(e, x, &format!("{}/{}", ip, i), &format!("{}/elements", sp), None);
                    }
                }
                None => self.err(ip, &format!("{}/elements", sp), format!("expected an array but found {}", short(inst))),
            }
            return;
        }
        if s.contains_key("properties") || s.contains_key("optionalProperties") {
            let Some(o) = inst.as_object() else {
                self.err(ip, sp, format!("expected an object but found {}", short(inst)));
                return;
            };
            let empty = serde_json::Map::new();
            let props = s.get("properties").and_then(|p| p.as_object()).unwrap_or(&empty);
            let opt = s.get("optionalProperties").and_then(|p| p.as_object()).unwrap_or(&empty);
            for (k, sub) in props {
                match o.get(k) {
                    Some(v) => self.check(sub, v, &format!("{}/{}", ip, k), &format!("{}/properties/{}", sp, k), None),
                    None => self.err(ip, &format!("{}/properties/{}", sp, k), format!("required property {} is missing", k)),
                }
            }
            for (k, sub) in opt {
                if let Some(v) = o.get(k) {
                    self.check(sub, v, &format!("{}/{}", ip, k), &format!("{}/optionalProperties/{}", sp, k), None);
                }
            }
            if s.get("additionalProperties").and_then(|a| a.as_bool()) != Some(true) {
                for k in o.keys() {
                    if !props.contains_key(k) && !opt.contains_key(k) && Some(k.as_str()) != discriminator_tag {
                        self.err(&format!("{}/{}", ip, k), sp, format!("property {} is not allowed by the schema", k));
                    }
                }
            }
            return;
        }
        if let Some(v) = s.get("values") {
            match inst.as_object() {
                Some(o) => {
                    for (k, x) in o {
                        self.check(v, x, &format!("{}/{}", ip, k), &format!("{}/values", sp), None);
                    }
                }
                None => self.err(ip, &format!("{}/values", sp), format!("expected an object but found {}", short(inst))),
            }
            return;
        }
        if let Some(d) = s.get("discriminator").and_then(|d| d.as_str()) {
            let Some(o) = inst.as_object() else {
                self.err(ip, &format!("{}/discriminator", sp), format!("expected an object but found {}", short(inst)));
                return;
            };
            match o.get(d) {
                None => self.err(ip, &format!("{}/discriminator", sp), format!("discriminator {} is missing", d)),
                Some(tag) => match tag.as_str() {
                    None => self.err(&format!("{}/{}", ip, d), &format!("{}/discriminator", sp), "discriminator is not a string".into()),
                    Some(t) => match s.get("mapping").and_then(|m| m.get(t)) {
                        None => self.err(&format!("{}/{}", ip, d), &format!("{}/mapping", sp), format!("discriminator value {} has no mapping", t)),
                        Some(sub) => self.check(sub, inst, ip, &format!("{}/mapping/{}", sp, t), Some(d)),
                    },
                },
            }
            return;
        }
        // empty form accepts anything
    }
}

fn short(v: &Value) -> String {
    let s = v.to_string();
    if s.len() > 60 {
        format!("{}...", &s[..60])
    } else {
        s
    }
}

#[cfg(test)]
mod tests {
    use super::*;
    use serde_json::json;
    #[test]
    fn forms() {
        let schema = json!({"properties": {"a": {"type": "uint8"}, "b": {"elements": {"ref": "x"}}}, "optionalProperties": {"c": {"enum": ["P", "Q"]}}, "definitions": {"x": {"discriminator": "t", "mapping": {"one": {"properties": {"v": {"type": "string", "nullable": true}}}}}}});
        assert!(check_schema(&schema).is_empty());
        let good = json!({"a": 255, "b": [{"t": "one", "v": null}], "c": "Q"});
        let mut v = Validator::new(&schema);
        v.validate(&good);
        assert!(v.errors.is_empty(), "{:?}", v.errors);
        for bad in [json!({"a": 256, "b": []}), json!({"a": 1}), json!({"a": 1, "b": [], "d": 1}), json!({"a": 1, "b": [{"t": "two"}]}), json!({"a": 1, "b": [{"t": "one", "v": 1}]}), json!({"a": 1.5, "b": []}), json!({"a": 1, "b": [], "c": "R"}), json!({"a": 1, "b": [{"t": "one", "v": "s", "w": 1}]})] {
            let mut v = Validator::new(&schema);
            v.validate(&bad);
            assert!(!v.errors.is_empty(), "accepted {}", bad);
        }
    }
}
