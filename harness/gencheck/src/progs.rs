//! Random well-formed wowm message definitions, built from a byte tape (drawn and shrunk by
//! proptest) with every language feature the shipped world corpus uses: built-in types, constants,
//! enums and flags with if / else-if / else (==, !=, ||, &), nesting, upcasts, structs, fixed /
//! variable / endless arrays, optional tails. Sound by construction: names are unique, values
//! distinct and in range, conditions only name declared enumerators, endless arrays and optional
//! blocks come last.
use std::collections::BTreeSet;

pub struct Program {
    /// definitions the message needs (enums, flags, structs), each a complete wowm object without tags
    pub aux: Vec<String>,
    /// the member list of the message (text between the braces)
    pub body: String,
    pub features: BTreeSet<&'static str>,
    /// shapes the tape asked for that were left out because a recorded finding covers them
    pub excluded: Vec<&'static str>,
}

struct B<'a> {
    t: &'a [u8],
    p: usize,
    prefix: String,
    n: usize,
    aux: Vec<String>,
    feats: BTreeSet<&'static str>,
    /// VERIF_PROBE=1: do not steer around the recorded findings
    no_avoid: bool,
    pub excluded: Vec<&'static str>,
}

const PLAIN: &[&str] = &["u8", "u16", "u32", "u64", "i32", "f32", "Bool", "Bool32", "Guid", "PackedGuid", "CString", "SizedCString", "Level", "Level16", "Level32", "Gold", "Seconds", "Milliseconds", "Spell", "Spell16", "Item", "DateTime"];
const ELEM: &[&str] = &["u8", "u16", "u32", "u64", "Guid", "PackedGuid", "CString", "Spell"];

impl<'a> B<'a> {
    fn next(&mut self) -> usize {
        let v = self.t.get(self.p).copied().unwrap_or(0);
        self.p += 1;
        v as usize
    }
    // identifiers carry no digits: the Wireshark printer derives its field names from the text up
    // to the first digit and requires one type class per such name (recorded finding of C07)
    fn name(&mut self, what: &str) -> String {
        self.n += 1;
        format!("{}_{}_{}", self.prefix, what, letters(self.n))
    }
    fn type_name(&mut self, what: &str) -> String {
        self.n += 1;
        let p: String = self.prefix.split('_').map(|w| { let mut c = w.chars(); c.next().map(|f| f.to_uppercase().collect::<String>() + c.as_str()).unwrap_or_default() }).collect();
        format!("Verif{}{}{}", p, what, letters(self.n).to_uppercase())
    }

    fn enum_def(&mut self) -> (String, Vec<String>, &'static str) {
        let name = self.type_name("Enum");
        let base = ["u8", "u16", "u32"][self.next() % 3];
        let count = 2 + self.next() % 4;
        let spaced = self.next() % 3 == 0;
        let mut es = Vec::new();
        let mut text = format!("enum {} : {} {{\n", name, base);
        for i in 0..count {
            let en = format!("E{}_{}", letters(self.n).to_uppercase(), ["ALPHA", "BETA", "GAMMA", "DELTA", "EPSILON"][i]);
            let v = if spaced { i * 7 + 1 } else { i };
            text.push_str(&format!("    {} = {};\n", en, v));
            es.push(en);
        }
        text.push('}');
        self.aux.push(text);
        (name, es, base)
    }

    fn flag_def(&mut self) -> (String, Vec<String>) {
        let name = self.type_name("Flag");
        let base = ["u8", "u16", "u32"][self.next() % 3];
        let count = 2 + self.next() % 3;
        let mut es = Vec::new();
        let mut text = format!("flag {} : {} {{\n    F{}_NONE = 0x00;\n", name, base, letters(self.n).to_uppercase());
        for i in 0..count {
            let en = format!("F{}_{}", letters(self.n).to_uppercase(), ["ONE", "TWO", "THREE", "FOUR"][i]);
            text.push_str(&format!("    {} = {:#04x};\n", en, 1u32 << (i + (self.next() % 2))));
            es.push(en);
        }
        // make values distinct: recompute from positions if two coincide
        let mut seen = BTreeSet::new();
        let mut lines: Vec<String> = text.lines().map(|s| s.to_string()).collect();
        for l in lines.iter_mut().skip(2) {
            if let Some((a, b)) = l.clone().split_once(" = ") {
                let mut v = u32::from_str_radix(b.trim_end_matches(';').trim_start_matches("0x"), 16).unwrap_or(1);
                while !seen.insert(v) {
                    v <<= 1;
                }
                *l = format!("{} = {:#04x};", a, v);
            }
        }
        let mut text = lines.join("\n");
        text.push_str("\n}");
        self.aux.push(text);
        (name, es)
    }

    fn struct_def(&mut self) -> String {
        self.struct_def_of(false)
    }

    /// `fixed_size`: only members of constant size (recorded finding: a fixed array T[n] of a struct with a
    /// variable-sized member does not compile, its `const fn size()` iterates)
    fn struct_def_of(&mut self, fixed_size: bool) -> String {
        let name = self.type_name("Struct");
        let count = 1 + self.next() % 3;
        let mut text = format!("struct {} {{\n", name);
        for _ in 0..count {
            let ty = if fixed_size { ["u8", "u16", "u32", "f32", "Guid", "u64", "u8"][self.next() % 7] } else { ["u8", "u16", "u32", "f32", "Guid", "CString", "PackedGuid"][self.next() % 7] };
            let n = self.name("s");
            text.push_str(&format!("    {} {};\n", ty, n));
        }
        // a counted array inside the struct (its reader gets the allocation guard and the error type that goes with it)
        if !fixed_size && self.next() % 3 == 0 {
            self.feats.insert("struct-with-counted-array");
            let cty = ["u8", "u16", "u32"][self.next() % 3];
            let el = ["u8", "u16", "u32", "Guid", "PackedGuid", "u8"][self.next() % 6];
            let (cn, n) = (self.name("scount"), self.name("sva"));
            text.push_str(&format!("    {} {};\n    {}[{}] {};\n", cty, cn, el, cn, n));
            if self.next() % 2 == 0 {
                let t = self.name("stail");
                text.push_str(&format!("    u32 {};\n", t));
            }
        }
        text.push('}');
        self.aux.push(text);
        name
    }

    fn plain(&mut self, indent: &str) -> String {
        let ty = PLAIN[self.next() % PLAIN.len()];
        let n = self.name("m");
        format!("{}{} {};\n", indent, ty, n)
    }

    fn members(&mut self, count: usize, depth: usize, indent: &str) -> String {
        let mut out = String::new();
        let mut constants = 0;
        for _ in 0..count {
            let k = self.next() % 14;
            if k == 3 {
                constants += 1;
            }
            match k {
                0 | 1 | 2 | 13 => out.push_str(&self.plain(indent)),
                3 => {
                    self.feats.insert("constant");
                    let n = self.name("c");
                    let ty = ["u8", "u16", "u32"][self.next() % 3];
                    out.push_str(&format!("{}{} {} = {};\n", indent, ty, n, self.next() % 200));
                }
                4 | 5 | 10 => {
                    let (en, es, base) = self.enum_def();
                    let n = self.name("e");
                    let upcast = if k == 10 && base != "u32" {
                        self.feats.insert("upcast");
                        "(u32)"
                    } else {
                        ""
                    };
                    out.push_str(&format!("{}{}{} {};\n", indent, upcast, en, n));
                    if depth < 2 && self.next() % 4 != 0 {
                        self.feats.insert(if depth == 0 { "enum-if" } else { "nested-enum-if" });
                        let form = self.next() % 4;
                        let mut used = 0usize;
                        let cond = |this: &mut Self, used: &mut usize| -> Option<String> {
                            if *used >= es.len() {
                                return None;
                            }
                            let a = &es[*used];
                            *used += 1;
                            if this.next() % 3 == 0 && *used < es.len() {
                                this.feats.insert("or-condition");
                                let b = &es[*used];
                                *used += 1;
                                Some(format!("{} == {}\n{}    || {} == {}", n, a, indent, n, b))
                            } else {
                                Some(format!("{} == {}", n, a))
                            }
                        };
                        let inner_indent = format!("{}    ", indent);
                        if form == 3 {
                            self.feats.insert("not-equals");
                            let c = 1 + self.next() % 2;
                            let body = self.members(c, depth + 1, &inner_indent);
                            out.push_str(&format!("{}if ({} != {}) {{\n{}{}}}\n", indent, n, es[0], body, indent));
                        } else {
                            let c0 = cond(self, &mut used).unwrap();
                            let c = 1 + self.next() % 2;
                            let body = self.members(c, depth + 1, &inner_indent);
                            out.push_str(&format!("{}if ({}) {{\n{}{}}}", indent, c0, body, indent));
                            let else_ifs = if form >= 1 { self.next() % 3 } else { 0 };
                            for _ in 0..else_ifs {
                                if let Some(cx) = cond(self, &mut used) {
                                    self.feats.insert("else-if");
                                    let c = 1 + self.next() % 2;
                                    let body = self.members(c, depth + 1, &inner_indent);
                                    out.push_str(&format!(" else if ({}) {{\n{}{}}}", cx, body, indent));
                                }
                            }
                            if form == 2 && used < es.len() {
                                self.feats.insert("else");
                                let c = 1 + self.next() % 2;
                                let body = self.members(c, depth + 1, &inner_indent);
                                out.push_str(&format!(" else {{\n{}{}}}", body, indent));
                            }
                            out.push('\n');
                        }
                    }
                }
                6 => {
                    let (fname, es) = self.flag_def();
                    let n = self.name("f");
                    out.push_str(&format!("{}{} {};\n", indent, fname, n));
                    // recorded finding of C07: flag ifs inside a branch do not compile (use of moved value): top level only
                    if depth == 0 || (depth < 2 && self.no_avoid) {
                        self.feats.insert("flag-if");
                        let k = 1 + self.next() % es.len().min(2);
                        let inner_indent = format!("{}    ", indent);
                        for e in es.iter().take(k) {
                            let c = 1 + self.next() % 2;
                            let body = self.members(c, depth + 2, &inner_indent);
                            out.push_str(&format!("{}if ({} & {}) {{\n{}{}}}\n", indent, n, e, body, indent));
                        }
                    }
                }
                7 => {
                    self.feats.insert("struct-member");
                    let s = self.struct_def();
                    let n = self.name("st");
                    out.push_str(&format!("{}{} {};\n", indent, s, n));
                }
                8 => {
                    self.feats.insert("fixed-array");
                    let n = self.name("fa");
                    // recorded findings: inside a branch, fixed arrays of Guid / PackedGuid / CString / Spell / structs do not compile
                    let el = if depth >= 1 && !self.no_avoid {
                        self.excluded.push("non-integer-fixed-array-in-branch");
                        ["u8", "u16", "u32", "u64"][self.next() % 4].to_string()
                    } else if self.next() % 5 == 0 {
                        self.feats.insert("struct-array");
                        if self.no_avoid {
                            self.struct_def()
                        } else {
                            self.excluded.push("fixed-array-of-variable-sized-struct");
                            self.struct_def_of(true)
                        }
                    } else {
                        ELEM[self.next() % ELEM.len()].to_string()
                    };
                    out.push_str(&format!("{}{}[{}] {};\n", indent, el, 1 + self.next() % 4, n));
                }
                9 | 11 | 12 => {
                    self.feats.insert("variable-array");
                    let cn = self.name("count");
                    let n = self.name("va");
                    let cty = ["u8", "u16", "u32"][self.next() % 3];
                    let el = if self.next() % 3 == 0 {
                        self.feats.insert("struct-array");
                        self.struct_def()
                    } else {
                        ELEM[self.next() % ELEM.len()].to_string()
                    };
                    out.push_str(&format!("{}{} {};\n", indent, cty, cn));
                    // other members may sit between the count and the array
                    if self.next() % 4 == 0 {
                        out.push_str(&self.plain(indent));
                    }
                    out.push_str(&format!("{}{}[{}] {};\n", indent, el, cn, n));
                }
                _ => out.push_str(&self.plain(indent)),
            }
        }
        // recorded finding (C01 login8 CMD_AUTH_LOGON_PROOF_Server, C07 case branch-with-only-constant-members):
        // a branch holding nothing but constants is neither read nor written
        if depth >= 1 && constants == count && !self.no_avoid {
            self.excluded.push("branch-with-only-constants");
            out.push_str(&self.plain(indent));
        }
        out
    }
}

pub fn letters(mut n: usize) -> String {
    let mut s = String::new();
    loop {
        s.insert(0, (b'a' + (n % 26) as u8) as char);
        n /= 26;
        if n == 0 {
            break;
        }
    }
    s
}

pub fn build_program(tape: &[u8], idx: usize) -> Program {
    let mut b = B { t: tape, p: 0, prefix: format!("v{}", letters(idx)), n: 0, aux: vec![], feats: BTreeSet::new(), no_avoid: std::env::var("VERIF_PROBE").is_ok(), excluded: vec![] };
    let count = 1 + b.next() % 5;
    let mut body = b.members(count, 0, "    ");
    let conditional = b.feats.contains("enum-if") || b.feats.contains("flag-if");
    // recorded finding: a message whose only member is an enum with conditional members makes the generator panic
    let top_level_fields = body.lines().filter(|l| l.starts_with("    ") && !l.starts_with("     ") && !l.trim_start().starts_with("if ") && !l.trim_start().starts_with('}') && !l.contains(" = ")).count();
    if conditional && top_level_fields <= 1 && !b.no_avoid {
        b.excluded.push("single-conditional-member");
        let lead = b.plain("    ");
        body = format!("{}{}", lead, body);
    }
    match b.next() % 8 {
        0 | 1 => {
            // recorded finding: the reader of an endless array does not count conditional members before it
            if conditional && !b.no_avoid {
                b.excluded.push("endless-array-after-conditional");
            } else {
                b.feats.insert("endless-array");
                let n = b.name("rest");
                let el = if b.next() % 4 == 0 {
                    b.feats.insert("struct-array");
                    b.struct_def()
                } else {
                    ELEM[b.next() % ELEM.len()].to_string()
                };
                body.push_str(&format!("    {}[-] {};\n", el, n));
            }
        }
        2 => {
            // recorded finding: an optional block after conditional members does not compile
            if conditional && !b.no_avoid {
                b.excluded.push("optional-after-conditional");
            } else {
                b.feats.insert("optional");
                let n = b.name("opt");
                let c = 1 + b.next() % 2;
                let inner = b.members(c, 2, "        ");
                body.push_str(&format!("    optional {} {{\n{}    }}\n", n, inner));
            }
        }
        _ => {}
    }
    Program { aux: b.aux, body, features: b.feats, excluded: b.excluded }
}
