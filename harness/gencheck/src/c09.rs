//! C09: the generator's minimum / maximum sizes bound every canonical encoding.
//! Oracle: the independent model's exact extremal analysis (every assignment of the definer
//! variables the conditionals test), compared with the IR's `sizes` and with the guard literal of
//! every generated `read_inner`; on the shipped corpus and on proptest-chosen valid mutants of it.
use crate::gentree::*;
use crate::mutate;
use crate::scratch::*;
use serde_json::{json, Value};
use std::collections::{BTreeMap, BTreeSet};
use vcommon::{Check, Tier};
use wowm_model::ast::*;
use wowm_model::resolve::*;
use wowm_model::sizes::*;

pub struct Failure {
    pub sig: String,
    pub object: String,
    pub what: String,
    pub detail: Value,
}

/// largest frame body a message of this kind can have (DESIGN.md 1.10)
fn frame_cap(kind: ContainerKind, ns: Ns) -> u128 {
    match kind {
        ContainerKind::Cmsg => 0x2800,
        ContainerKind::Smsg | ContainerKind::Msg => {
            if ns == Ns::World(Expansion::Wrath) {
                0x7F_FFFF - 2
            } else {
                0xFFFF - 2
            }
        }
        _ => 0xFF_FFFF,
    }
}

fn update_mask_max(ir: &Value, ns: Ns) -> Option<u128> {
    let key = match ns {
        Ns::World(e) => format!("{}_update_mask", e.name()),
        _ => return None,
    };
    let words = ir[&key].as_array()?.iter().map(|f| f["offset"].as_u64().unwrap_or(0) + f["size"].as_u64().unwrap_or(0)).max()? as u128;
    let blocks = (words + 31) / 32;
    Some(1 + 4 * blocks + 4 * words)
}

#[derive(Debug, Clone, Copy, PartialEq)]
pub enum Guard {
    None,
    Exact(u128),
    AtMost(u128),
    Range(u128, u128),
    Unknown,
}

impl Guard {
    fn accepts(&self, n: u128) -> bool {
        match *self {
            Guard::None => true,
            Guard::Exact(e) => n == e,
            Guard::AtMost(m) => n <= m,
            Guard::Range(a, b) => a <= n && n <= b,
            Guard::Unknown => true,
        }
    }
}

/// (expansion dir or shared suffix list, message name) -> guard of read_inner
pub fn scan_guards(root: &std::path::Path) -> BTreeMap<(Ns, String), (Guard, String)> {
    let mut out = BTreeMap::new();
    let base = root.join("wow_world_messages/src/world");
    for dir in ["vanilla", "tbc", "wrath", "shared"] {
        let Ok(rd) = std::fs::read_dir(base.join(dir)) else { continue };
        for e in rd.flatten() {
            let p = e.path();
            let stem = p.file_stem().map(|s| s.to_string_lossy().to_string()).unwrap_or_default();
            let Ok(text) = std::fs::read_to_string(&p) else { continue };
            let nss: Vec<Ns> = if dir == "shared" {
                let mut v = Vec::new();
                let mut rest = stem.as_str();
                loop {
                    let mut hit = false;
                    for ex in Expansion::ALL {
                        if let Some(r) = rest.strip_suffix(&format!("_{}", ex.name())) {
                            v.push(Ns::World(ex));
                            rest = r;
                            hit = true;
                        }
                    }
                    if !hit {
                        break;
                    }
                }
                v
            } else {
                Expansion::ALL.iter().filter(|e| e.name() == dir).map(|e| Ns::World(*e)).collect()
            };
            let lines: Vec<&str> = text.lines().collect();
            let mut current: Option<String> = None;
            for (i, l) in lines.iter().enumerate() {
                if let Some(r) = l.strip_prefix("impl crate::private::Sealed for ") {
                    current = Some(r.trim_end_matches(" {}").trim().to_string());
                }
                if l.contains("fn read_inner(") && l.contains("body_size: u32") {
                    let next = lines.get(i + 1).map(|s| s.trim()).unwrap_or("");
                    let num = |s: &str| s.trim().parse::<u128>().ok();
                    let g = if let Some(r) = next.strip_prefix("if body_size != ") {
                        r.strip_suffix(" {").and_then(num).map(Guard::Exact)
                    } else if let Some(r) = next.strip_prefix("if body_size > ") {
                        r.strip_suffix(" {").and_then(num).map(Guard::AtMost)
                    } else if let Some(r) = next.strip_prefix("if !(") {
                        // any Rust range literal: a..=b, a..b, ..=b, ..b, a..
                        r.strip_suffix(").contains(&body_size) {").and_then(|r| {
                            if let Some((a, b)) = r.split_once("..=") {
                                let lo = if a.trim().is_empty() { 0 } else { num(a)? };
                                Some(Guard::Range(lo, num(b)?))
                            } else if let Some((a, b)) = r.split_once("..") {
                                let lo = if a.trim().is_empty() { 0 } else { num(a)? };
                                let hi = if b.trim().is_empty() { u128::MAX } else { num(b)?.checked_sub(1)? };
                                Some(Guard::Range(lo, hi))
                            } else {
                                None
                            }
                        })
                    } else if next.starts_with("if ") && next.contains("body_size") {
                        // a size test in a form this scanner does not know: reported, not guessed
                        Some(Guard::Unknown)
                    } else {
                        Some(Guard::None)
                    };
                    if let (Some(name), Some(g)) = (current.clone(), g) {
                        let rel = p.strip_prefix(root).map(|x| x.to_string_lossy().to_string()).unwrap_or_default();
                        for ns in &nss {
                            out.insert((*ns, name.clone()), (g, format!("{}:{}", rel, i + 2)));
                        }
                    }
                }
            }
        }
    }
    out
}

pub struct SizeStats {
    pub containers: u64,
    pub assignments: u64,
    pub approximate: u64,
    pub guards: u64,
    pub classes: BTreeMap<String, u64>,
    pub distinct: BTreeSet<u64>,
    pub samples: Vec<Value>,
}

/// compares every container of the tree; `only` restricts to objects with these names
pub fn compare(t: &GenTree, only: Option<&BTreeSet<String>>, stats: &mut SizeStats) -> Vec<Failure> {
    let mut fails = Vec::new();
    let guards = scan_guards(&t.scratch.root);
    let mut sizers: BTreeMap<Ns, Sizer> = BTreeMap::new();
    for ns in Ns::all() {
        let mut s = Sizer::new(&t.u, ns);
        s.update_mask_max = update_mask_max(&t.ir, ns);
        sizers.insert(ns, s);
    }
    let mut seen_guard: BTreeSet<(Ns, String)> = BTreeSet::new();
    for o in ir_objects(&t.ir) {
        if o.kind != "structs" && o.kind != "messages" {
            continue;
        }
        if let Some(only) = only {
            if !only.contains(o.name()) {
                continue;
            }
        }
        let ir_min = o.v["sizes"]["minimum_size"].as_u64().unwrap_or(0) as u128;
        let ir_max = o.v["sizes"]["maximum_size"].as_u64().unwrap_or(0) as u128;
        let ir_const = o.v["sizes"]["constant_sized"].as_bool().unwrap_or(false);
        for ns in ir_namespaces(&o.v["tags"]) {
            let Some(oi) = t.u.lookup_idx(ns, o.name()) else {
                continue; // object sets are compared by C10
            };
            let Some(c) = t.u.objects[oi].container() else { continue };
            let sizer = sizers.get_mut(&ns).unwrap();
            let info = sizer.object_info(oi);
            stats.containers += 1;
            stats.assignments += info.assignments;
            if info.approximate {
                stats.approximate += 1;
            }
            let (tmin, tmax) = (info.interval.min, info.interval.max);
            let cap = frame_cap(c.kind, ns);
            let shape = format!("{}|{}|{}|{}", c.kind.keyword(), info.assignments.min(64), tmin == tmax, tmax == UNBOUNDED);
            stats.distinct.insert(vcommon::fnv(format!("{}|{}|{}", shape, tmin, tmax.min(1 << 40)).as_bytes()));
            *stats.classes.entry(format!("kind.{}", c.kind.keyword())).or_insert(0) += 1;
            *stats.classes.entry(if tmin == tmax { "true.constant" } else if tmax == UNBOUNDED { "true.unbounded" } else { "true.bounded-variable" }.to_string()).or_insert(0) += 1;
            if info.assignments > 1 {
                *stats.classes.entry("with-conditionals".into()).or_insert(0) += 1;
            }
            let label = format!("{}/{}", ns.text(), o.name());
            let detail = json!({"object": label, "ir_sizes": o.v["sizes"], "true_min": tmin.to_string(), "true_max": if tmax == UNBOUNDED { "unbounded".to_string() } else { tmax.to_string() }, "min_assignment": info.min_assign, "max_assignment": info.max_assign, "assignments_enumerated": info.assignments, "file": t.u.path_of(&t.u.objects[oi])});
            if stats.samples.len() < 12 && (info.assignments > 2 && stats.containers % 37 == 0 || stats.samples.is_empty()) {
                stats.samples.push(detail.clone());
            }
            // members that make the maximum depend on the frame only
            let mut fl = Vec::new();
            fn collect<'a>(m: &'a [Member], out: &mut Vec<&'a Field>) {
                for x in m {
                    match x {
                        Member::Field(f) => out.push(f),
                        Member::If(i) => {
                            for b in i.branches() {
                                collect(&b.body, out);
                            }
                            if let Some(e) = &i.else_body {
                                collect(e, out);
                            }
                        }
                        Member::Optional(o) => collect(&o.body, out),
                        _ => {}
                    }
                }
            }
            collect(&c.members, &mut fl);
            let has_endless = t.u.objects[oi].tags.is_true("compressed") || fl.iter().any(|f| f.tags.is_true("compressed") || matches!(&f.ty, TypeRef::Array { size: ArraySize::Endless, .. }));
            let wrath_endless = ns == Ns::World(Expansion::Wrath) && matches!(c.kind, ContainerKind::Smsg | ContainerKind::Msg) && has_endless && tmax == UNBOUNDED && ir_max >= 0xFFFF && ir_max < 0xFFFF + 4096;
            if ir_min > tmin && info.interval.min_achievable {
                fails.push(Failure { sig: format!("c09:{}:minimum-above-true-minimum", label), object: o.name().to_string(), what: format!("IR minimum_size {} but an encoding of {} bytes exists (assignment {:?})", ir_min, tmin, info.min_assign), detail: detail.clone() });
            }
            // the largest length a valid encoding can have: the true maximum, or what the frame (of a message) / the largest frame of the namespace (struct) allows
            let need_max = tmax.min(match c.kind {
                ContainerKind::Struct => match ns {
                    Ns::World(Expansion::Wrath) => 0x7F_FFFF - 2,
                    _ => 0xFFFF - 2,
                },
                k => frame_cap(k, ns),
            });
            // a capped enumeration still yields lengths that real assignments reach: a bound below them is wrong either way
            if ir_max < need_max {
                let kind = if wrath_endless { "wrath-endless-array-cap" } else { "maximum-below-true-maximum" };
                fails.push(Failure { sig: format!("c09:{}:{}", label, kind), object: o.name().to_string(), what: format!("IR maximum_size {} but an encoding of {} bytes exists (assignment {:?})", ir_max, if tmax == UNBOUNDED { format!("{} (frame limit)", need_max) } else { tmax.to_string() }, info.max_assign), detail: detail.clone() });
            }
            if ir_const && !(tmin == tmax && ir_min == tmin && ir_max == tmin) {
                fails.push(Failure { sig: format!("c09:{}:constant-sized-but-not", label), object: o.name().to_string(), what: format!("IR says constant_sized with {}..{} but the true interval is {}..{}", ir_min, ir_max, tmin, tmax), detail: detail.clone() });
            }
            if !ir_const && ir_min == ir_max && tmin != tmax {
                // not a violation of the statement: informational
                *stats.classes.entry("ir.min==max-not-flagged-constant".into()).or_insert(0) += 1;
            }
            if c.kind.is_world() {
                match guards.get(&(ns, o.name().to_string())) {
                    None => {
                        *stats.classes.entry("guard.not-found".into()).or_insert(0) += 1;
                    }
                    Some((g, at)) => {
                        stats.guards += 1;
                        seen_guard.insert((ns, o.name().to_string()));
                        *stats.classes.entry(match g {
                            Guard::None => "guard.none",
                            Guard::Exact(_) => "guard.exact",
                            Guard::AtMost(_) => "guard.at-most",
                            Guard::Range(..) => "guard.range",
                            Guard::Unknown => "guard.unknown-form",
                        }
                        .to_string())
                        .or_insert(0) += 1;
                        let hi = tmax.min(cap);
                        let mut d = detail.clone();
                        d["guard"] = json!(format!("{:?}", g));
                        d["guard_at"] = json!(at);
                        if tmin <= cap && !g.accepts(tmin) && info.interval.min_achievable {
                            fails.push(Failure { sig: format!("c09:{}:guard-rejects-minimum", label), object: o.name().to_string(), what: format!("{} has guard {:?} which rejects the valid body length {}", at, g, tmin), detail: d.clone() });
                        }
                        if hi >= tmin && !g.accepts(hi) && !wrath_endless {
                            fails.push(Failure { sig: format!("c09:{}:guard-rejects-maximum", label), object: o.name().to_string(), what: format!("{} has guard {:?} which rejects the valid body length {}", at, g, hi), detail: d.clone() });
                        }
                        // the compiled guard is the published interval
                        let expect = if ir_const {
                            Guard::Exact(ir_max)
                        } else {
                            let printed_cap: u128 = match c.kind {
                                ContainerKind::Cmsg => 10240,
                                _ => {
                                    if ir_namespaces(&o.v["tags"]).contains(&Ns::World(Expansion::Wrath)) {
                                        0xFF_FFFF
                                    } else {
                                        0xFFFF
                                    }
                                }
                            };
                            let mx = if ir_max >= u32::MAX as u128 { printed_cap } else { ir_max };
                            if ir_min == 0 {
                                Guard::AtMost(mx)
                            } else {
                                Guard::Range(ir_min, mx)
                            }
                        };
                        // a..=b and 0..=b / ..=b describe the same set as AtMost(b)
                        let norm = |g: Guard| match g {
                            Guard::Range(0, b) => Guard::AtMost(b),
                            x => x,
                        };
                        if *g == Guard::Unknown {
                            fails.push(Failure { sig: format!("c09:{}:guard-form-not-understood", label), object: o.name().to_string(), what: format!("{} tests body_size in a form that is none of `!=`, `>`, `!(range).contains`", at), detail: d.clone() });
                        }
                        if norm(*g) != norm(expect) && *g != Guard::None && *g != Guard::Unknown {
                            fails.push(Failure { sig: format!("c09:{}:guard-differs-from-ir", label), object: o.name().to_string(), what: format!("{} has guard {:?} but the IR sizes give {:?}", at, g, expect), detail: d });
                        }
                    }
                }
            }
        }
    }
    for s in sizers.values() {
        for p in s.problems.iter().take(3) {
            *stats.classes.entry(format!("model-problem.{}", p)).or_insert(0) += 1;
        }
    }
    fails
}

pub fn run(tier: Tier, replay: Option<String>) -> i32 {
    let mut c = Check::new("C09", tier);
    c.rule = "each (container, namespace) pair is one evaluation: the independent model enumerates every assignment of the definer variables its conditionals test (exact for enums, all subsets of the tested bits for flags) and derives the true minimum and maximum encoded length; the IR's sizes must enclose that interval, `constant_sized` must mean exactly one length, and the guard literal of the generated read_inner must accept both extremes (up to the frame limit) and equal the published interval. Non-trivial = container with at least one variable-sized or conditional member; distinct = (kind, shape, true interval). The same comparison runs on valid mutants of the corpus (inserted / retyped / reordered members, resized arrays, added optionals, changed conditions) chosen by the seed.".into();
    c.assume("string and array length limits of the canonical domain are those of DESIGN.md 1.10 (CString <= 255 content bytes, SizedCString <= 7,999, client frame body <= 0x2800)");
    let bin = match generator_binary() {
        Ok(b) => b,
        Err(e) => {
            eprintln!("C09: {}", e);
            return 2;
        }
    };
    let mut stats = SizeStats { containers: 0, assignments: 0, approximate: 0, guards: 0, classes: BTreeMap::new(), distinct: BTreeSet::new(), samples: vec![] };
    // shipped corpus
    let scratch = match Scratch::new() {
        Ok(s) => s,
        Err(e) => {
            eprintln!("C09: {}", e);
            return 2;
        }
    };
    let base = match GenTree::generate(scratch, &bin) {
        Ok(t) => t,
        Err((_, run)) => {
            eprintln!("C09: generator failed on the unmodified tree: {:?} {}", run.status, run.stderr.lines().take(5).collect::<Vec<_>>().join(" | "));
            return 2;
        }
    };
    let mut reported = BTreeSet::new();
    let base_fails = compare(&base, None, &mut stats);
    let base_sigs: BTreeSet<String> = base_fails.iter().map(|f| f.sig.clone()).collect();
    if replay.is_none() {
        for f in base_fails {
            if reported.insert(f.sig.clone()) {
                c.fail(&f.sig, &f.what, f.detail);
            }
        }
    }
    // mutants: the whole tree is compared again, failures already present without the edit are not the mutant's
    let batches = tier.pick(6usize, 240);
    let per_batch = tier.pick(60usize, 80);
    let outcome = mutate::run_batches(&base.u, &bin, c.seed, 0x0909, batches, per_batch, mutate::SIZE_KINDS, replay.as_deref(), |t, _batch| {
        let mut st = SizeStats { containers: 0, assignments: 0, approximate: 0, guards: 0, classes: BTreeMap::new(), distinct: BTreeSet::new(), samples: vec![] };
        let f = compare(t, None, &mut st);
        (f.into_iter().filter(|f| !base_sigs.contains(&f.sig)).map(|f| mutate::MutFailure { sig: f.sig, object: f.object, what: f.what, detail: f.detail }).collect(), json!({"containers": st.containers, "guards": st.guards, "distinct": st.distinct.iter().collect::<Vec<_>>()}))
    });
    for f in &outcome.failures {
        if reported.insert(f.sig.clone()) {
            c.fail(&f.sig, &f.what, f.detail.clone());
        }
    }
    for (k, v) in &outcome.classes {
        c.count_n(k, *v);
    }
    for s in outcome.per_batch.iter() {
        stats.containers += s["containers"].as_u64().unwrap_or(0);
        stats.guards += s["guards"].as_u64().unwrap_or(0);
        for d in s["distinct"].as_array().cloned().unwrap_or_default() {
            stats.distinct.insert(d.as_u64().unwrap_or(0) ^ 0x55);
        }
    }
    for w in &outcome.inconclusive {
        c.inconclusive(w);
    }
    c.evals(stats.containers);
    for d in &stats.distinct {
        c.nontrivial(*d);
    }
    for (k, v) in &stats.classes {
        c.count_n(k, *v);
    }
    c.extra.insert("definer_assignments_enumerated".into(), json!(stats.assignments));
    c.extra.insert("containers_with_capped_flag_enumeration".into(), json!(stats.approximate));
    c.extra.insert("guards_compared".into(), json!(stats.guards));
    c.extra.insert("mutants".into(), json!({"batches": outcome.batches_run, "mutations_applied": outcome.mutations_applied, "mutations_dropped_as_rejected": outcome.dropped}));
    for s in stats.samples {
        c.sample(s);
    }
    for s in outcome.samples {
        c.sample(s);
    }
    c.finish()
}
