//! C07: the generator compiles any valid wowm program to a codec implementing it.
//! Random well-formed message definitions (progs.rs, tape drawn by proptest) replace the bodies of
//! Vanilla messages in a scratch tree; the real generator must accept the tree, the generated crate
//! must compile, and a probe linked against it must accept every canonical encoding the independent
//! model derives from the SAME text (directed enumeration of every decision site + tapes) and
//! re-encode it byte-identically.
#[path = "../../codec_harness/src/gen.rs"]
mod gen;
use crate::gentree::*;
use crate::mutate::pinned_names;
use crate::progs::*;
use crate::scratch::*;
use gen::*;
use proptest::strategy::{Strategy, ValueTree};
use rayon::prelude::*;
use serde_json::{json, Value};
use std::collections::{BTreeMap, BTreeSet};
use std::path::{Path, PathBuf};
use std::process::Command;
use vcommon::{Check, Tier};
use wowm_model::ast::*;
use wowm_model::frame::*;
use wowm_model::resolve::*;

struct Host {
    name: String,
    path: String,
    /// byte range of the member list (between the braces) in the original file
    body: (usize, usize),
    versions: String,
}

fn hosts(u: &Universe) -> Vec<Host> {
    let pinned = pinned_names(u);
    let mut out = Vec::new();
    let mut files_used = BTreeSet::new();
    for o in &u.objects {
        let Some(c) = o.container() else { continue };
        if !matches!(c.kind, ContainerKind::Cmsg | ContainerKind::Smsg) {
            continue;
        }
        // Vanilla only, declared once, own tags, no tests, not referenced by hand-written code
        if !o.in_ns(Ns::World(Expansion::Vanilla)) || o.in_ns(Ns::World(Expansion::Tbc)) || o.in_ns(Ns::World(Expansion::Wrath)) || o.pasted.is_some() {
            continue;
        }
        if pinned.contains(&o.name) || o.name.starts_with("SMSG_ITEM_") || o.tags.is_true("compressed") || o.tags.is_true("unimplemented") {
            continue;
        }
        // the same name may be defined separately for other expansions; only one Vanilla definition
        if u.objects.iter().filter(|x| x.name == o.name && x.in_ns(Ns::World(Expansion::Vanilla))).count() != 1 {
            continue;
        }
        let f = &u.files[o.file];
        if f.commands.iter().any(|c| c.name == "tag_all") || !files_used.insert(o.file) {
            continue;
        }
        let text = &f.text;
        let Some(open) = text[c.name_span.end..c.span.end].find('{') else { continue };
        let open = c.name_span.end + open;
        // matching close brace
        let mut depth = 0i32;
        let mut close = None;
        for (i, ch) in text[open..c.span.end].char_indices() {
            match ch {
                '{' => depth += 1,
                '}' => {
                    depth -= 1;
                    if depth == 0 {
                        close = Some(open + i);
                        break;
                    }
                }
                _ => {}
            }
        }
        let Some(close) = close else { continue };
        if !text[close..c.span.end].contains("versions") {
            continue;
        }
        out.push(Host { name: o.name.clone(), path: f.path.clone(), body: (open + 1, close), versions: o.versions_text() });
    }
    out.sort_by(|a, b| a.name.cmp(&b.name));
    out
}

const PROBE_MAIN: &str = r#"
fn unhex(s: &str) -> Vec<u8> { (0..s.len() / 2).map(|i| u8::from_str_radix(&s[2 * i..2 * i + 2], 16).unwrap_or(0)).collect() }
fn hex(b: &[u8]) -> String { b.iter().map(|x| format!("{:02x}", x)).collect() }
fn one(dir: &str, bytes: &[u8]) -> String {
    let mut r = bytes;
    if dir == "server" {
        match wow_world_messages::vanilla::opcodes::ServerOpcodeMessage::read_unencrypted(&mut r) {
            Err(e) => format!("ERR consumed={} {:?}", bytes.len() - r.len(), e),
            Ok(m) => { let c = bytes.len() - r.len(); let mut v = Vec::new(); let w = m.write_unencrypted_server(&mut v); format!("OK consumed={} write={:?} rewritten={}", c, w.map_err(|e| e.kind()), hex(&v)) }
        }
    } else {
        match wow_world_messages::vanilla::opcodes::ClientOpcodeMessage::read_unencrypted(&mut r) {
            Err(e) => format!("ERR consumed={} {:?}", bytes.len() - r.len(), e),
            Ok(m) => { let c = bytes.len() - r.len(); let mut v = Vec::new(); let w = m.write_unencrypted_client(&mut v); format!("OK consumed={} write={:?} rewritten={}", c, w.map_err(|e| e.kind()), hex(&v)) }
        }
    }
}
fn real_main() {
    let path = std::env::args().nth(1).expect("frames file");
    let text = std::fs::read_to_string(&path).expect("read frames");
    std::panic::set_hook(Box::new(|_| {}));
    for line in text.lines() {
        let p: Vec<&str> = line.split_whitespace().collect();
        if p.len() < 3 { continue; }
        let bytes = unhex(p[2]);
        let dir = p[1].to_string();
        let out = std::panic::catch_unwind(move || one(&dir, &bytes)).unwrap_or_else(|_| "PANIC".to_string());
        println!("{} {}", p[0], out);
    }
}
fn main() {
    let t = std::thread::Builder::new().stack_size(256 << 20).spawn(real_main).expect("spawn");
    t.join().expect("probe thread");
}
"#;

struct BatchResult {
    programs: usize,
    frames: u64,
    failures: Vec<(String, String, Value)>,
    inconclusive: Vec<String>,
    feature_counts: BTreeMap<&'static str, u64>,
    excluded_counts: BTreeMap<&'static str, u64>,
    shapes: BTreeSet<u64>,
    samples: Vec<Value>,
}

/// top-level members of a definition body: a line at indent 4 starts a member, deeper lines and closing braces belong to it
fn top_level_chunks(body: &str) -> Vec<String> {
    let mut out: Vec<String> = Vec::new();
    for l in body.lines() {
        let starts = l.starts_with("    ") && !l.starts_with("     ") && !l.trim_start().starts_with('}');
        if starts || out.is_empty() {
            out.push(String::new());
        }
        let last = out.last_mut().unwrap();
        last.push_str(l);
        last.push('\n');
    }
    out
}

fn norm_msg(m: &str) -> String {
    // identifiers of the generated program are random: replace quoted names and numbers
    let mut out = String::new();
    let mut in_tick = false;
    for ch in m.chars() {
        if ch == '`' {
            in_tick = !in_tick;
            out.push('`');
            if in_tick {
                out.push('_');
            }
        } else if !in_tick {
            out.push(if ch.is_ascii_digit() { '#' } else { ch });
        }
    }
    out.split_whitespace().collect::<Vec<_>>().join("-").chars().filter(|c| c.is_ascii_alphanumeric() || "-_`#".contains(*c)).take(90).collect()
}

fn write_programs(scratch: &Scratch, placed: &[(&Host, Program, Vec<u8>)], active: &[bool]) -> Result<(), String> {
    scratch.sync_from_repo()?;
    for (i, (h, p, _)) in placed.iter().enumerate() {
        if !active[i] {
            continue;
        }
        let orig = std::fs::read_to_string(vcommon::repo_root().join(&h.path)).map_err(|e| e.to_string())?;
        let mut text = String::new();
        text.push_str(&orig[..h.body.0]);
        text.push('\n');
        text.push_str(&p.body);
        text.push_str(&orig[h.body.1..]);
        for a in &p.aux {
            text.push_str(&format!("\n\n{} {{\n    versions = \"{}\";\n}}\n", a, h.versions));
        }
        std::fs::write(scratch.path(&h.path), text).map_err(|e| e.to_string())?;
    }
    Ok(())
}

fn panic_site(stderr: &str) -> (String, Vec<String>) {
    let all: Vec<&str> = stderr.lines().filter(|l| !l.trim().is_empty() && !l.starts_with("Unable to open file")).collect();
    let start = all.iter().position(|l| l.contains("panicked at") || l.contains("WOWM ERROR")).unwrap_or(0);
    let head: Vec<String> = all.iter().skip(start).take(5).map(|s| s.to_string()).collect();
    let site = match all.get(start) {
        Some(l) if l.contains("panicked at") => l.split("panicked at ").nth(1).unwrap_or("").trim_end_matches(':').rsplitn(2, ':').last().unwrap_or("").replace("wow_message_parser/src/", "").to_string(),
        Some(l) if l.contains("WOWM ERROR") => norm_msg(l),
        _ => "unknown".to_string(),
    };
    (site, head)
}

pub struct Case {
    pub name: String,
    pub body: String,
    pub aux: Vec<String>,
}

fn run_batch(bin: &Path, base: &Universe, hs: &[Host], programs: &[(usize, Vec<u8>, Option<Case>)], slot: usize, runs_per_entry: usize, seed: u64) -> BatchResult {
    let mut res = BatchResult { programs: 0, frames: 0, failures: vec![], inconclusive: vec![], feature_counts: BTreeMap::new(), excluded_counts: BTreeMap::new(), shapes: BTreeSet::new(), samples: vec![] };
    let _ = base;
    let mut placed: Vec<(&Host, Program, Vec<u8>)> = Vec::new();
    let mut case_names: Vec<Option<String>> = Vec::new();
    for (k, (hi, tape, case)) in programs.iter().enumerate() {
        let p = match case {
            Some(c) => Program { aux: c.aux.clone(), body: c.body.clone(), features: BTreeSet::new(), excluded: vec![] },
            None => build_program(tape, k + slot * 1000),
        };
        case_names.push(case.as_ref().map(|c| c.name.clone()));
        for f in &p.features {
            *res.feature_counts.entry(f).or_insert(0) += 1;
        }
        for f in &p.excluded {
            *res.excluded_counts.entry(f).or_insert(0) += 1;
        }
        placed.push((&hs[*hi], p, tape.clone()));
    }
    res.programs = placed.len();
    let prog_json = |h: &Host, p: &Program, tape: &[u8]| json!({"host_message": h.name, "host_file": h.path, "tape": vcommon::hex(tape), "members": p.body, "definitions": p.aux, "features": p.features.iter().collect::<Vec<_>>()});
    let mut active = vec![true; placed.len()];
    let mut scratch = match Scratch::new() {
        Ok(s) => s,
        Err(e) => {
            res.inconclusive.push(e);
            return res;
        }
    };
    let tdir = vcommon::verif_root().join(format!("target/c07/t{}", slot));
    // programs that make the generator stop or the build fail are recorded and taken out, then the rest continues
    for _round in 0..10 {
        if !active.iter().any(|a| *a) {
            return res;
        }
        if let Err(e) = write_programs(&scratch, &placed, &active) {
            res.inconclusive.push(e);
            return res;
        }
        // 1. the generator accepts the tree
        let t = match GenTree::generate(scratch, bin) {
            Ok(t) => t,
            Err((s, run)) => {
                scratch = s;
                let (site, head) = panic_site(&run.stderr);
                let mut culprit = placed.iter().enumerate().position(|(i, (h, p, _))| active[i] && (run.stderr.contains(h.path.rsplit('/').next().unwrap_or("\u{0}")) || run.stderr.contains(&h.name) || p.aux.iter().any(|a| a.split_whitespace().nth(1).map(|n| run.stderr.contains(n)).unwrap_or(false))));
                if culprit.is_none() {
                    // bisect with generator runs only
                    let mut cand: Vec<usize> = (0..placed.len()).filter(|i| active[*i]).collect();
                    let mut budget = 14;
                    while cand.len() > 1 && budget > 0 {
                        budget -= 1;
                        let half: Vec<usize> = cand[..cand.len() / 2].to_vec();
                        let mut act = vec![false; placed.len()];
                        for i in &half {
                            act[*i] = true;
                        }
                        if write_programs(&scratch, &placed, &act).is_err() {
                            break;
                        }
                        let fails = scratch.run_generator(bin).status != Some(0);
                        cand = if fails { half } else { cand[cand.len() / 2..].to_vec() };
                    }
                    if cand.len() == 1 {
                        culprit = Some(cand[0]);
                    }
                }
                match culprit {
                    Some(i) => {
                        let (h, p, tape) = &placed[i];
                        let site = match &case_names[i] { Some(n) => format!("case:{}:{}", n, site), None => site };
                        res.failures.push((format!("c07:generator-stops:{}", site), format!("the generator stops (exit {:?}) on a well-formed definition placed in {}: {}", run.status, h.name, head.join(" | ")), prog_json(h, p, tape)));
                        active[i] = false;
                        continue;
                    }
                    None => {
                        res.failures.push((format!("c07:generator-stops:{}:unattributed", site), format!("the generator stops (exit {:?}) on a tree of well-formed definitions: {}", run.status, head.join(" | ")), json!({"programs": placed.iter().map(|(h, p, t)| prog_json(h, p, t)).collect::<Vec<_>>()})));
                        return res;
                    }
                }
            }
        };
        // 2. the generated crate compiles (with a probe using its public API)
        let pdir = t.scratch.path("verif_c07_probe");
        let _ = std::fs::create_dir_all(pdir.join("src"));
        let _ = std::fs::write(pdir.join("Cargo.toml"), "[package]\nname = \"c07_probe\"\nversion = \"0.1.0\"\nedition = \"2021\"\n\n[workspace]\n\n[dependencies]\nwow_world_messages = { path = \"../wow_world_messages\", default-features = false, features = [\"vanilla\", \"sync\"] }\n\n[profile.dev]\nopt-level = 0\ndebug = 0\nincremental = false\noverflow-checks = true\n");
        let _ = std::fs::write(pdir.join("src/main.rs"), PROBE_MAIN);
        let _ = std::fs::copy(vcommon::repo_root().join("Cargo.lock"), pdir.join("Cargo.lock"));
        let o = Command::new("cargo").arg("build").arg("--offline").arg("-q").arg("--manifest-path").arg(pdir.join("Cargo.toml")).env("CARGO_TARGET_DIR", &tdir).env("CARGO_NET_OFFLINE", "true").env("RUSTFLAGS", "-A warnings").env("CARGO_INCREMENTAL", "0").output();
        let o = match o {
            Ok(o) => o,
            Err(e) => {
                res.inconclusive.push(format!("cannot run cargo: {}", e));
                return res;
            }
        };
        if !o.status.success() {
            let err = String::from_utf8_lossy(&o.stderr).to_string();
            let ls: Vec<&str> = err.lines().collect();
            // every generated file with an error, and the first error in each
            let mut per_file: BTreeMap<String, String> = BTreeMap::new();
            for (i, l) in ls.iter().enumerate() {
                if l.starts_with("error") {
                    if let Some(loc) = ls[i..].iter().take(6).find(|x| x.trim_start().starts_with("-->")) {
                        let file = loc.trim().trim_start_matches("-->").trim().to_string();
                        per_file.entry(file).or_insert(l.to_string());
                    }
                }
            }
            let mut removed = false;
            for (file, first) in &per_file {
                let stem = file.rsplit('/').next().unwrap_or("").split('.').next().unwrap_or("").to_string();
                let hit = placed.iter().enumerate().position(|(i, (h, p, _))| active[i] && ((!stem.is_empty() && h.name.to_lowercase() == stem) || p.aux.iter().any(|a| a.split_whitespace().nth(1).map(|n| !stem.is_empty() && n.to_lowercase() == stem.replace('_', "")).unwrap_or(false))));
                let code = first.split(|c| c == '[' || c == ']').nth(1).unwrap_or("E").to_string();
                let msg = first.splitn(2, ": ").nth(1).unwrap_or(first);
                if let Some(i) = hit {
                    let (h, p, tape) = &placed[i];
                    let code = match &case_names[i] { Some(n) => format!("case:{}:{}", n, code), None => code };
                    res.failures.push((format!("c07:generated-code-does-not-compile:{}:{}", code, norm_msg(msg)), format!("the code generated for a well-formed definition (placed in {}) does not compile: {} at {}", h.name, first, file.replace(&t.scratch.root.to_string_lossy().to_string(), "")), prog_json(h, p, tape)));
                    active[i] = false;
                    removed = true;
                }
            }
            scratch = t.scratch;
            if removed {
                continue;
            }
            let first = per_file.iter().next().map(|(f, e)| format!("{} at {}", e, f)).unwrap_or_else(|| err.lines().find(|l| l.starts_with("error")).unwrap_or("").to_string());
            res.failures.push(("c07:generated-code-does-not-compile:unattributed".into(), format!("generated code does not compile: {}", first), json!({"programs": placed.iter().map(|(h, p, t)| prog_json(h, p, t)).collect::<Vec<_>>()})));
            return res;
        }
        // 3. codec behaviour on the model's encodings of the same text
        let es = entries(&t.u);
        let mut lines = String::new();
        let mut meta: Vec<(usize, Vec<u8>, String, Vec<u8>, BTreeMap<String, u32>)> = Vec::new();
        for (pi, (h, _p, _)) in placed.iter().enumerate() {
            if !active[pi] {
                continue;
            }
            for e in es.iter().filter(|e| e.name == h.name && e.ns == Ns::World(Expansion::Vanilla)) {
                let encf = |tape: &[u8], forced: &BTreeMap<String, u32>| encode(&t.u, e, tape, forced);
                let mut cases: Vec<(Vec<u8>, BTreeMap<String, u32>)> = Vec::new();
                let mut ds = DirectedStats::default();
                if let Ok(cs) = directed(&encf, &[], runs_per_entry, &mut ds) {
                    cases.extend(cs.into_iter().map(|c| (c.tape, c.forced)));
                }
                let mut runner = vcommon::runner(seed, vcommon::fnv(e.label().as_bytes()) ^ pi as u64, 1);
                for tape in proptest::collection::vec(tape_strategy(96), 6).new_tree(&mut runner).map(|t| t.current()).unwrap_or_default() {
                    cases.push((tape, BTreeMap::new()));
                }
                for (tape, forced) in cases {
                    let Ok(enc) = encode(&t.u, e, &tape, &forced) else { continue };
                    if enc.frame.len() > 30_000 {
                        continue;
                    }
                    res.shapes.insert(vcommon::fnv(format!("{}|{}", pi + slot * 1000, enc.shape()).as_bytes()));
                    lines.push_str(&format!("{} {} {}\n", meta.len(), e.dir.name(), vcommon::hex(&enc.frame)));
                    meta.push((pi, enc.frame.clone(), e.label(), tape, forced));
                }
            }
        }
        let frames_path = t.scratch.path("verif_c07_frames.txt");
        if std::fs::write(&frames_path, &lines).is_err() {
            res.inconclusive.push("cannot write frames".into());
            return res;
        }
        let out = match Command::new(tdir.join("debug/c07_probe")).arg(&frames_path).output() {
            Ok(o) if o.status.success() => String::from_utf8_lossy(&o.stdout).to_string(),
            Ok(o) => {
                res.inconclusive.push(format!("probe exited with {:?}: {}", o.status.code(), String::from_utf8_lossy(&o.stderr).lines().last().unwrap_or("")));
                return res;
            }
            Err(e) => {
                res.inconclusive.push(format!("cannot run probe: {}", e));
                return res;
            }
        };
        let mut reported: BTreeSet<(usize, String)> = BTreeSet::new();
        for l in out.lines() {
            let Some((id, rest)) = l.split_once(' ') else { continue };
            let Ok(id) = id.parse::<usize>() else { continue };
            let Some((pi, frame, label, tape, forced)) = meta.get(id) else { continue };
            res.frames += 1;
            let (h, p, ptape) = &placed[*pi];
            let kind: Option<(String, String)> = if rest == "PANIC" {
                Some(("codec-panics".into(), "the generated codec panics".into()))
            } else if let Some(e) = rest.strip_prefix("ERR ") {
                let class = e.split("kind: ").nth(1).unwrap_or(e).split(|c: char| !c.is_ascii_alphanumeric() && c != '_').next().unwrap_or("").to_string();
                Some((format!("canonical-encoding-rejected:{}", class), format!("rejected: {}", e.chars().take(200).collect::<String>())))
            } else {
                let consumed = rest.split("consumed=").nth(1).and_then(|s| s.split_whitespace().next()).and_then(|s| s.parse::<usize>().ok()).unwrap_or(0);
                let rew = rest.split("rewritten=").nth(1).unwrap_or("").trim();
                let wr = rest.split("write=").nth(1).and_then(|s| s.split_whitespace().next()).unwrap_or("");
                if consumed != frame.len() {
                    Some(("consumes-wrong-length".into(), format!("reads {} of {} bytes", consumed, frame.len())))
                } else if wr != "Ok(())" {
                    Some(("write-fails".into(), format!("write returns {}", wr)))
                } else if rew != vcommon::hex(frame) {
                    Some(("re-encoding-differs".into(), format!("re-encoding has {} bytes, the encoding {}", rew.len() / 2, frame.len())))
                } else {
                    None
                }
            };
            if let Some((k, what)) = kind {
                if reported.insert((*pi, k.clone())) {
                    let mut d = prog_json(h, p, ptape);
                    d["entry"] = json!(label);
                    d["frame"] = json!(vcommon::hex(frame));
                    d["encoder_tape"] = json!(vcommon::hex(tape));
                    d["forced"] = forced_json(forced);
                    let shape = match &case_names[*pi] { Some(n) => format!("case:{}", n), None => p.features.iter().cloned().collect::<Vec<_>>().join("+") };
                    d["case"] = json!(case_names[*pi]);
                    res.failures.push((format!("c07:{}:{}", k, shape), format!("definition placed in {}: {} for frame {}", h.name, what, vcommon::hex_short(frame)), d));
                }
            } else if res.samples.len() < 2 && id % 211 == 0 {
                res.samples.push(json!({"definition": p.body, "frame": vcommon::hex_short(frame), "features": p.features.iter().collect::<Vec<_>>()}));
            }
        }
        return res;
    }
    res.inconclusive.push("more than 10 defective definitions in one batch".into());
    res
}

pub fn run(tier: Tier, replay: Option<String>) -> i32 {
    let mut c = Check::new("C07", tier);
    c.rule = "one evaluation = one canonical encoding of one randomly generated message definition pushed through the freshly generated and compiled codec (read through the public opcode enum, write back): it must be accepted, consumed entirely and re-encoded byte-identically (header size included). Definitions are built from a proptest-drawn tape over the language features of the world corpus (built-in types, constants, enums / flags with if / else-if / else, ==, !=, ||, &, nesting, upcasts, structs, fixed / variable / endless arrays, optional tails); encodings come from the independent model's reading of the same text (directed enumeration of every decision site + tapes). Before that the generator must accept the tree (exit 0) and the generated crate must compile. Non-trivial = encoding of a definition with at least one conditional or array; distinct = (definition, control shape).".into();
    c.assume("flag else-if chains are not generated (recorded finding of C01: elseif-flag-size); definitions are placed in Vanilla messages that no hand-written code or test vector refers to");
    let bin = match generator_binary() {
        Ok(b) => b,
        Err(e) => {
            eprintln!("C07: {}", e);
            return 2;
        }
    };
    let u = match wowm_model::load_corpus(&vcommon::repo_root()) {
        Ok(u) => u,
        Err(e) => {
            eprintln!("C07: {}", e);
            return 2;
        }
    };
    let hs = hosts(&u);
    c.extra.insert("host_messages_available".into(), json!(hs.len()));
    if hs.len() < 10 {
        eprintln!("C07: only {} host messages", hs.len());
        return 2;
    }
    let seed = c.seed;
    let batches = tier.pick(6usize, 96);
    let per_batch = tier.pick(60usize, 80).min(hs.len());
    let mut plan: Vec<Vec<(usize, Vec<u8>, Option<Case>)>> = if let Some(p) = &replay {
        let j = vcommon::read_json(Path::new(p));
        // a replay file may carry the definition as text (hand-reduced reproductions)
        let case = if j["use_text"].as_bool() == Some(true) || j["tape"].as_str().map(|t| t.is_empty()).unwrap_or(true) {
            Some(Case { name: j["case"].as_str().unwrap_or("replayed").to_string(), body: j["members"].as_str().unwrap_or("").to_string(), aux: j["definitions"].as_array().cloned().unwrap_or_default().iter().filter_map(|x| x.as_str().map(|s| s.to_string())).collect() })
        } else {
            None
        };
        let name = j["host_message"].as_str().unwrap_or("");
        match hs.iter().position(|h| h.name == name) {
            Some(hi) => vec![vec![(hi, vcommon::unhex(j["tape"].as_str().unwrap_or("")), case)]],
            None => {
                eprintln!("host message of the replay not available");
                return 2;
            }
        }
    } else {
        let mut runner = vcommon::runner(seed, 0x0707, 1);
        let strat = proptest::collection::vec(proptest::collection::vec(proptest::collection::vec(proptest::prelude::any::<u8>(), 64), per_batch), batches);
        let draws = strat.new_tree(&mut runner).map(|t| t.current()).unwrap_or_default();
        draws.into_iter().enumerate().map(|(b, tapes)| tapes.into_iter().enumerate().map(|(k, t)| ((k + b * 7) % hs.len(), t, None)).collect::<Vec<_>>()).map(|v| {
            // one program per host
            let mut seen = BTreeSet::new();
            v.into_iter().filter(|(h, _, _)| seen.insert(*h)).collect()
        }).collect()
    };
    // directed cases: hand-reduced definitions, among them the reproductions of the recorded findings
    if replay.is_none() {
        let cases = vcommon::read_json(&vcommon::verif_root().join("genchecks/c07_cases.json"));
        let mut batch = Vec::new();
        let mut own: Vec<Vec<(usize, Vec<u8>, Option<Case>)>> = Vec::new();
        let mut hi = hs.len();
        for cj in cases.as_array().cloned().unwrap_or_default() {
            let aux: Vec<String> = cj["definitions"].as_array().cloned().unwrap_or_default().iter().filter_map(|x| x.as_str().map(|s| s.to_string())).collect();
            let name = cj["name"].as_str().unwrap_or("case").to_string();
            let mut items = Vec::new();
            hi -= 1;
            items.push((hi, vec![], Some(Case { name: name.clone(), body: cj["members"].as_str().unwrap_or("").to_string(), aux })));
            if let Some(m2) = cj["second_members"].as_str() {
                hi -= 1;
                items.push((hi, vec![], Some(Case { name, body: m2.to_string(), aux: vec![] })));
            }
            if cj["own_tree"].as_bool() == Some(true) {
                own.push(items);
            } else {
                batch.extend(items);
            }
        }
        c.extra.insert("directed_cases".into(), json!(batch.len() + own.len()));
        if std::env::var("VERIF_C07_ONLY_CASES").is_ok() {
            plan.clear();
        }
        plan.insert(0, batch);
        for o in own {
            plan.insert(0, o);
        }
    }
    let pool = rayon::ThreadPoolBuilder::new().num_threads(6).build().unwrap();
    let runs = tier.pick(60usize, 400);
    let results: Vec<BatchResult> = pool.install(|| plan.par_iter().map(|b| run_batch(&bin, &u, &hs, b, rayon::current_thread_index().unwrap_or(0), runs, seed)).collect());
    let mut reported = BTreeSet::new();
    let mut programs = 0;
    let mut reductions_left = 2;
    for r in results {
        programs += r.programs;
        c.evals(r.frames);
        for s in &r.shapes {
            c.nontrivial(*s);
        }
        for (k, v) in &r.feature_counts {
            c.count_n(&format!("programs-with.{}", k), *v);
        }
        for (k, v) in &r.excluded_counts {
            c.count_n(&format!("excluded-by-construction.{}", k), *v);
        }
        for w in &r.inconclusive {
            c.inconclusive(w);
        }
        for (sig, what, mut detail) in r.failures {
            if reported.insert(sig.clone()) {
                // shrink a random definition (not a directed case) by deleting top-level members while the
                // same failure remains; each attempt is a generator run + build, so only a few failures get it
                if detail["case"].is_null() && detail["members"].is_string() && reductions_left > 0 && !c.known.has("C07", &sig) {
                    reductions_left -= 1;
                    let host = detail["host_message"].as_str().unwrap_or("").to_string();
                    if let Some(hi) = hs.iter().position(|h| h.name == host) {
                        let aux: Vec<String> = detail["definitions"].as_array().cloned().unwrap_or_default().iter().filter_map(|x| x.as_str().map(|s| s.to_string())).collect();
                        let mut body = detail["members"].as_str().unwrap_or("").to_string();
                        let still_fails = |body: &str| -> bool {
                            let r = run_batch(&bin, &u, &hs, &[(hi, vec![], Some(Case { name: "reduction".into(), body: body.to_string(), aux: aux.clone() }))], 0, runs, seed);
                            r.failures.iter().any(|(s2, _, _)| s2.replace("case:reduction:", "").split(':').take(3).collect::<Vec<_>>() == sig.split(':').take(3).collect::<Vec<_>>())
                        };
                        let mut budget = 10;
                        let mut progress = true;
                        while progress && budget > 0 {
                            progress = false;
                            let chunks = top_level_chunks(&body);
                            for k in (0..chunks.len()).rev() {
                                if budget == 0 || chunks.len() <= 1 {
                                    break;
                                }
                                budget -= 1;
                                let cand: String = chunks.iter().enumerate().filter(|(i, _)| *i != k).map(|(_, s)| s.as_str()).collect();
                                if still_fails(&cand) {
                                    body = cand;
                                    progress = true;
                                    break;
                                }
                            }
                        }
                        detail["reduced_members"] = json!(body);
                        detail["replay_hint"] = json!("set use_text=true and members=reduced_members to replay the reduced definition");
                    }
                }
                c.fail(&sig, &what, detail);
            }
        }
        for s in r.samples {
            c.sample(s);
        }
    }
    c.extra.insert("programs_generated".into(), json!(programs));
    c.finish()
}
