//! C08: generated artefacts are a deterministic, reproducible function of the wowm.
use crate::scratch::*;
use proptest::prelude::*;
use rayon::prelude::*;
use serde_json::json;
use std::collections::{BTreeMap, BTreeSet};
use vcommon::{Check, Tier};

#[derive(Debug, Clone)]
pub enum Perturb {
    Delete(usize),
    Truncate(usize, usize),
    /// replace the content by that of another generated file of the same class
    Stale(usize, usize),
    /// add a plausible extra file next to this one
    Extra(usize),
    /// append garbage
    Append(usize),
}

/// class of a generated file by its path; None = not a fully generated artefact
pub fn class_of(path: &str) -> Option<&'static str> {
    if path.starts_with("wow_world_messages/src/world/") {
        return Some(if path.ends_with("/opcodes.rs") { "world-opcodes" } else if path.ends_with("/mod.rs") { "world-mod" } else { "world-module" });
    }
    if path.starts_with("wow_login_messages/src/logon/") {
        return Some(if path.ends_with("/opcodes.rs") { "login-opcodes" } else if path.ends_with("/mod.rs") { "login-mod" } else { "login-module" });
    }
    if path.starts_with("wow_world_base/src/inner/") {
        return Some(if path.ends_with("/mod.rs") { "base-mod" } else { "base-module" });
    }
    if path.starts_with("wow_world_messages/src/helper/") && (path.ends_with("/expected.rs") || path.ends_with("/opcode_to_name.rs") || path.ends_with("/update_mask/impls.rs") || path.ends_with("/update_mask/indices.rs")) {
        return Some("helper");
    }
    if path.starts_with("wowm_language/src/docs/") && path.ends_with(".md") {
        return Some("doc-page");
    }
    if path == "intermediate_representation.json" {
        return Some("ir");
    }
    if path.starts_with("wow_message_parser/tests/wireshark/") && path.ends_with(".txt") {
        return Some("wireshark");
    }
    None
}

fn apply(s: &Scratch, files: &[String], p: &Perturb) -> String {
    let f = |i: usize| &files[i % files.len()];
    match p {
        Perturb::Delete(i) => {
            let _ = std::fs::remove_file(s.path(f(*i)));
            format!("delete {}", f(*i))
        }
        Perturb::Truncate(i, k) => {
            let p = s.path(f(*i));
            if let Ok(b) = std::fs::read(&p) {
                let n = if b.is_empty() { 0 } else { k % b.len() };
                let _ = std::fs::write(&p, &b[..n]);
            }
            format!("truncate {} to {}", f(*i), k)
        }
        Perturb::Stale(i, j) => {
            let (a, b) = (f(*i), f(*j));
            // same class only, otherwise plain garbage
            let content = if class_of(a) == class_of(b) { std::fs::read(s.path(b)).unwrap_or_default() } else { b"// stale\n".to_vec() };
            let _ = std::fs::write(s.path(a), content);
            format!("stale {} <- {}", a, b)
        }
        Perturb::Extra(i) => {
            let a = f(*i);
            let p = s.path(a);
            let stem = p.file_stem().unwrap().to_string_lossy().to_string();
            let ext = p.extension().map(|e| e.to_string_lossy().to_string()).unwrap_or_default();
            let extra = p.with_file_name(format!("{}_verif_extra.{}", stem, ext));
            let _ = std::fs::copy(&p, &extra);
            format!("extra {}", extra.strip_prefix(&s.root).unwrap().display())
        }
        Perturb::Append(i) => {
            let p = s.path(f(*i));
            if let Ok(mut b) = std::fs::read(&p) {
                b.extend_from_slice(b"\n// appended by an interrupted run\n");
                let _ = std::fs::write(&p, b);
            }
            format!("append {}", f(*i))
        }
    }
}

fn summarize(d: &(Vec<String>, Vec<String>, Vec<String>)) -> String {
    let f = |v: &Vec<String>| v.iter().take(4).cloned().collect::<Vec<_>>().join(", ");
    format!("missing: [{}]{}; unexpected: [{}]{}; different: [{}]{}", f(&d.0), if d.0.len() > 4 { format!(" +{}", d.0.len() - 4) } else { String::new() }, f(&d.1), if d.1.len() > 4 { format!(" +{}", d.1.len() - 4) } else { String::new() }, f(&d.2), if d.2.len() > 4 { format!(" +{}", d.2.len() - 4) } else { String::new() })
}

/// one history on scratch `s`: Ok(()) = converged to `reference`
fn run_history(s: &Scratch, bin: &std::path::Path, files: &[String], reference: &BTreeMap<String, (u64, u64)>, perturbs: &[Perturb], runs: usize) -> Result<Vec<String>, (String, String)> {
    s.sync_from_repo().map_err(|e| ("infrastructure".to_string(), e))?;
    let applied: Vec<String> = perturbs.iter().map(|p| apply(s, files, p)).collect();
    for r in 0..runs {
        let g = s.run_generator(bin);
        if g.status != Some(0) {
            let first = g.stderr.lines().find(|l| l.contains("panicked") || l.contains("rror")).unwrap_or("").to_string();
            let classes: Vec<&str> = perturbs.iter().filter_map(|p| match p { Perturb::Delete(i) | Perturb::Truncate(i, _) | Perturb::Stale(i, _) | Perturb::Extra(i) | Perturb::Append(i) => class_of(&files[i % files.len()]) }).collect();
            return Err((format!("generator-fails:{}", classes.first().copied().unwrap_or("?")), format!("run {} exits with {:?}: {}", r + 1, g.status, first)));
        }
    }
    let snap = s.snapshot();
    let d = diff(reference, &snap);
    if d.0.is_empty() && d.1.is_empty() && d.2.is_empty() {
        Ok(applied)
    } else {
        let what = if !d.1.is_empty() { format!("leftover:{}", class_of(&d.1[0]).unwrap_or("other")) } else if !d.0.is_empty() { format!("not-recreated:{}", class_of(&d.0[0]).unwrap_or("other")) } else { format!("not-restored:{}", class_of(&d.2[0]).unwrap_or("other")) };
        Err((what, summarize(&d)))
    }
}

pub fn run(tier: Tier, _replay: Option<String>) -> i32 {
    let mut c = Check::new("C08", tier);
    let bin = match generator_binary() {
        Ok(b) => b,
        Err(e) => {
            eprintln!("C08: {}", e);
            return 2;
        }
    };
    c.rule = "histories over the file tree: start = copy of /repo's working tree with a proptest-chosen set of perturbations of fully generated files (delete, truncate, stale content of another file of the same class, extra look-alike file, appended garbage) over all artefact classes (world/login/base modules and mod.rs files, opcode tables, helper tables, doc pages, IR, Wireshark fragments), then 1..2 generator runs (fresh processes). Oracle: (1) a run from the pristine copy reproduces every file of /repo's working tree byte for byte (files that are 0-byte placeholders in this snapshot are compared against a second independent run instead); (2) a second run changes nothing; (3) every perturbed start converges to the same tree, extras removed; (4) two independent runs give identical trees; (5) a run that reaches the tree through a symbolic link and (6) a run on the tree moved below directories named like its own (src/wowm/.../wow_message_parser) give that same tree. Non-trivial = at least one perturbation; distinct = multiset of (class, perturbation kind).".into();
    c.assume("nondeterminism that needs a rare hash seed or thread interleaving is only sampled by the number of generator runs performed");
    // reference run
    let r = match Scratch::new() {
        Ok(s) => s,
        Err(e) => {
            eprintln!("C08: {}", e);
            return 2;
        }
    };
    let repo_snap = snapshot_dir(&vcommon::repo_root());
    let g = r.run_generator(&bin);
    c.eval();
    if g.status != Some(0) {
        c.fail("c08:pristine-run-fails", &format!("the generator exits with {:?} on the unchanged tree: {}", g.status, g.stderr.lines().rev().take(3).collect::<Vec<_>>().join(" | ")), json!({"stderr": g.stderr.chars().take(2000).collect::<String>()}));
        return c.finish();
    }
    let reference = r.snapshot();
    // (1) reproduces the committed tree
    let placeholders: Vec<String> = repo_snap.iter().filter(|(_, v)| v.1 == 0).map(|(k, _)| k.clone()).collect();
    let d = diff(&repo_snap, &reference);
    let drift: Vec<&String> = d.2.iter().filter(|p| !placeholders.contains(p)).collect();
    if !d.0.is_empty() || !d.1.is_empty() || !drift.is_empty() {
        let first = drift.first().map(|s| s.as_str()).or(d.0.first().map(|s| s.as_str())).or(d.1.first().map(|s| s.as_str())).unwrap_or("");
        c.fail(&format!("c08:drift:{}", class_of(first).unwrap_or("other")), &format!("regenerating does not reproduce the working tree: removed by the run [{}], created by the run [{}], rewritten differently [{}]", d.0.iter().take(5).cloned().collect::<Vec<_>>().join(", "), d.1.iter().take(5).cloned().collect::<Vec<_>>().join(", "), drift.iter().take(5).map(|s| s.to_string()).collect::<Vec<_>>().join(", ")), json!({"removed": d.0, "created": d.1, "different": drift}));
    }
    c.extra.insert("placeholder_files_compared_against_second_run".into(), json!(d.2.iter().filter(|p| placeholders.contains(p)).collect::<Vec<_>>()));
    // (2) idempotence
    let g2 = r.run_generator(&bin);
    c.eval();
    let after = r.snapshot();
    let d2 = diff(&reference, &after);
    if g2.status != Some(0) || !(d2.0.is_empty() && d2.1.is_empty() && d2.2.is_empty()) {
        c.fail("c08:second-run-changes-tree", &summarize(&d2), json!({"status": g2.status}));
    }
    // (4) determinism: an independent run
    let nind = tier.pick(1, 6);
    let inds: Vec<Result<(), String>> = (0..nind)
        .into_par_iter()
        .map(|_| {
            let s = Scratch::new()?;
            let g = s.run_generator(&bin);
            if g.status != Some(0) {
                return Err(format!("exit {:?}", g.status));
            }
            let d = diff(&reference, &s.snapshot());
            if d.0.is_empty() && d.1.is_empty() && d.2.is_empty() {
                Ok(())
            } else {
                Err(summarize(&d))
            }
        })
        .collect();
    for i in inds {
        c.eval();
        if let Err(m) = i {
            c.fail("c08:independent-runs-differ", &m, json!({}));
        }
    }
    // (5) the same tree reached through a symbolic link: the result must not depend on how the path is spelled
    {
        c.eval();
        c.nontrivial_str("symlinked-workspace");
        match Scratch::new() {
            Err(e) => c.inconclusive(&e),
            Ok(s) => {
                // one perturbation, so that the run has something to repair and to prune
                let victim = reference.keys().find(|k| class_of(k) == Some("world-module")).cloned();
                if let Some(v) = &victim {
                    let _ = std::fs::remove_file(s.path(v));
                }
                let link = std::env::temp_dir().join(format!("wm_verif_link_{}", std::process::id()));
                let _ = std::fs::remove_file(&link);
                if std::os::unix::fs::symlink(&s.root, &link).is_ok() {
                    let out = std::process::Command::new(&bin).env("WOWM_VERIF_WORKSPACE", &link).env("RUST_BACKTRACE", "0").current_dir(&link).output();
                    let _ = std::fs::remove_file(&link);
                    match out {
                        Ok(o) if o.status.code() == Some(0) => {
                            let d = diff(&reference, &s.snapshot());
                            if !(d.0.is_empty() && d.1.is_empty() && d.2.is_empty()) {
                                c.fail("c08:symlinked-workspace-differs", &format!("run through a symbolic link to the tree (one module deleted beforehand): {}", summarize(&d)), json!({"deleted": victim}));
                            }
                        }
                        Ok(o) => {
                            c.fail("c08:symlinked-workspace-run-fails", &format!("exit {:?} when the workspace is reached through a symbolic link: {}", o.status.code(), String::from_utf8_lossy(&o.stderr).lines().rev().take(3).collect::<Vec<_>>().join(" | ")), json!({}));
                        }
                        Err(e) => c.inconclusive(&e.to_string()),
                    }
                } else {
                    c.inconclusive("cannot create a symbolic link in the temp directory");
                }
            }
        }
    }
    // (6) the tree somewhere else: every directory above it named like a directory inside it (a clone into a directory
    // called `wow_message_parser`, a checkout below some `src/`): the result must not depend on where the tree lives
    {
        c.eval();
        c.nontrivial_str("relocated-workspace");
        match Scratch::new() {
            Err(e) => c.inconclusive(&e),
            Ok(s) => {
                let victim = reference.keys().find(|k| class_of(k) == Some("world-module")).cloned();
                if let Some(v) = &victim {
                    let _ = std::fs::remove_file(s.path(v));
                }
                let nest = std::env::temp_dir().join(format!("wm_verif_nest_{}", std::process::id()));
                let _ = std::fs::remove_dir_all(&nest);
                let deep = nest.join("src/wowm/wow_world_messages/wow_login_messages/wow_world_base/wowm_language/docs/tests/wow_message_parser");
                let moved = std::fs::create_dir_all(deep.parent().unwrap()).is_ok() && std::fs::rename(&s.root, &deep).is_ok();
                if moved {
                    let out = std::process::Command::new(&bin).env("WOWM_VERIF_WORKSPACE", &deep).env("RUST_BACKTRACE", "0").current_dir(&deep).output();
                    let snap = snapshot_dir(&deep);
                    let _ = std::fs::rename(&deep, &s.root);
                    let _ = std::fs::remove_dir_all(&nest);
                    match out {
                        Ok(o) if o.status.code() == Some(0) => {
                            let d = diff(&reference, &snap);
                            if !(d.0.is_empty() && d.1.is_empty() && d.2.is_empty()) {
                                c.fail("c08:relocated-workspace-differs", &format!("run on the same tree below directories named src/wowm/wow_world_messages/.../wow_message_parser (one module deleted beforehand): {}", summarize(&d)), json!({"deleted": victim, "location": "src/wowm/wow_world_messages/wow_login_messages/wow_world_base/wowm_language/docs/tests/wow_message_parser"}));
                            }
                        }
                        Ok(o) => {
                            c.fail("c08:relocated-workspace-run-fails", &format!("exit {:?} when the workspace lives below directories named like its own: {}", o.status.code(), String::from_utf8_lossy(&o.stderr).lines().rev().take(3).collect::<Vec<_>>().join(" | ")), json!({}));
                        }
                        Err(e) => c.inconclusive(&e.to_string()),
                    }
                } else {
                    let _ = std::fs::remove_dir_all(&nest);
                    c.inconclusive("cannot move the scratch tree inside the temp directory");
                }
            }
        }
    }
    // doc pages the generator does not write (pages of objects that no longer exist; recorded finding: the docs
    // directory is never pruned): a run on a tree whose doc pages were all deleted shows which ones it owns. The others
    // are no function of the wowm and are kept out of the perturbations (deleting one is, rightly, never repaired).
    let mut leftover_docs: BTreeSet<String> = BTreeSet::new();
    match Scratch::new() {
        Err(e) => c.inconclusive(&e),
        Ok(s) => {
            for k in reference.keys().filter(|k| class_of(k) == Some("doc-page")) {
                let _ = std::fs::remove_file(s.path(k));
            }
            let r = s.run_generator(&bin);
            if r.status == Some(0) {
                let snap = s.snapshot();
                leftover_docs = reference.keys().filter(|k| class_of(k) == Some("doc-page") && !snap.contains_key(*k)).cloned().collect();
            } else {
                c.inconclusive("generator run on a tree without doc pages failed");
            }
        }
    }
    c.extra.insert("doc_pages_the_generator_does_not_write__kept_out_of_the_perturbations".into(), json!(leftover_docs.len()));
    // generated files universe
    let files: Vec<String> = reference.keys().filter(|k| class_of(k).is_some() && !leftover_docs.contains(*k)).cloned().collect();
    let mut per_class: BTreeMap<&str, Vec<usize>> = BTreeMap::new();
    for (i, f) in files.iter().enumerate() {
        per_class.entry(class_of(f).unwrap()).or_default().push(i);
    }
    c.extra.insert("generated_files_by_class".into(), json!(per_class.iter().map(|(k, v)| (k.to_string(), v.len())).collect::<BTreeMap<_, _>>()));
    // (3) histories: drawn by proptest, executed in parallel scratch trees; a failing history is shrunk by removing perturbations
    let classes: Vec<&'static str> = per_class.keys().copied().collect();
    let ncl = classes.len();
    let pert = (0..ncl, any::<u32>(), 0u8..5, any::<u32>()).prop_map(move |(cl, pick, kind, aux)| (cl, pick as usize, kind, aux as usize));
    let strat = (prop::collection::vec(pert, 1..6), 1usize..3);
    let nhist = tier.pick(12u32, 300);
    let mut histories: Vec<(Vec<Perturb>, usize)> = Vec::new();
    // one history per class with a delete first (directed), then random ones
    for cl in &classes {
        let idxs = &per_class[cl];
        histories.push((vec![Perturb::Delete(idxs[idxs.len() / 2])], 1));
    }
    let extra_ok = |cl: &str| matches!(cl, "world-module" | "login-module" | "base-module" | "doc-page");
    for cl in &classes {
        let idxs = &per_class[cl];
        if extra_ok(cl) {
            histories.push((vec![Perturb::Extra(idxs[idxs.len() / 3]), Perturb::Truncate(idxs[0], 17)], 1));
        } else {
            histories.push((vec![Perturb::Append(idxs[idxs.len() / 3]), Perturb::Truncate(idxs[0], 17)], 1));
        }
    }
    let _ = vcommon::prop_search(c.seed, 8, nhist, &strat, |(ps, runs), counting| {
        if counting {
            let v: Vec<Perturb> = ps
                .iter()
                .map(|(cl, pick, kind, aux)| {
                    let idxs = &per_class[classes[*cl]];
                    let i = idxs[pick % idxs.len()];
                    match kind {
                        0 => Perturb::Delete(i),
                        1 => Perturb::Truncate(i, *aux),
                        2 => Perturb::Stale(i, idxs[aux % idxs.len()]),
                        // an extra look-alike file only where every file of the directory stands for a definition
                        3 if matches!(classes[*cl], "world-module" | "login-module" | "base-module" | "doc-page") => Perturb::Extra(i),
                        _ => Perturb::Append(i),
                    }
                })
                .collect();
            histories.push((v, *runs));
        }
        Ok(())
    });
    let nscratch = 8usize;
    let scratches: Vec<Scratch> = (0..nscratch).filter_map(|_| Scratch::new().ok()).collect();
    if scratches.is_empty() {
        return 2;
    }
    let results: Vec<(usize, Result<Vec<String>, (String, String)>)> = histories
        .par_chunks((histories.len() + scratches.len() - 1) / scratches.len())
        .zip(scratches.par_iter())
        .enumerate()
        .flat_map(|(ci, (chunk, s))| {
            let base = ci * ((histories.len() + nscratch - 1) / nscratch);
            chunk.iter().enumerate().map(|(k, (ps, runs))| (base + k, run_history(s, &bin, &files, &reference, ps, *runs))).collect::<Vec<_>>()
        })
        .collect();
    let mut reported = std::collections::BTreeSet::new();
    for (hi, res) in results {
        let (ps, runs) = &histories[hi];
        c.eval();
        let kinds: Vec<String> = ps.iter().map(|p| match p { Perturb::Delete(i) => format!("delete:{}", class_of(&files[*i]).unwrap()), Perturb::Truncate(i, _) => format!("truncate:{}", class_of(&files[*i]).unwrap()), Perturb::Stale(i, _) => format!("stale:{}", class_of(&files[*i]).unwrap()), Perturb::Extra(i) => format!("extra:{}", class_of(&files[*i]).unwrap()), Perturb::Append(i) => format!("append:{}", class_of(&files[*i]).unwrap()) }).collect();
        for k in &kinds {
            c.count(k);
        }
        let mut sorted = kinds.clone();
        sorted.sort();
        c.nontrivial(vcommon::fnv(format!("{:?}|{}", sorted, runs).as_bytes()));
        match res {
            Ok(applied) => {
                if c.samples.len() < 8 {
                    c.sample(json!({"perturbations": applied, "runs": runs, "result": "converged to the reference tree"}));
                }
            }
            Err((kind, detail)) => {
                if kind == "infrastructure" {
                    c.inconclusive(&detail);
                    continue;
                }
                // shrink: drop perturbations while the failure kind stays
                let mut cur = ps.clone();
                let s = &scratches[0];
                let mut k = 0;
                let mut budget = tier.pick(4, 40);
                while cur.len() > 1 && k < cur.len() && budget > 0 {
                    budget -= 1;
                    let mut t = cur.clone();
                    t.remove(k);
                    match run_history(s, &bin, &files, &reference, &t, *runs) {
                        Err((k2, _)) if k2 == kind => cur = t,
                        _ => k += 1,
                    }
                }
                let desc: Vec<String> = cur.iter().map(|p| format!("{:?} [{}]", p, match p { Perturb::Delete(i) | Perturb::Truncate(i, _) | Perturb::Stale(i, _) | Perturb::Extra(i) | Perturb::Append(i) => files[*i].clone() })).collect();
                let pk = match &cur[0] { Perturb::Delete(_) => "delete", Perturb::Truncate(..) => "truncate", Perturb::Stale(..) => "stale", Perturb::Extra(_) => "extra", Perturb::Append(_) => "append" };
                let sig = format!("c08:{}:after-{}", kind, pk);
                if reported.insert(sig.clone()) {
                    c.fail(&sig, &format!("{} after [{}], {} run(s)", detail, desc.join("; "), runs), json!({"perturbations": desc, "runs": runs}));
                }
            }
        }
    }
    c.finish()
}
