//! C16: ill-formed wowm is rejected with the specific diagnostic of the rule it breaks.
//! Fault injection into the real corpus: one minimal textual edit per case, located through the
//! independent model's syntax tree, then the real generator on a scratch tree.
use crate::scratch::*;
use rayon::prelude::*;
use serde_json::json;
use std::collections::{BTreeMap, BTreeSet};
use vcommon::{Check, Tier};
use wowm_model::ast::*;
use wowm_model::parser::parse_int;
use wowm_model::resolve::*;

#[derive(Debug, Clone)]
pub struct Injection {
    pub rule: &'static str,
    pub expect: i32,
    pub file: usize,
    /// (start, end, replacement) edits on the original text, non-overlapping
    pub edits: Vec<(usize, usize, String)>,
    pub object: String,
    pub site_class: &'static str,
    pub what: String,
}

fn is_builtin(t: &str) -> bool {
    matches!(
        t,
        "u8" | "u16" | "u32" | "u64" | "u48" | "i8" | "i16" | "i32" | "i64" | "f32" | "Bool" | "Bool32" | "PackedGuid" | "Guid" | "NamedGuid" | "DateTime" | "CString" | "SizedCString" | "String" | "UpdateMask" | "MonsterMoveSplines" | "AuraMask" | "AchievementDoneArray" | "AchievementInProgressArray" | "EnchantMask" | "InspectTalentGearMask" | "Gold" | "Population" | "Level" | "Level16" | "Level32" | "VariableItemRandomProperty" | "AddonArray" | "IpAddress" | "Seconds" | "Milliseconds" | "Spell" | "Spell16" | "Item" | "CacheMask"
    )
}

fn fields_of<'a>(members: &'a [Member], ctx: &'static str, out: &mut Vec<(&'a Field, &'static str)>) {
    for m in members {
        match m {
            Member::Field(f) => out.push((f, ctx)),
            Member::If(i) => {
                fields_of(&i.first.body, "inside-if", out);
                for b in &i.else_ifs {
                    fields_of(&b.body, "inside-else-if", out);
                }
                if let Some(e) = &i.else_body {
                    fields_of(e, "inside-else", out);
                }
            }
            Member::Optional(o) => fields_of(&o.body, "inside-optional", out),
            Member::Unimplemented => {}
        }
    }
}

fn ifs_of<'a>(members: &'a [Member], out: &mut Vec<&'a IfStmt>) {
    for m in members {
        match m {
            Member::If(i) => {
                out.push(i);
                for b in i.branches() {
                    ifs_of(&b.body, out);
                }
                if let Some(e) = &i.else_body {
                    ifs_of(e, out);
                }
            }
            Member::Optional(o) => ifs_of(&o.body, out),
            _ => {}
        }
    }
}

fn find_field<'a>(members: &'a [Member], name: &str) -> Option<&'a Field> {
    let mut v = Vec::new();
    fields_of(members, "", &mut v);
    v.into_iter().map(|x| x.0).find(|f| f.name == name)
}

/// definer kind of a type name as seen by object `o`
fn definer_of<'a>(u: &'a Universe, o: &Object, ty: &str) -> Option<&'a Definer> {
    // the same kind and base type in every namespace the object lives in, otherwise the site is ambiguous
    let mut found: Option<&'a Definer> = None;
    for ns in Ns::all() {
        // pasted copies of one source item share its text
        if u.objects.iter().any(|x| x.file == o.file && x.item == o.item && x.in_ns(ns)) {
            let d = u.lookup(ns, ty).and_then(|x| x.definer())?;
            if let Some(f) = found {
                if f.kind != d.kind || f.base != d.base {
                    return None;
                }
            }
            found = Some(d);
        }
    }
    found
}

fn file_class(u: &Universe, o: &Object) -> &'static str {
    let f = &u.files[o.file];
    if o.tags.has("paste_versions") {
        "paste_versions-object"
    } else if f.commands.iter().any(|c| c.name == "tag_all") {
        "file-with-tag_all"
    } else {
        "own-tags"
    }
}

/// all candidate injections over the corpus
pub fn candidates(u: &Universe) -> Vec<Injection> {
    let mut out = Vec::new();
    let mut seen_objects: BTreeSet<(usize, usize)> = BTreeSet::new();
    // how many messages use a struct (for the site class)
    for (oi, o) in u.objects.iter().enumerate() {
        let _ = oi;
        if !seen_objects.insert((o.file, o.item)) {
            continue; // pasted copies share their text
        }
        let text = &u.files[o.file].text;
        let fclass = file_class(u, o);
        let has_tests = u.tests.iter().any(|t| t.case.subject == o.name);
        match &o.def {
            Def::Container(c) => {
                let mut fs = Vec::new();
                fields_of(&c.members, "top-level", &mut fs);
                let cls = |ctx: &'static str| if ctx == "top-level" { if c.kind == ContainerKind::Struct { "struct-member" } else { fclass } } else { ctx };
                // rule: unknown type
                for (f, ctx) in &fs {
                    let tyname = match &f.ty {
                        TypeRef::Simple { name, .. } => name,
                        TypeRef::Array { inner, .. } => inner,
                    };
                    if let TypeRef::Simple { name, upcast: None } = &f.ty {
                        if matches!(name.as_str(), "u8" | "u16" | "u32") && f.value.is_none() {
                            out.push(Injection { rule: "unsupported-upcast", expect: 14, file: o.file, edits: vec![(f.ty_span.start, f.ty_span.start, "(u64)".into())], object: c.name.clone(), site_class: cls(ctx), what: format!("(u64) upcast of the built-in {} member {}.{}", name, c.name, f.name) });
                        }
                    }
                    if is_builtin(tyname) {
                        continue;
                    }
                    let span_text = &text[f.ty_span.start..f.ty_span.end];
                    if let Some(p) = span_text.rfind(tyname.as_str()) {
                        let s = f.ty_span.start + p;
                        out.push(Injection { rule: "unknown-type", expect: 1, file: o.file, edits: vec![(s, s + tyname.len(), "VerifUnknownTy".into())], object: c.name.clone(), site_class: cls(ctx), what: format!("type of {}.{} renamed", c.name, f.name) });
                    }
                    // upcasts on enum-typed members
                    if let TypeRef::Simple { name, upcast: None } = &f.ty {
                        if let Some(d) = definer_of(u, o, name) {
                            if d.kind == DefinerKind::Enum && f.value.is_none() {
                                let same = d.base.clone();
                                out.push(Injection { rule: "upcast-to-same-type", expect: 20, file: o.file, edits: vec![(f.ty_span.start, f.ty_span.start, format!("({})", same))], object: c.name.clone(), site_class: cls(ctx), what: format!("({}) upcast of {}.{} whose enum already is {}", same, c.name, f.name, same) });
                                let smaller = match d.base.as_str() {
                                    "u32" | "u64" | "i32" => Some("u8"),
                                    "u16" => Some("u8"),
                                    _ => None,
                                };
                                if let Some(sm) = smaller {
                                    out.push(Injection { rule: "upcast-to-smaller-type", expect: 14, file: o.file, edits: vec![(f.ty_span.start, f.ty_span.start, format!("({})", sm))], object: c.name.clone(), site_class: cls(ctx), what: format!("({}) 'upcast' of {}.{} whose enum is {}", sm, c.name, f.name, d.base) });
                                }
                            }
                        }
                    }
                }
                // rule: recursive type
                if c.kind == ContainerKind::Struct {
                    if let Some(b) = text[c.name_span.end..c.span.end].find('{') {
                        let p = c.name_span.end + b + 1;
                        out.push(Injection { rule: "recursive-type", expect: 2, file: o.file, edits: vec![(p, p, format!("\n    {} verif_recursive;", c.name))], object: c.name.clone(), site_class: "struct-member", what: format!("struct {} contains itself", c.name) });
                    }
                }
                // if statements
                let mut ifs = Vec::new();
                ifs_of(&c.members, &mut ifs);
                for i in &ifs {
                    let var = i.var();
                    let Some(vf) = find_field(&c.members, var) else { continue };
                    let TypeRef::Simple { name: vty, .. } = &vf.ty else { continue };
                    let Some(d) = definer_of(u, o, vty) else { continue };
                    let branches: Vec<(&Branch, &'static str)> = std::iter::once((&i.first, "inside-if")).chain(i.else_ifs.iter().map(|b| (b, "inside-else-if"))).collect();
                    for (b, ctx) in &branches {
                        let cnd = &b.conds[0];
                        out.push(Injection { rule: "missing-enumerator", expect: 3, file: o.file, edits: vec![(cnd.value_span.start, cnd.value_span.end, "VERIF_MISSING_ENUMERATOR".into())], object: c.name.clone(), site_class: ctx, what: format!("condition on {} of {} names a missing enumerator", var, c.name) });
                        if d.kind == DefinerKind::Enum && b.conds.iter().all(|x| x.op == CondOp::Eq) {
                            out.push(Injection { rule: "bitand-on-enum", expect: 4, file: o.file, edits: b.conds.iter().map(|x| (x.op_span.start, x.op_span.end, "&".to_string())).collect(), object: c.name.clone(), site_class: ctx, what: format!("'&' on enum variable {} of {}", var, c.name) });
                        }
                        if d.kind == DefinerKind::Flag && b.conds.iter().all(|x| x.op == CondOp::And) {
                            out.push(Injection { rule: "equals-on-flag", expect: 5, file: o.file, edits: b.conds.iter().map(|x| (x.op_span.start, x.op_span.end, "==".to_string())).collect(), object: c.name.clone(), site_class: ctx, what: format!("'==' on flag variable {} of {}", var, c.name) });
                            if b.conds.len() == 1 && i.else_ifs.is_empty() {
                                out.push(Injection { rule: "not-equals-on-flag", expect: 5, file: o.file, edits: vec![(cnd.op_span.start, cnd.op_span.end, "!=".into())], object: c.name.clone(), site_class: ctx, what: format!("'!=' on flag variable {} of {}", var, c.name) });
                            }
                        }
                        if b.conds.len() >= 2 {
                            // another declared variable of a definer type
                            let c2 = &b.conds[1];
                            let mut all = Vec::new();
                            fields_of(&c.members, "", &mut all);
                            if let Some((other, _)) = all.iter().find(|(f, _)| f.name != var && matches!(&f.ty, TypeRef::Simple { name, .. } if definer_of(u, o, name).is_some()) && f.span.start < i.span.start) {
                                out.push(Injection { rule: "mismatched-if-variables", expect: 13, file: o.file, edits: vec![(c2.var_span.start, c2.var_span.end, other.name.clone())], object: c.name.clone(), site_class: ctx, what: format!("second condition of an if of {} tests {} instead of {}", c.name, other.name, var) });
                            }
                        }
                        // duplicate field name across branches
                        if let Some(first) = fs.first() {
                            if let Some(br) = text[b.conds.last().unwrap().span.end..i.span.end].find('{') {
                                let p = b.conds.last().unwrap().span.end + br + 1;
                                out.push(Injection { rule: "duplicate-field-name", expect: 17, file: o.file, edits: vec![(p, p, format!("\n        u8 {};", first.0.name))], object: c.name.clone(), site_class: ctx, what: format!("branch of {} redeclares {}", c.name, first.0.name) });
                            }
                        }
                    }
                }
                // self.size misplaced: login messages, appended after a variable-sized last member / an if / an optional
                if c.kind.is_login() {
                    if let Some(last) = c.members.last() {
                        let (end, variable, ctx): (usize, bool, &'static str) = match last {
                            Member::Field(f) => (f.span.end, matches!(&f.ty, TypeRef::Simple { name, .. } if name == "CString" || name == "String") || matches!(&f.ty, TypeRef::Array { size: ArraySize::Variable(_) | ArraySize::Endless, .. }), "after-variable-member"),
                            Member::If(i) => (i.span.end, true, "after-if"),
                            Member::Optional(op) => (op.span.end, true, "after-optional"),
                            Member::Unimplemented => (0, false, ""),
                        };
                        if variable && !fs.iter().any(|(f, _)| f.value.as_deref() == Some("self.size")) {
                            out.push(Injection { rule: "misplaced-self-size", expect: 9, file: o.file, edits: vec![(end, end, "\n    u16 verif_size = self.size;".into())], object: c.name.clone(), site_class: ctx, what: format!("self.size appended at the end of {}", c.name) });
                        }
                    }
                }
                // opcode index (world messages without test blocks, so that nothing else refers to the name)
                // ... and only definitions that cover 1.12, 2.4.3 or 3.3.5: the index exists for those three versions, a
                // definition for 1.1 - 1.11 alone is (rightly) not looked up in any
                let indexed_version = [Expansion::Vanilla, Expansion::Tbc, Expansion::Wrath].iter().any(|e| o.in_ns(Ns::World(*e)));
                if c.kind.is_world() && !has_tests && indexed_version {
                    if let (Some(os), Some(opv)) = (c.opcode_span, c.opcode_text.as_deref().and_then(parse_int)) {
                        out.push(Injection { rule: "opcode-differs-from-index", expect: 7, file: o.file, edits: vec![(os.start, os.end, format!("{:#06X}", (opv + 0x3000) & 0xFFFF).replace("0X", "0x"))], object: c.name.clone(), site_class: fclass, what: format!("opcode of {} changed", c.name) });
                        out.push(Injection { rule: "name-differs-from-index", expect: 19, file: o.file, edits: vec![(c.name_span.start, c.name_span.end, format!("{}_VERIF", c.name))], object: c.name.clone(), site_class: fclass, what: format!("{} renamed, opcode kept", c.name) });
                        out.push(Injection { rule: "message-not-in-index", expect: 18, file: o.file, edits: vec![(c.name_span.start, c.name_span.end, format!("{}_VERIF", c.name)), (os.start, os.end, "0xFFF1".into())], object: c.name.clone(), site_class: fclass, what: format!("{} renamed and given an unused opcode", c.name) });
                    }
                }
            }
            Def::Definer(d) => {
                if d.members.len() >= 2 && d.kind == DefinerKind::Enum {
                    let m1 = &d.members[1];
                    let t = &text[m1.span.start..m1.span.end];
                    if let Some(eq) = t.find('=') {
                        let vs = m1.span.start + eq + 1;
                        let ve = m1.span.start + t[eq..].find(|ch| ch == ';' || ch == '{').map(|x| x + eq).unwrap_or(t.len());
                        let bits: u32 = match d.base.as_str() {
                            "u8" | "i8" => 8,
                            "u16" | "i16" => 16,
                            "u32" | "i32" => 32,
                            _ => 64,
                        };
                        // the same number written differently (decimal <-> hexadecimal, padded)
                        if let Some(v0) = parse_int(&d.members[0].value_text) {
                            if v0 >= 0 {
                                let t0 = d.members[0].value_text.trim().to_string();
                                let other = if t0.starts_with("0x") || t0.starts_with("0X") { v0.to_string() } else { format!("{:#04x}", v0) };
                                let other = if other == t0 { format!("0x{:08X}", v0) } else { other };
                                out.push(Injection { rule: "duplicate-enumerator-value-other-spelling", expect: 11, file: o.file, edits: vec![(vs, ve, format!(" {}", other))], object: d.name.clone(), site_class: fclass, what: format!("{}::{} = {} which equals {} = {}", d.name, m1.name, other, d.members[0].name, t0) });
                            }
                        }
                        out.push(Injection { rule: "duplicate-enumerator-value", expect: 11, file: o.file, edits: vec![(vs, ve, format!(" {}", d.members[0].value_text))], object: d.name.clone(), site_class: fclass, what: format!("{}::{} given the value of {}", d.name, m1.name, d.members[0].name) });
                        if bits < 64 && d.base.starts_with('u') {
                            out.push(Injection { rule: "enumerator-value-2^bits", expect: 22, file: o.file, edits: vec![(vs, ve, format!(" {}", 1u128 << bits))], object: d.name.clone(), site_class: fclass, what: format!("{}::{} = 2^{} for base {}", d.name, m1.name, bits, d.base) });
                            out.push(Injection { rule: "enumerator-value-above-range", expect: 22, file: o.file, edits: vec![(vs, ve, format!(" {}", (1u128 << bits) + 1))], object: d.name.clone(), site_class: fclass, what: format!("{}::{} = 2^{}+1 for base {}", d.name, m1.name, bits, d.base) });
                            out.push(Injection { rule: "enumerator-value-negative", expect: 22, file: o.file, edits: vec![(vs, ve, " -1".into())], object: d.name.clone(), site_class: fclass, what: format!("{}::{} = -1 for unsigned base {}", d.name, m1.name, d.base) });
                        }
                        out.push(Injection { rule: "enumerator-value-unparsable", expect: 10, file: o.file, edits: vec![(vs, ve, " VERIF_NOT_A_NUMBER".into())], object: d.name.clone(), site_class: fclass, what: format!("{}::{} = VERIF_NOT_A_NUMBER", d.name, m1.name) });
                    }
                }
                // (u48 has no signed counterpart in the language: `i48` is not a type at all, that is another rule)
                if d.kind == DefinerKind::Flag && !d.base.starts_with('i') && d.base != "u48" {
                    let signed = format!("i{}", &d.base[1..]);
                    out.push(Injection { rule: "flag-with-signed-type", expect: 21, file: o.file, edits: vec![(d.base_span.start, d.base_span.end, signed.clone())], object: d.name.clone(), site_class: fclass, what: format!("flag {} : {}", d.name, signed) });
                }
                out.push(Injection { rule: "invalid-base-type", expect: 12, file: o.file, edits: vec![(d.base_span.start, d.base_span.end, "f32".into())], object: d.name.clone(), site_class: fclass, what: format!("{} : f32", d.name) });
            }
        }
        // version rules: objects with their own version tag in a file without tag_all
        let (name, span_end, span_start) = match &o.def {
            Def::Container(c) => (c.name.clone(), c.span.end, c.span.start),
            Def::Definer(d) => (d.name.clone(), d.span.end, d.span.start),
        };
        let obj_text = &text[span_start..span_end];
        if let Some(tb) = obj_text.rfind('{') {
            let tags_text = &obj_text[tb..];
            for key in ["versions", "login_versions"] {
                let needle = format!("{} = \"", key);
                if let Some(k) = tags_text.find(&needle) {
                    if tags_text[..k].ends_with("paste_") || tags_text[..k].ends_with("login_") && key == "versions" {
                        continue;
                    }
                    let ks = span_start + tb + k;
                    let Some(semi) = text[ks..span_end].find(';') else { continue };
                    let ke = ks + semi + 1;
                    let value_start = ks + needle.len();
                    let value_end = ks + text[ks..ke].rfind('"').unwrap_or(semi);
                    let value = text[value_start..value_end].to_string();
                    let has_tag_all = u.files[o.file].commands.iter().any(|c| c.name == "tag_all" && (c.key == "versions" || c.key == "login_versions" || c.key == "paste_versions"));
                    if !has_tag_all && !o.tags.has("paste_versions") {
                        out.push(Injection { rule: "no-versions", expect: 6, file: o.file, edits: vec![(ks, ke, "comment = \"verif\";".into())], object: name.clone(), site_class: "own-tags", what: format!("{} tag of {} replaced by a comment tag", key, name) });
                    }
                    // a type that no longer exists for ONE of the versions its users need
                    let toks: Vec<&str> = value.split_whitespace().collect();
                    if toks.len() >= 2 && !has_tag_all {
                        let ns_of = |tok: &str| -> Vec<Ns> {
                            if key == "versions" {
                                match WorldVersion::parse(tok) {
                                    Some(w) => Expansion::ALL.iter().filter(|e| w.covers(&e.version())).map(|e| Ns::World(*e)).collect(),
                                    None => vec![],
                                }
                            } else if tok == "*" {
                                LOGIN_VERSIONS.iter().map(|l| Ns::Login(*l)).collect()
                            } else {
                                tok.parse::<u8>().ok().map(|l| vec![Ns::Login(l)]).unwrap_or_default()
                            }
                        };
                        for k in 0..toks.len() {
                            let rest: Vec<Ns> = toks.iter().enumerate().filter(|(i, _)| *i != k).flat_map(|(_, t)| ns_of(t)).collect();
                            let lost: Vec<Ns> = ns_of(toks[k]).into_iter().filter(|n| !rest.contains(n)).collect();
                            let user = lost.iter().find_map(|ns| {
                                let me = u.lookup_idx(*ns, &name)?;
                                if u.objects[me].file != o.file || u.objects[me].item != o.item {
                                    return None;
                                }
                                u.objects.iter().find(|x| x.in_ns(*ns) && x.container().map(|c| { let mut v = Vec::new(); fields_of(&c.members, "", &mut v); v.iter().any(|(f, _)| matches!(&f.ty, TypeRef::Simple { name: n, .. } | TypeRef::Array { inner: n, .. } if *n == name)) }).unwrap_or(false)).map(|x| (x.name.clone(), ns.text()))
                            });
                            if let Some((user, nst)) = user {
                                let newv: Vec<&str> = toks.iter().enumerate().filter(|(i, _)| *i != k).map(|(_, t)| *t).collect();
                                out.push(Injection { rule: "type-missing-for-one-version", expect: 1, file: o.file, edits: vec![(value_start, value_end, newv.join(" "))], object: name.clone(), site_class: if k == 0 { "first-version-dropped" } else { "later-version-dropped" }, what: format!("{} no longer has version {} which its user {} needs ({})", name, toks[k], user, nst) });
                            }
                        }
                    }
                    if key == "versions" && !has_tag_all {
                        // a less specific and a more specific version of the same line in one tag
                        let first = value.split_whitespace().next().unwrap_or("1");
                        let extra = if first.contains('.') { first.split('.').next().unwrap_or("1").to_string() } else if first == "*" { String::new() } else { format!("{}.12", first) };
                        if !extra.is_empty() && !value.split_whitespace().any(|t| t == extra) {
                            out.push(Injection { rule: "version-tags-overlap", expect: 23, file: o.file, edits: vec![(value_start, value_end, format!("{} {}", value, extra))], object: name.clone(), site_class: fclass, what: format!("{} tagged with versions \"{} {}\" which overlap", name, value, extra) });
                        }
                    }
                    if key == "versions" {
                        out.push(Injection { rule: "both-version-kinds", expect: 16, file: o.file, edits: vec![(ke, ke, " login_versions = \"2\";".into())], object: name.clone(), site_class: fclass, what: format!("{} given login_versions as well", name) });
                        // an overlapping copy of the object at another specificity
                        let first = value.split_whitespace().next().unwrap_or("1");
                        let other = if first.contains('.') { first.split('.').next().unwrap_or("1").to_string() } else if first == "*" { "1".to_string() } else { format!("{}.12", first) };
                        if !has_tag_all {
                            let copy = format!("\n\n{}", text[span_start..span_end].replace(&format!("versions = \"{}\"", value), &format!("versions = \"{}\"", other)));
                            out.push(Injection { rule: "overlapping-versions", expect: 15, file: o.file, edits: vec![(span_end, span_end, copy)], object: name.clone(), site_class: "own-tags", what: format!("copy of {} with versions \"{}\" next to \"{}\"", name, other, value) });
                            // the clashing copy placed AFTER a later definition of the same name (other versions) in this file
                            let later = u.objects.iter().filter(|x| x.file == o.file && x.name == name && x.item != o.item).map(|x| match &x.def {
                                Def::Container(c) => c.span.end,
                                Def::Definer(d) => d.span.end,
                            }).filter(|e| *e > span_end).max();
                            if let Some(end) = later {
                                let verbatim = format!("\n\n{}\n", &text[span_start..span_end]);
                                out.push(Injection { rule: "overlapping-versions-separated", expect: 15, file: o.file, edits: vec![(end, end, verbatim)], object: name.clone(), site_class: "clash-not-adjacent", what: format!("second copy of {} (versions \"{}\") placed after a later definition of that name for other versions", name, value) });
                            }
                        }
                    }
                }
            }
        }
    }
    out
}

fn apply(text: &str, edits: &[(usize, usize, String)]) -> String {
    let mut e = edits.to_vec();
    e.sort_by_key(|x| x.0);
    let mut out = String::with_capacity(text.len() + 64);
    let mut pos = 0;
    for (s, en, r) in e {
        out.push_str(&text[pos..s]);
        out.push_str(&r);
        pos = en;
    }
    out.push_str(&text[pos..]);
    out
}

pub fn run(tier: Tier, replay: Option<String>) -> i32 {
    let mut c = Check::new("C16", tier);
    c.level = "fault_enumeration".into();
    let bin = match generator_binary() {
        Ok(b) => b,
        Err(e) => {
            eprintln!("C16: {}", e);
            return 2;
        }
    };
    let u = match wowm_model::load_corpus(&vcommon::repo_root()) {
        Ok(u) => u,
        Err(e) => {
            eprintln!("C16: {}", e);
            return 2;
        }
    };
    let cands = candidates(&u);
    let mut by_rule: BTreeMap<&'static str, Vec<usize>> = BTreeMap::new();
    for (i, inj) in cands.iter().enumerate() {
        by_rule.entry(inj.rule).or_default().push(i);
    }
    c.extra.insert("candidate_sites_by_rule".into(), json!(by_rule.iter().map(|(k, v)| (k.to_string(), v.len())).collect::<BTreeMap<_, _>>()));
    c.rule = "for each static rule of the language, injection sites are enumerated over the real corpus through the independent model's syntax tree (top level, struct members, inside if / else-if / else / optional, files using tag_all, paste_versions objects) and a seed-chosen subset is applied as ONE minimal textual edit that breaks exactly that rule; the real generator runs on a scratch tree and must stop with that rule's exit status, with a diagnostic that names the edited file; the unmodified tree must exit 0. Every case is one fault (non-trivial); distinct = (rule, site class, file).".into();
    c.assume("each edit is constructed to break one rule only; no independent static checker confirms that no earlier-evaluated rule is broken as well");
    let per_rule = tier.pick(10usize, 200);
    let seed = c.seed;
    let mut chosen: Vec<usize> = Vec::new();
    if let Some(p) = &replay {
        let j = vcommon::read_json(std::path::Path::new(p));
        if let Some(i) = cands.iter().position(|x| x.rule == j["rule"].as_str().unwrap_or("") && x.what == j["what"].as_str().unwrap_or("")) {
            chosen.push(i);
        } else {
            eprintln!("site of the replay file not found in the current corpus");
            return 2;
        }
    } else {
        for (rule, idxs) in &by_rule {
            // spread over site classes first, then seed-chosen
            let mut by_class: BTreeMap<&str, Vec<usize>> = BTreeMap::new();
            for i in idxs {
                by_class.entry(cands[*i].site_class).or_default().push(*i);
            }
            let mut picked = BTreeSet::new();
            let mut k = 0u64;
            while picked.len() < per_rule.min(idxs.len()) {
                for (_, v) in by_class.iter() {
                    let i = v[(vcommon::mix(seed, vcommon::fnv(rule.as_bytes()) ^ k) as usize) % v.len()];
                    picked.insert(i);
                    k += 1;
                    if picked.len() >= per_rule.min(idxs.len()) {
                        break;
                    }
                }
                if k > 10_000 {
                    break;
                }
            }
            chosen.extend(picked);
        }
    }
    // unmodified tree exits 0
    let nscratch = 8usize.min(chosen.len().max(1));
    let scratches: Vec<Scratch> = (0..nscratch).filter_map(|_| Scratch::new().ok()).collect();
    if scratches.is_empty() {
        return 2;
    }
    if replay.is_none() {
        let g = scratches[0].run_generator(&bin);
        c.eval();
        if g.status != Some(0) {
            c.fail("c16:unmodified-tree-rejected", &format!("exit {:?}", g.status), json!({}));
        }
        let _ = scratches[0].sync_from_repo();
    }
    let chunk = (chosen.len() + scratches.len() - 1) / scratches.len().max(1);
    let results: Vec<(usize, Option<i32>, String)> = chosen
        .par_chunks(chunk.max(1))
        .zip(scratches.par_iter())
        .flat_map(|(ch, s)| {
            ch.iter()
                .map(|ci| {
                    let inj = &cands[*ci];
                    let f = &u.files[inj.file];
                    let path = s.path(&f.path);
                    let mutated = apply(&f.text, &inj.edits);
                    let _ = std::fs::write(&path, mutated);
                    let g = s.run_generator(&bin);
                    let _ = std::fs::write(&path, &f.text);
                    if g.status == Some(0) {
                        // a run that was accepted has rewritten generated files: restore the tree
                        let _ = s.sync_from_repo();
                    }
                    (*ci, g.status, g.stderr)
                })
                .collect::<Vec<_>>()
        })
        .collect();
    let mut reported = BTreeSet::new();
    for (ci, status, stderr) in results {
        let inj = &cands[ci];
        let f = &u.files[inj.file];
        c.eval();
        c.count(&format!("rule.{}", inj.rule));
        c.count(&format!("site.{}", inj.site_class));
        c.nontrivial(vcommon::fnv(format!("{}|{}|{}", inj.rule, inj.site_class, f.path).as_bytes()));
        let headline = stderr.lines().find(|l| l.starts_with("WOWM ERROR")).unwrap_or("").to_string();
        let j = json!({"rule": inj.rule, "expected_exit": inj.expect, "what": inj.what, "file": f.path, "site_class": inj.site_class, "exit": status, "headline": headline, "edits": inj.edits.iter().map(|(s, e, r)| json!([s, e, r])).collect::<Vec<_>>()});
        if status != Some(inj.expect) {
            let kind = match status {
                Some(0) => "accepted".to_string(),
                Some(101) => "generator-panics".to_string(),
                Some(n) => format!("exit-{}-instead", n),
                None => "killed".to_string(),
            };
            let sig = format!("c16:{}:{}", inj.rule, kind);
            if reported.insert(sig.clone()) {
                c.fail(&sig, &format!("{} ({}): expected exit {} but got {:?}; {}", inj.what, f.path, inj.expect, status, if headline.is_empty() { stderr.lines().last().unwrap_or("").to_string() } else { headline.clone() }), j);
            } else {
                c.violations += 0;
                c.count(&format!("repeat.{}", sig));
            }
        } else {
            // the diagnostic names the edited file
            let base = f.path.rsplit('/').next().unwrap_or(&f.path);
            if !stderr.contains(base) && !matches!(inj.rule, "opcode-differs-from-index" | "name-differs-from-index" | "message-not-in-index") {
                let sig = format!("c16:{}:diagnostic-does-not-name-file", inj.rule);
                if reported.insert(sig.clone()) {
                    c.fail(&sig, &format!("{}: exit {} as expected but the diagnostic does not mention {}", inj.what, inj.expect, base), j);
                }
            } else if c.samples.len() < 10 && c.evaluations % 13 == 1 {
                c.sample(j);
            }
        }
    }
    c.finish()
}
