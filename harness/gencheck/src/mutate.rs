//! Valid mutants of the shipped corpus: small edits, located through the model's syntax tree, that
//! keep the program well-formed (so the generator must accept it) but change what it means. Batches
//! of non-interfering edits are applied to scratch trees, the generator is run, and a judge compares
//! the artefacts with the model's reading of the MUTATED text. A failing batch is reduced by
//! bisection to the smallest set of edits that still fails (normally one), which is the replay.
use crate::gentree::*;
use crate::scratch::*;
use proptest::strategy::{Strategy, ValueTree};
use rayon::prelude::*;
use serde_json::{json, Value};
use std::collections::{BTreeMap, BTreeSet};
use std::path::Path;
use wowm_model::ast::*;
use wowm_model::parser::parse_int;
use wowm_model::resolve::*;

#[derive(Debug, Clone)]
pub struct Mutation {
    pub kind: &'static str,
    pub path: String,
    /// (start, end, expected original text, replacement)
    pub edits: Vec<(usize, usize, String, String)>,
    pub object: String,
    pub affected: Vec<String>,
    pub what: String,
}

impl Mutation {
    pub fn to_json(&self) -> Value {
        json!({"kind": self.kind, "path": self.path, "object": self.object, "what": self.what, "edits": self.edits.iter().map(|(s, e, o, r)| json!([s, e, o, r])).collect::<Vec<_>>()})
    }
    pub fn from_json(v: &Value) -> Option<Mutation> {
        Some(Mutation {
            kind: "replayed",
            path: v["path"].as_str()?.to_string(),
            edits: v["edits"].as_array()?.iter().filter_map(|e| Some((e[0].as_u64()? as usize, e[1].as_u64()? as usize, e[2].as_str()?.to_string(), e[3].as_str()?.to_string()))).collect(),
            object: v["object"].as_str().unwrap_or("").to_string(),
            affected: vec![],
            what: v["what"].as_str().unwrap_or("").to_string(),
        })
    }
}

pub const SIZE_KINDS: &[&str] = &["insert-field", "retype-field", "resize-array", "wrap-optional", "swap-fields", "change-condition", "widen-condition", "add-upcast", "add-enumerator", "add-else", "add-else-if"];
pub const ALL_KINDS: &[&str] = &["insert-field", "retype-field", "resize-array", "wrap-optional", "swap-fields", "change-condition", "widen-condition", "add-upcast", "add-enumerator", "rename-enumerator", "change-enumerator-value", "add-object-comment", "add-field-comment", "add-else", "add-else-if"];

fn tokens(text: &str) -> impl Iterator<Item = &str> {
    text.split(|c: char| !(c.is_ascii_alphanumeric() || c == '_')).filter(|s| !s.is_empty())
}

fn type_names(members: &[Member], out: &mut BTreeSet<String>) {
    for m in members {
        match m {
            Member::Field(f) => {
                out.insert(match &f.ty {
                    TypeRef::Simple { name, .. } => name.clone(),
                    TypeRef::Array { inner, .. } => inner.clone(),
                });
            }
            Member::If(i) => {
                for b in i.branches() {
                    type_names(&b.body, out);
                }
                if let Some(e) = &i.else_body {
                    type_names(e, out);
                }
            }
            Member::Optional(o) => type_names(&o.body, out),
            Member::Unimplemented => {}
        }
    }
}

fn has_unimplemented(members: &[Member]) -> bool {
    members.iter().any(|m| match m {
        Member::Unimplemented => true,
        Member::If(i) => i.branches().any(|b| has_unimplemented(&b.body)) || i.else_body.as_ref().map(|e| has_unimplemented(e)).unwrap_or(false),
        Member::Optional(o) => has_unimplemented(&o.body),
        _ => false,
    })
}

fn all_fields<'a>(members: &'a [Member], out: &mut Vec<&'a Field>) {
    for m in members {
        match m {
            Member::Field(f) => out.push(f),
            Member::If(i) => {
                for b in i.branches() {
                    all_fields(&b.body, out);
                }
                if let Some(e) = &i.else_body {
                    all_fields(e, out);
                }
            }
            Member::Optional(o) => all_fields(&o.body, out),
            Member::Unimplemented => {}
        }
    }
}

fn all_ifs<'a>(members: &'a [Member], out: &mut Vec<&'a IfStmt>) {
    for m in members {
        match m {
            Member::If(i) => {
                out.push(i);
                for b in i.branches() {
                    all_ifs(&b.body, out);
                }
                if let Some(e) = &i.else_body {
                    all_ifs(e, out);
                }
            }
            Member::Optional(o) => all_ifs(&o.body, out),
            _ => {}
        }
    }
}

/// names of objects a test vector depends on (tested containers and everything they reach), plus
/// objects the hand-written update-mask code depends on: their encodings are pinned by bytes or
/// tables elsewhere in the tree, so editing them would not leave "an otherwise valid tree"
pub fn pinned_names(u: &Universe) -> BTreeSet<String> {
    let mut pinned: BTreeSet<String> = u.tests.iter().map(|t| t.case.subject.clone()).collect();
    for o in &u.objects {
        if o.tags.has("used_in_update_mask") || o.tags.is_true("test") {
            pinned.insert(o.name.clone());
        }
    }
    loop {
        let mut add = BTreeSet::new();
        for o in &u.objects {
            if pinned.contains(&o.name) {
                if let Some(c) = o.container() {
                    type_names(&c.members, &mut add);
                }
            }
        }
        let before = pinned.len();
        pinned.extend(add);
        if pinned.len() == before {
            break;
        }
    }
    pinned
}

fn definers_in_all_ns<'a>(u: &'a Universe, o: &Object, ty: &str) -> Option<Vec<&'a Definer>> {
    let mut v = Vec::new();
    for ns in Ns::all() {
        if u.objects.iter().any(|x| x.file == o.file && x.item == o.item && x.in_ns(ns)) {
            v.push(u.lookup(ns, ty).and_then(|x| x.definer())?);
        }
    }
    if v.is_empty() {
        None
    } else {
        Some(v)
    }
}

/// every candidate mutation of the corpus
pub fn candidates(u: &Universe) -> Vec<Mutation> {
    let pinned = pinned_names(u);
    let mut global_count: BTreeMap<&str, u32> = BTreeMap::new();
    for f in &u.files {
        for t in tokens(&f.text) {
            *global_count.entry(t).or_insert(0) += 1;
        }
    }
    let mut out = Vec::new();
    let mut seen = BTreeSet::new();
    for o in &u.objects {
        if !seen.insert((o.file, o.item)) {
            continue;
        }
        let file = &u.files[o.file];
        let text = &file.text;
        let path = file.path.clone();
        let is_pinned = pinned.contains(&o.name);
        let mk = |kind: &'static str, edits: Vec<(usize, usize, String)>, what: String| Mutation { kind, path: path.clone(), edits: edits.into_iter().map(|(s, e, r)| (s, e, text[s..e].to_string(), r)).collect(), object: o.name.clone(), affected: vec![o.name.clone()], what };
        match &o.def {
            Def::Definer(d) => {
                if d.members.is_empty() {
                    continue;
                }
                let vals: Vec<i128> = d.members.iter().filter_map(|m| parse_int(&m.value_text)).collect();
                if vals.len() != d.members.len() {
                    continue;
                }
                let bits: u32 = match d.base.as_str() {
                    "u8" | "i8" => 8,
                    "u16" | "i16" => 16,
                    "u32" | "i32" => 32,
                    _ => 64,
                };
                let signed = d.base.starts_with('i');
                let top: i128 = if signed { (1i128 << (bits - 1)) - 1 } else { (1i128 << bits) - 1 };
                let last = d.members.last().unwrap();
                let fresh: Option<i128> = match d.kind {
                    DefinerKind::Enum => vals.iter().max().map(|m| m + 1).filter(|v| *v <= top && *v >= 0),
                    DefinerKind::Flag => (0..bits.min(63)).map(|b| 1i128 << b).find(|b| vals.iter().all(|v| v & b == 0)),
                };
                if let Some(fv) = fresh {
                    out.push(mk("add-enumerator", vec![(last.span.end, last.span.end, format!("\n    VERIF_ADDED_ENUMERATOR = {};", fv))], format!("{} gets VERIF_ADDED_ENUMERATOR = {}", d.name, fv)));
                    if !is_pinned && d.kind == DefinerKind::Enum && d.members.len() >= 2 {
                        let m = &d.members[d.members.len() / 2];
                        let t = &text[m.span.start..m.span.end];
                        if let Some(eq) = t.find('=') {
                            let vs = m.span.start + eq + 1;
                            let ve = m.span.start + t[eq..].find(|ch| ch == ';' || ch == '{').map(|x| x + eq).unwrap_or(t.len());
                            out.push(mk("change-enumerator-value", vec![(vs, ve, format!(" {}", fv))], format!("{}::{} = {} instead of {}", d.name, m.name, fv, m.value_text)));
                        }
                    }
                }
                for m in &d.members {
                    if global_count.get(m.name.as_str()).copied() == Some(1) {
                        let ns = m.span.start;
                        if text[ns..].starts_with(m.name.as_str()) {
                            out.push(mk("rename-enumerator", vec![(ns, ns + m.name.len(), format!("{}_VERIF_RENAMED", m.name))], format!("{}::{} renamed", d.name, m.name)));
                            break;
                        }
                    }
                }
            }
            Def::Container(c) => {
                if has_unimplemented(&c.members) {
                    continue;
                }
                let obj_text = &text[c.span.start..c.span.end];
                let mut local: BTreeMap<&str, u32> = BTreeMap::new();
                for t in tokens(obj_text) {
                    *local.entry(t).or_insert(0) += 1;
                }
                let unreferenced = |name: &str| local.get(name).copied() == Some(1);
                let mut fields = Vec::new();
                all_fields(&c.members, &mut fields);
                let has_self_size = fields.iter().any(|f| f.value.as_deref() == Some("self.size"));
                // comments are harmless everywhere
                if let Some(f) = fields.iter().find(|f| f.tags.pairs.is_empty() && text[f.span.start..f.span.end].ends_with(';')) {
                    out.push(mk("add-field-comment", vec![(f.span.end - 1, f.span.end, " {\n        comment = \"verif member comment\";\n    }".into())], format!("{}.{} gets a comment", c.name, f.name)));
                }
                if is_pinned {
                    continue;
                }
                if !has_self_size {
                    if let Some(b) = text[c.name_span.end..c.span.end].find('{') {
                        let p = c.name_span.end + b + 1;
                        let choices: &[&str] = if c.kind.is_login() { &["u8", "u16", "u32", "u64", "CString", "u8[16]"] } else { &["u8", "u16", "u32", "u64", "f32", "Guid", "PackedGuid", "CString", "Bool", "u32[3]", "Guid[2]"] };
                        let ty = choices[(vcommon::fnv(c.name.as_bytes()) as usize) % choices.len()];
                        let (tyname, arr) = match ty.split_once('[') {
                            Some((a, b)) => (a, format!("[{}", b)),
                            None => (ty, String::new()),
                        };
                        out.push(mk("insert-field", vec![(p, p, format!("\n    {}{} verif_inserted_{}{};", tyname, arr, tyname.to_lowercase(), if arr.is_empty() { "" } else { "_array" }))], format!("{} gets a leading member of type {}", c.name, ty)));
                    }
                }
                // top-level neighbours
                for w in c.members.windows(2) {
                    if let (Member::Field(a), Member::Field(b)) = (&w[0], &w[1]) {
                        if a.value.is_none() && b.value.is_none() && unreferenced(&a.name) && unreferenced(&b.name) && a.ty != b.ty && !matches!(&b.ty, TypeRef::Array { size: ArraySize::Endless, .. }) {
                            let ta = text[a.span.start..a.span.end].to_string();
                            let tb = text[b.span.start..b.span.end].to_string();
                            out.push(mk("swap-fields", vec![(a.span.start, a.span.end, tb), (b.span.start, b.span.end, ta)], format!("{}: members {} and {} swapped", c.name, a.name, b.name)));
                            break;
                        }
                    }
                }
                for f in &fields {
                    if let TypeRef::Simple { name, upcast: None } = &f.ty {
                        if matches!(name.as_str(), "u8" | "u16" | "u32" | "u64") && f.value.is_none() && unreferenced(&f.name) && global_count.get(f.name.as_str()).copied() == Some(1) {
                            let to = match name.as_str() {
                                "u8" => "u32",
                                "u16" => "u64",
                                "u32" => "u8",
                                _ => "u16",
                            };
                            let p = f.ty_span.start;
                            out.push(mk("retype-field", vec![(p, p + name.len(), to.to_string())], format!("{}.{}: {} becomes {}", c.name, f.name, name, to)));
                            break;
                        }
                    }
                }
                for f in &fields {
                    if let TypeRef::Array { size: ArraySize::Fixed(n), .. } = &f.ty {
                        let t = &text[f.ty_span.start..f.ty_span.end];
                        if let Some(b) = t.find('[') {
                            let s = f.ty_span.start + b + 1;
                            let e = f.ty_span.end - 1;
                            if text[s..e].trim() == n.to_string() {
                                out.push(mk("resize-array", vec![(s, e, (n + 1).to_string())], format!("{}.{}: [{}] becomes [{}]", c.name, f.name, n, n + 1)));
                                break;
                            }
                        }
                    }
                }
                if c.kind.is_world() && !c.members.iter().any(|m| matches!(m, Member::Optional(_))) {
                    if let Some(Member::Field(f)) = c.members.last() {
                        if c.members.len() >= 2 && unreferenced(&f.name) && f.value.is_none() {
                            let ft = text[f.span.start..f.span.end].to_string();
                            out.push(mk("wrap-optional", vec![(f.span.start, f.span.end, format!("optional verif_optional {{\n        {}\n    }}", ft))], format!("{}: last member {} becomes an optional tail", c.name, f.name)));
                        }
                    }
                }
                let mut ifs = Vec::new();
                all_ifs(&c.members, &mut ifs);
                'ifs: for i in &ifs {
                    let var = i.var();
                    let Some(vf) = fields.iter().find(|f| f.name == var) else { continue };
                    let TypeRef::Simple { name: vty, .. } = &vf.ty else { continue };
                    let Some(ds) = definers_in_all_ns(u, o, vty) else { continue };
                    if ds.iter().any(|d| d.kind != DefinerKind::Enum) {
                        continue;
                    }
                    let used: BTreeSet<&str> = i.branches().flat_map(|b| b.conds.iter().map(|c| c.value.as_str())).collect();
                    let free: Vec<&str> = ds[0].members.iter().map(|m| m.name.as_str()).filter(|n| !used.contains(n) && ds.iter().all(|d| d.members.iter().any(|m| m.name == *n))).collect();
                    if free.is_empty() || i.branches().any(|b| b.conds.iter().any(|c| c.op != CondOp::Eq)) {
                        continue;
                    }
                    // a new variable-sized branch at the end of the chain
                    if i.else_body.is_none() {
                        out.push(mk("add-else", vec![(i.span.end, i.span.end, format!(" else {{\n        CString verif_else_text_{};\n    }}", c.name.to_lowercase()))], format!("{}: if on {} gets an else branch holding a CString", c.name, var)));
                        out.push(mk("add-else-if", vec![(i.span.end, i.span.end, format!(" else if ({} == {}) {{\n        u8 verif_amount_{n};\n        u16[verif_amount_{n}] verif_values_{n};\n    }}", var, free[free.len() - 1], n = c.name.to_lowercase()))], format!("{}: if on {} gets an else-if branch for {} holding a counted array", c.name, var, free[free.len() - 1])));
                    }
                    let cnd = &i.first.conds[0];
                    out.push(mk("change-condition", vec![(cnd.value_span.start, cnd.value_span.end, free[0].to_string())], format!("{}: condition {} == {} becomes == {}", c.name, var, cnd.value, free[0])));
                    let lastc = i.first.conds.last().unwrap();
                    out.push(mk("widen-condition", vec![(lastc.span.end, lastc.span.end, format!(" || {} == {}", var, free[free.len() - 1]))], format!("{}: first branch on {} also taken for {}", c.name, var, free[free.len() - 1])));
                    break 'ifs;
                }
                for f in &fields {
                    if let TypeRef::Simple { name, upcast: None } = &f.ty {
                        if let Some(ds) = definers_in_all_ns(u, o, name) {
                            if ds.iter().all(|d| d.kind == DefinerKind::Enum && matches!(d.base.as_str(), "u8" | "u16")) && unreferenced(&f.name) && f.value.is_none() {
                                out.push(mk("add-upcast", vec![(f.ty_span.start, f.ty_span.start, "(u32)".into())], format!("{}.{}: {} sent as u32", c.name, f.name, name)));
                                break;
                            }
                        }
                    }
                }
            }
        }
        // object tags
        let (span_start, span_end) = match &o.def {
            Def::Container(c) => (c.span.start, c.span.end),
            Def::Definer(d) => (d.span.start, d.span.end),
        };
        let obj_text = &text[span_start..span_end];
        if obj_text.ends_with('}') && !o.tags.has("comment") {
            if let Some(tb) = obj_text.rfind('{') {
                if obj_text[tb..].contains("versions") {
                    let p = span_end - 1;
                    out.push(mk("add-object-comment", vec![(p, p, format!("    comment = \"verif object comment for {}\";\n", o.name))], format!("{} gets a comment tag", o.name)));
                }
            }
        }
    }
    out
}

pub fn apply_to_text(text: &str, edits: &[(usize, usize, String, String)]) -> Option<String> {
    let mut e = edits.to_vec();
    e.sort_by_key(|x| x.0);
    let mut out = String::with_capacity(text.len() + 128);
    let mut pos = 0;
    for (s, en, orig, r) in e {
        if s < pos || en > text.len() || text.get(s..en) != Some(orig.as_str()) {
            return None;
        }
        out.push_str(&text[pos..s]);
        out.push_str(&r);
        pos = en;
    }
    out.push_str(&text[pos..]);
    Some(out)
}

pub struct MutFailure {
    pub sig: String,
    pub object: String,
    pub what: String,
    pub detail: Value,
}

pub struct Outcome {
    pub failures: Vec<MutFailure>,
    pub classes: BTreeMap<String, u64>,
    pub per_batch: Vec<Value>,
    pub inconclusive: Vec<String>,
    pub batches_run: u64,
    pub mutations_applied: u64,
    pub dropped: Vec<Value>,
    pub samples: Vec<Value>,
}

/// applies the batch to a fresh scratch tree and generates; mutations the generator rejects are
/// dropped (identified by the file its diagnostic names) and the run repeated
fn build_tree(bin: &Path, batch: &[Mutation], dropped: &mut Vec<Value>) -> Result<(GenTree, Vec<Mutation>), String> {
    let mut batch: Vec<Mutation> = batch.to_vec();
    let mut scratch = Scratch::new()?;
    for _attempt in 0..6 {
        for m in &batch {
            let p = scratch.path(&m.path);
            let text = std::fs::read_to_string(vcommon::repo_root().join(&m.path)).map_err(|e| e.to_string())?;
            match apply_to_text(&text, &m.edits) {
                Some(t) => std::fs::write(&p, t).map_err(|e| e.to_string())?,
                None => return Err(format!("edit of {} does not fit the current text", m.path)),
            }
        }
        match GenTree::generate(scratch, bin) {
            Ok(t) => return Ok((t, batch)),
            Err((s, run)) => {
                scratch = s;
                // which mutation is named by the diagnostic?
                let hit = batch.iter().position(|m| run.stderr.contains(m.path.rsplit('/').next().unwrap_or("")));
                let idx = match hit {
                    Some(i) => i,
                    None => {
                        // object name mentioned?
                        match batch.iter().position(|m| run.stderr.contains(&m.object)) {
                            Some(i) => i,
                            None => return Err(format!("generator failed on a mutant tree and the diagnostic names none of the edited files: exit {:?}: {}", run.status, run.stderr.lines().take(6).collect::<Vec<_>>().join(" | "))),
                        }
                    }
                };
                let m = batch.remove(idx);
                dropped.push(json!({"mutation": m.to_json(), "exit": run.status, "diagnostic": run.stderr.lines().filter(|l| !l.trim().is_empty()).take(4).collect::<Vec<_>>()}));
                let _ = std::fs::write(scratch.path(&m.path), std::fs::read_to_string(vcommon::repo_root().join(&m.path)).unwrap_or_default());
                scratch.sync_from_repo()?;
            }
        }
    }
    Err("too many rejected mutations in one batch".into())
}

/// `judge(tree, batch)` returns the failures of the whole tree and a statistics value.
/// Failures whose signature is in `baseline_sigs` (already present without any mutation) are ignored.
pub fn run_batches<F>(u: &Universe, bin: &Path, seed: u64, salt: u64, batches: usize, per_batch: usize, kinds: &[&str], replay: Option<&str>, judge: F) -> Outcome
where
    F: Fn(&GenTree, &[Mutation]) -> (Vec<MutFailure>, Value) + Sync,
{
    let mut out = Outcome { failures: vec![], classes: BTreeMap::new(), per_batch: vec![], inconclusive: vec![], batches_run: 0, mutations_applied: 0, dropped: vec![], samples: vec![] };
    let plan: Vec<Vec<Mutation>> = if let Some(p) = replay {
        let j = vcommon::read_json(Path::new(p));
        let ms: Vec<Mutation> = j["mutations"].as_array().cloned().unwrap_or_default().iter().filter_map(Mutation::from_json).collect();
        if ms.is_empty() {
            return out;
        }
        vec![ms]
    } else {
        let cands: Vec<Mutation> = candidates(u).into_iter().filter(|m| kinds.contains(&m.kind)).collect();
        let mut by_kind: BTreeMap<&str, Vec<usize>> = BTreeMap::new();
        for (i, m) in cands.iter().enumerate() {
            by_kind.entry(m.kind).or_default().push(i);
            *out.classes.entry(format!("candidates.{}", m.kind)).or_insert(0) += 1;
        }
        // the selection is drawn by proptest: per batch, per slot, (kind index, site index)
        let mut runner = vcommon::runner(seed, salt, 1);
        let strat = proptest::collection::vec(proptest::collection::vec((proptest::prelude::any::<u16>(), proptest::prelude::any::<u32>()), per_batch), batches);
        let draws = strat.new_tree(&mut runner).map(|t| t.current()).unwrap_or_default();
        let kinds_present: Vec<&str> = by_kind.keys().copied().collect();
        let mut plan = Vec::new();
        for b in draws {
            let mut files = BTreeSet::new();
            let mut objects = BTreeSet::new();
            let mut batch = Vec::new();
            for (k, s) in b {
                if kinds_present.is_empty() {
                    break;
                }
                let kind = kinds_present[(k as usize * kinds_present.len()) >> 16];
                let v = &by_kind[kind];
                let i = v[((s as u64 * v.len() as u64) >> 32) as usize];
                let m = &cands[i];
                // one edit per file and per object name keeps the edits independent
                if files.contains(&m.path) || objects.contains(&m.object) {
                    continue;
                }
                files.insert(m.path.clone());
                objects.insert(m.object.clone());
                batch.push(m.clone());
            }
            plan.push(batch);
        }
        plan
    };
    let results: Vec<(Vec<Mutation>, Result<(Vec<MutFailure>, Value, Vec<Mutation>), String>, Vec<Value>)> = plan
        .par_iter()
        .map(|batch| {
            let mut dropped = Vec::new();
            let r = build_tree(bin, batch, &mut dropped).map(|(t, kept)| {
                let (f, st) = judge(&t, &kept);
                (f, st, kept)
            });
            (batch.clone(), r, dropped)
        })
        .collect();
    let mut reductions_left = 3;
    for (_batch, r, dropped) in results {
        out.dropped.extend(dropped);
        match r {
            Err(e) => out.inconclusive.push(e),
            Ok((fails, st, kept)) => {
                out.batches_run += 1;
                out.mutations_applied += kept.len() as u64;
                for m in &kept {
                    *out.classes.entry(format!("applied.{}", m.kind)).or_insert(0) += 1;
                }
                if out.samples.len() < 4 {
                    if let Some(m) = kept.get(out.samples.len()) {
                        out.samples.push(json!({"mutant": m.to_json()}));
                    }
                }
                out.per_batch.push(st);
                // reduce a few distinct failures to the smallest sub-batch that still shows them (each
                // attempt is a generator run); the others are reported with the edits of their object
                let mut seen = BTreeSet::new();
                for f in fails {
                    if !seen.insert(f.sig.clone()) || seen.len() > 8 {
                        continue;
                    }
                    let own: Vec<Mutation> = kept.iter().filter(|m| m.object == f.object || f.sig.contains(&format!("/{}:", m.object))).cloned().collect();
                    let minimal = if reductions_left > 0 {
                        reductions_left -= 1;
                        reduce(bin, &kept, &own, &f.sig, &judge)
                    } else if !own.is_empty() {
                        own
                    } else {
                        kept.clone()
                    };
                    let mut d = f.detail.clone();
                    d["mutations"] = json!(minimal.iter().map(|m| m.to_json()).collect::<Vec<_>>());
                    let kind_label = minimal.first().map(|m| m.kind).unwrap_or("none");
                    out.failures.push(MutFailure { sig: f.sig.replacen(':', &format!(":mutant[{}]:", kind_label), 1), object: f.object, what: format!("after {}: {}", minimal.iter().take(3).map(|m| m.what.clone()).collect::<Vec<_>>().join("; "), f.what), detail: d });
                }
            }
        }
    }
    out
}

fn reduce<F>(bin: &Path, batch: &[Mutation], own: &[Mutation], sig: &str, judge: &F) -> Vec<Mutation>
where
    F: Fn(&GenTree, &[Mutation]) -> (Vec<MutFailure>, Value) + Sync,
{
    let shows = |sub: &[Mutation]| -> bool {
        let mut d = Vec::new();
        match build_tree(bin, sub, &mut d) {
            Ok((t, kept)) => judge(&t, &kept).0.iter().any(|f| f.sig == sig),
            Err(_) => false,
        }
    };
    // the edit of the failing object itself is the usual culprit
    if !own.is_empty() && own.len() < batch.len() && shows(own) {
        return own.to_vec();
    }
    let mut cur: Vec<Mutation> = batch.to_vec();
    let mut budget = 8;
    while cur.len() > 1 && budget > 0 {
        let mid = cur.len() / 2;
        let (a, b) = cur.split_at(mid);
        budget -= 1;
        if shows(a) {
            cur = a.to_vec();
        } else {
            budget -= 1;
            if shows(b) {
                cur = b.to_vec();
            } else {
                break; // needs edits from both halves
            }
        }
    }
    cur
}
