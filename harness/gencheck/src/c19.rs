//! C19: every supported feature combination builds and exposes the same codecs.
//! (1) `cargo check` of each library under a covering set of feature combinations (quick: every
//! 3-way interaction of features, chosen by a seeded greedy construction; thorough: the powerset);
//! a failing set is reduced to a minimal one. (2) One probe program compiled under several feature
//! sets reads and re-writes the same model-generated frames; outputs must agree wherever two
//! configurations both contain the codec.
#[path = "../../codec_harness/src/gen.rs"]
mod gen;
use gen::*;
use proptest::strategy::{Strategy, ValueTree};
use rayon::prelude::*;
use serde_json::json;
use std::collections::{BTreeMap, BTreeSet};
use std::path::PathBuf;
use std::process::Command;
use vcommon::{Check, Tier};
use wowm_model::frame::*;
use wowm_model::resolve::*;

const LOGIN: &[&str] = &["sync", "tokio", "async-std"];
const WORLD: &[&str] = &["sync", "tokio", "async-std", "vanilla", "tbc", "wrath", "encryption", "print-testcase", "chrono"];
const BASE: &[&str] = &["extended", "vanilla", "tbc", "wrath", "shared", "print-testcase", "serde", "chrono"];

fn target_root() -> PathBuf {
    vcommon::verif_root().join("target/c19")
}

/// rows of a strength-t covering array over n binary factors: greedy, candidates drawn by proptest
fn covering(n: usize, t: usize, seed: u64) -> Vec<u32> {
    let t = t.min(n);
    // all (positions, values) t-tuples
    let mut combos: Vec<Vec<usize>> = Vec::new();
    fn rec(n: usize, t: usize, start: usize, cur: &mut Vec<usize>, out: &mut Vec<Vec<usize>>) {
        if cur.len() == t {
            out.push(cur.clone());
            return;
        }
        for i in start..n {
            cur.push(i);
            rec(n, t, i + 1, cur, out);
            cur.pop();
        }
    }
    rec(n, t, 0, &mut vec![], &mut combos);
    let mut uncovered: BTreeSet<(usize, u32)> = BTreeSet::new();
    for (ci, _) in combos.iter().enumerate() {
        for v in 0..(1u32 << t) {
            uncovered.insert((ci, v));
        }
    }
    let proj = |row: u32, c: &Vec<usize>| -> u32 { c.iter().enumerate().fold(0, |a, (k, p)| a | (((row >> p) & 1) << k)) };
    let mut rows: Vec<u32> = vec![0, (1u32 << n) - 1]; // nothing, everything
    for r in rows.clone() {
        for (ci, c) in combos.iter().enumerate() {
            uncovered.remove(&(ci, proj(r, c)));
        }
    }
    let mut runner = vcommon::runner(seed, 0xC19 + n as u64, 1);
    while !uncovered.is_empty() {
        let cands = proptest::collection::vec(proptest::prelude::any::<u32>(), 48).new_tree(&mut runner).map(|t| t.current()).unwrap_or_default();
        let best = cands.iter().map(|c| c & ((1u32 << n) - 1)).max_by_key(|r| combos.iter().enumerate().filter(|(ci, c)| uncovered.contains(&(*ci, proj(*r, c)))).count()).unwrap_or(0);
        let gain = combos.iter().enumerate().filter(|(ci, c)| uncovered.contains(&(*ci, proj(best, c)))).count();
        let row = if gain == 0 {
            // construct a row for the first uncovered tuple
            let (ci, v) = *uncovered.iter().next().unwrap();
            let mut r = 0u32;
            for (k, p) in combos[ci].iter().enumerate() {
                r |= ((v >> k) & 1) << p;
            }
            r
        } else {
            best
        };
        for (ci, c) in combos.iter().enumerate() {
            uncovered.remove(&(ci, proj(row, c)));
        }
        if !rows.contains(&row) {
            rows.push(row);
        }
    }
    rows
}

fn names(feats: &[&str], row: u32) -> Vec<String> {
    feats.iter().enumerate().filter(|(i, _)| (row >> i) & 1 == 1).map(|(_, f)| f.to_string()).collect()
}

struct BuildResult {
    ok: bool,
    stderr_head: String,
    wall_s: f64,
}

fn cargo_check(krate: &str, feats: &[String], slot: usize) -> BuildResult {
    let t = std::time::Instant::now();
    let mut cmd = Command::new("cargo");
    cmd.arg("check").arg("--offline").arg("-q").arg("--manifest-path").arg(vcommon::repo_root().join("Cargo.toml")).arg("-p").arg(krate).arg("--no-default-features");
    if !feats.is_empty() {
        cmd.arg("--features").arg(feats.join(" "));
    }
    cmd.env("CARGO_TARGET_DIR", target_root().join(format!("t{}", slot))).env("CARGO_NET_OFFLINE", "true").env("RUSTFLAGS", "-A warnings").env("CARGO_INCREMENTAL", "0");
    match cmd.output() {
        Ok(o) => {
            let err = String::from_utf8_lossy(&o.stderr);
            let head: Vec<&str> = err.lines().filter(|l| l.starts_with("error")).take(3).collect();
            BuildResult { ok: o.status.success(), stderr_head: head.join(" | "), wall_s: t.elapsed().as_secs_f64() }
        }
        Err(e) => BuildResult { ok: false, stderr_head: format!("cannot run cargo: {}", e), wall_s: 0.0 },
    }
}

fn build_probe(feats: &[String], slot: usize) -> Result<PathBuf, String> {
    let dir = target_root().join(format!("p{}", slot));
    let mut cmd = Command::new("cargo");
    cmd.arg("build").arg("--offline").arg("-q").arg("--manifest-path").arg(vcommon::verif_root().join("harness/feature_probe/Cargo.toml")).arg("--no-default-features");
    if !feats.is_empty() {
        cmd.arg("--features").arg(feats.join(" "));
    }
    cmd.env("CARGO_TARGET_DIR", &dir).env("CARGO_NET_OFFLINE", "true").env("RUSTFLAGS", "-A warnings").env("CARGO_INCREMENTAL", "0");
    let o = cmd.output().map_err(|e| e.to_string())?;
    if !o.status.success() {
        let err = String::from_utf8_lossy(&o.stderr);
        return Err(err.lines().filter(|l| l.starts_with("error")).take(4).collect::<Vec<_>>().join(" | "));
    }
    // keep one binary per configuration
    let bin = dir.join("debug/feature_probe");
    let keep = dir.join(format!("probe_{}", vcommon::fnv(feats.join(",").as_bytes())));
    std::fs::copy(&bin, &keep).map_err(|e| e.to_string())?;
    Ok(keep)
}

fn err_class(line: &str) -> String {
    // "ERR consumed=N Variant(...)": the error variant
    let rest = line.splitn(3, ' ').nth(2).unwrap_or("");
    let outer = rest.split(|c: char| c == '(' || c == '{' || c == ' ').next().unwrap_or("").to_string();
    // ... and, for parse errors, which kind (allocation limit, end of input, enum, string): `kind: Variant`
    let kind = if outer != "Parse" { None } else { rest.find("kind: ") }.map(|i| rest[i + 6..].split(|c: char| c == '(' || c == '{' || c == ' ' || c == '}' || c == ',').next().unwrap_or("").to_string()).unwrap_or_default();
    format!("{}:{}", outer, kind)
}

pub fn run(tier: Tier, replay: Option<String>) -> i32 {
    let mut c = Check::new("C19", tier);
    c.rule = "build part: one evaluation = `cargo check` of one library under one feature set; quick runs a covering set in which every combination of on/off values of any three features occurs (plus all-off and all-on; the login crate's 8 sets in full), thorough the whole powerset; non-trivial = set with at least two features; a failing set is reduced feature by feature to a minimal failing one. Behaviour part: one evaluation = one frame (canonical encodings from the independent wowm model via directed enumeration, and truncated / damaged variants) read and re-written by the probe built under a feature set, compared with the probe built with every feature: same acceptance, consumption, re-encoding and Debug value, or the same error variant.".into();
    std::fs::create_dir_all(target_root()).ok();
    let seed = c.seed;
    let mut jobs: Vec<(&'static str, Vec<String>)> = Vec::new();
    if let Some(p) = &replay {
        let j = vcommon::read_json(std::path::Path::new(p));
        let krate: &'static str = match j["crate"].as_str().unwrap_or("") {
            "wow_login_messages" => "wow_login_messages",
            "wow_world_base" => "wow_world_base",
            _ => "wow_world_messages",
        };
        jobs.push((krate, j["features"].as_array().cloned().unwrap_or_default().iter().filter_map(|x| x.as_str().map(|s| s.to_string())).collect()));
    } else {
        for (krate, feats, full) in [("wow_login_messages", LOGIN, true), ("wow_world_base", BASE, tier == Tier::Thorough), ("wow_world_messages", WORLD, tier == Tier::Thorough)] {
            let rows: Vec<u32> = if full { (0..(1u32 << feats.len())).collect() } else { covering(feats.len(), 3, seed) };
            c.extra.insert(format!("feature_sets.{}", krate), json!(rows.len()));
            for r in rows {
                jobs.push((krate, names(feats, r)));
            }
        }
    }
    // heavy jobs first
    jobs.sort_by_key(|(k, f)| std::cmp::Reverse((*k == "wow_world_messages") as usize * 100 + f.len()));
    let pool = rayon::ThreadPoolBuilder::new().num_threads(6).build().unwrap();
    let results: Vec<(&'static str, Vec<String>, BuildResult)> = pool.install(|| {
        jobs.par_iter()
            .map(|(k, f)| {
                let slot = rayon::current_thread_index().unwrap_or(0);
                (*k, f.clone(), cargo_check(k, f, slot))
            })
            .collect()
    });
    let mut total_wall = 0.0;
    let mut failing: Vec<(&'static str, Vec<String>, String)> = Vec::new();
    for (k, f, r) in &results {
        c.eval();
        total_wall += r.wall_s;
        c.count(&format!("build.{}", k));
        if f.len() >= 2 {
            c.nontrivial(vcommon::fnv(format!("{}|{}", k, f.join(",")).as_bytes()));
        }
        if c.samples.len() < 6 && c.evaluations % 9 == 0 {
            c.sample(json!({"crate": k, "features": f, "builds": r.ok, "seconds": (r.wall_s * 10.0).round() / 10.0}));
        }
        if !r.ok {
            failing.push((*k, f.clone(), r.stderr_head.clone()));
        }
    }
    c.extra.insert("cargo_check_cpu_seconds".into(), json!(total_wall.round()));
    // reduce failing sets (each distinct minimal set reported once)
    let mut reported = BTreeSet::new();
    for (k, f, err) in failing.iter().take(12) {
        let mut cur = f.clone();
        let mut i = 0;
        let mut last_err = err.clone();
        while i < cur.len() {
            let mut t = cur.clone();
            t.remove(i);
            let r = cargo_check(k, &t, 0);
            if !r.ok {
                cur = t;
                last_err = r.stderr_head;
            } else {
                i += 1;
            }
        }
        let sig = format!("c19:{}:build-fails:{}", k, if cur.is_empty() { "no-features".to_string() } else { cur.join("+") });
        if reported.insert(sig.clone()) {
            c.fail(&sig, &format!("{} does not build with features [{}] (found with [{}]): {}", k, cur.join(" "), f.join(" "), last_err), json!({"crate": k, "features": cur, "found_with": f, "error": last_err}));
        }
    }
    // behaviour across configurations
    if replay.is_none() {
        let all: Vec<String> = ["vanilla", "tbc", "wrath", "sync", "tokio", "async-std", "encryption"].iter().map(|s| s.to_string()).collect();
        let mut configs: Vec<Vec<String>> = vec![all.clone(), vec!["vanilla".into(), "sync".into()], vec!["tbc".into(), "tokio".into(), "encryption".into()], vec!["wrath".into(), "async-std".into(), "encryption".into()]];
        let extra = tier.pick(1usize, 10);
        let mut runner = vcommon::runner(seed, 0xC19F, 1);
        let draws = proptest::collection::vec(proptest::prelude::any::<u16>(), extra).new_tree(&mut runner).map(|t| t.current()).unwrap_or_default();
        for d in draws {
            let mut f: Vec<String> = Vec::new();
            for (i, n) in ["vanilla", "tbc", "wrath", "sync", "tokio", "async-std", "encryption", "print-testcase", "chrono"].iter().enumerate() {
                if (d >> i) & 1 == 1 {
                    f.push(n.to_string());
                }
            }
            if !f.iter().any(|x| ["vanilla", "tbc", "wrath"].contains(&x.as_str())) {
                f.push(["vanilla", "tbc", "wrath"][(d as usize >> 9) % 3].to_string());
            }
            if !f.iter().any(|x| ["sync", "tokio", "async-std"].contains(&x.as_str())) {
                f.push(["sync", "tokio", "async-std"][(d as usize >> 11) % 3].to_string());
            }
            if !configs.contains(&f) {
                configs.push(f);
            }
        }
        // frames
        let u = match wowm_model::load_corpus(&vcommon::repo_root()) {
            Ok(u) => u,
            Err(e) => {
                eprintln!("C19: {}", e);
                return 2;
            }
        };
        let es = entries(&u);
        let mut lines = String::new();
        let mut n = 0usize;
        let per_entry = tier.pick(5usize, 40);
        let mut excluded = 0u64;
        let mut big_counts = 0u64;
        for e in &es {
            // recorded finding of C01 (size() <-> write_into_vec recursion aborts the process): excluded by construction
            if e.ns == Ns::World(Expansion::Wrath) && (e.name == "SMSG_COMPRESSED_MOVES" || e.name == "SMSG_MULTIPLE_MOVES") {
                excluded += 1;
                continue;
            }
            let encf = |tape: &[u8], forced: &BTreeMap<String, u32>| encode(&u, e, tape, forced);
            let mut ds = DirectedStats::default();
            let Ok(cases) = directed(&encf, &[], per_entry, &mut ds) else { continue };
            for (k, cs) in cases.iter().enumerate() {
                let f = &cs.enc.frame;
                if f.len() > 20_000 {
                    continue;
                }
                lines.push_str(&format!("{} {} {} {}\n", n, e.ns.text(), e.dir.name(), vcommon::hex(f)));
                n += 1;
                if k == 0 && f.len() > cs.enc.header_len {
                    // damaged variants: truncated by one byte, last byte changed
                    lines.push_str(&format!("{} {} {} {}\n", n, e.ns.text(), e.dir.name(), vcommon::hex(&f[..f.len() - 1])));
                    n += 1;
                    let mut g = f.clone();
                    let l = g.len() - 1;
                    g[l] ^= 0xFF;
                    lines.push_str(&format!("{} {} {} {}\n", n, e.ns.text(), e.dir.name(), vcommon::hex(&g)));
                    n += 1;
                    // counts and lengths announcing between 64 KiB and 8 MiB of elements: which error a configuration
                    // answers with (allocation limit, end of input) must not depend on the other features
                    for l in cs.enc.trace.iter().filter(|l| l.region == 0 && l.width >= 2 && matches!(l.role, wowm_model::walk::Role::LengthOf | wowm_model::walk::Role::StrLen)).take(3) {
                        for v in [0x4000u32, 0x2_0000, 0x40_0000] {
                            if l.width == 2 && v > 0xFFFF {
                                continue;
                            }
                            let mut g = f.clone();
                            let off = cs.enc.header_len + l.offset;
                            for i in 0..l.width.min(4) {
                                g[off + i] = (v >> (8 * i)) as u8;
                            }
                            lines.push_str(&format!("{} {} {} {}\n", n, e.ns.text(), e.dir.name(), vcommon::hex(&g)));
                            n += 1;
                            big_counts += 1;
                        }
                    }
                }
            }
        }
        // compressed containers: the same message with a payload of zeros that inflates to sizes around the allocation limits
        // (64 KiB and 8 MiB): whatever a configuration answers, every other configuration must answer the same
        let mut inflated = 0u64;
        for e in &es {
            if e.ns == Ns::World(Expansion::Wrath) && (e.name == "SMSG_COMPRESSED_MOVES" || e.name == "SMSG_MULTIPLE_MOVES") {
                continue;
            }
            let Ok(enc) = encode(&u, e, &[], &BTreeMap::new()) else { continue };
            let Some(reg) = enc.regions.iter().find(|r| r.parent == 0) else { continue };
            let body = enc.body();
            if reg.size_field_offset + 4 > body.len() {
                continue;
            }
            for size in [0xFFF0usize, 0xFFFF, 0x1_0000, 0x1_1170, 0x4_0000, 0x7F_FFFF, 0x80_0000] {
                let stream = miniz_oxide::deflate::compress_to_vec_zlib(&vec![0u8; size], 6);
                let mut b = body[..reg.size_field_offset].to_vec();
                b.extend_from_slice(&(size as u32).to_le_bytes());
                b.extend_from_slice(&stream);
                let Some(mut f) = header(e, b.len()) else { continue };
                f.extend_from_slice(&b);
                lines.push_str(&format!("{} {} {} {}\n", n, e.ns.text(), e.dir.name(), vcommon::hex(&f)));
                n += 1;
                inflated += 1;
            }
        }
        c.extra.insert("probe_frames_with_inflated_payloads".into(), json!(inflated));
        c.extra.insert("probe_frames_with_counts_between_the_allocation_limits".into(), json!(big_counts));
        // large server frames around the 2/3-byte Wrath header boundary (SMSG_WARDEN_DATA carries free bytes)
        for e in es.iter().filter(|e| e.name == "SMSG_WARDEN_DATA" && e.dir == Direction::Server) {
            for len in [0x7FFCusize, 0x7FFD, 0x7FFE, 0x8000, 0x9000] {
                if let Some(mut f) = header(e, len) {
                    f.extend(std::iter::repeat(0x5Au8).take(len));
                    lines.push_str(&format!("{} {} {} {}\n", n, e.ns.text(), e.dir.name(), vcommon::hex(&f)));
                    n += 1;
                }
            }
        }
        let frames_path = target_root().join("frames.txt");
        if std::fs::write(&frames_path, &lines).is_err() {
            return 2;
        }
        c.extra.insert("probe_frames".into(), json!(n));
        c.extra.insert("entries_excluded_for_the_recorded_C01_abort".into(), json!(excluded));
        let built: Vec<(Vec<String>, Result<(PathBuf, Vec<String>), String>)> = pool.install(|| {
            configs
                .par_iter()
                .map(|f| {
                    let slot = rayon::current_thread_index().unwrap_or(0);
                    let r = build_probe(f, slot).and_then(|bin| {
                        let o = Command::new(&bin).arg(&frames_path).output().map_err(|e| e.to_string())?;
                        if !o.status.success() {
                            return Err(format!("PROBE-CRASH probe exited with {:?}: {}", o.status.code(), String::from_utf8_lossy(&o.stderr).lines().last().unwrap_or("")));
                        }
                        Ok((bin, String::from_utf8_lossy(&o.stdout).lines().map(|s| s.to_string()).collect::<Vec<_>>()))
                    });
                    (f.clone(), r)
                })
                .collect()
        });
        let mut reference: Option<BTreeMap<String, String>> = None;
        let parse = |ls: &Vec<String>| -> BTreeMap<String, String> { ls.iter().filter(|l| !l.starts_with('#')).filter_map(|l| l.split_once(' ').map(|(a, b)| (a.to_string(), b.to_string()))).collect() };
        for (f, r) in &built {
            match r {
                Err(e) if e.starts_with("PROBE-CRASH") => c.inconclusive(&format!("probe built with [{}] crashed: {}", f.join(" "), e)),
                Err(e) => {
                    let sig = format!("c19:feature_probe:build-fails:{}", f.join("+"));
                    c.fail(&sig, &format!("the probe (public API only) does not build against the libraries with features [{}]: {}", f.join(" "), e), json!({"features": f, "error": e}));
                }
                Ok((_, ls)) => {
                    if f == &all {
                        reference = Some(parse(ls));
                    }
                }
            }
        }
        if let Some(refm) = &reference {
            for (f, r) in &built {
                let Ok((_, ls)) = r else { continue };
                if f == &all {
                    c.evals(refm.len() as u64);
                    continue;
                }
                let m = parse(ls);
                let mut compared = 0u64;
                let mut diffs = 0;
                for (id, out) in &m {
                    if out == "SKIP" || out == "NOIO" {
                        continue;
                    }
                    let Some(r0) = refm.get(id) else { continue };
                    if r0 == "SKIP" {
                        continue;
                    }
                    compared += 1;
                    // "<plain part> enc=<encrypted cycle>": the second part exists only with the encryption feature
                    let (om, oe) = out.split_once(" enc=").map(|(a, b)| (a, Some(b))).unwrap_or((out.as_str(), None));
                    let (rm, re) = r0.split_once(" enc=").map(|(a, b)| (a, Some(b))).unwrap_or((r0.as_str(), None));
                    let main_same = if om.starts_with("ERR") || rm.starts_with("ERR") { om.starts_with("ERR") && rm.starts_with("ERR") && err_class(om) == err_class(rm) } else { om == rm };
                    let enc_same = match (oe, re) {
                        (Some(a), Some(b)) => a == b,
                        _ => true,
                    };
                    let same = main_same && enc_same;
                    if !same {
                        diffs += 1;
                        if diffs <= 2 {
                            let frame_line = lines.lines().nth(id.parse::<usize>().unwrap_or(0)).unwrap_or("").to_string();
                            let sig = format!("c19:behaviour:{}:{}", f.join("+"), frame_line.split_whitespace().skip(1).take(2).collect::<Vec<_>>().join("/"));
                            let cut = |s: &str| if s.len() > 300 { format!("{}...", &s[..300]) } else { s.to_string() };
                            let (a, b) = if main_same { (format!("encrypted cycle: {}", oe.unwrap_or("")), format!("encrypted cycle: {}", re.unwrap_or(""))) } else { (cut(om), cut(rm)) };
                            c.fail(&sig, &format!("frame {} gives different results with features [{}] and with all features: {} vs {}", id, f.join(" "), a, b), json!({"features": f, "frame": cut(&frame_line), "this": cut(out), "all_features": cut(r0)}));
                        }
                    }
                }
                c.evals(compared);
                c.count_n(&format!("behaviour.frames-compared.{}", f.join("+")), compared);
                c.nontrivial(vcommon::fnv(f.join("+").as_bytes()));
            }
        } else {
            c.inconclusive("the all-features probe did not build: behaviour part not run");
        }
    }
    c.finish()
}
