//! C10: the intermediate representation is schema-valid and says what the wowm says.
//! Oracles: an RFC 8927 validator against the published schema, and a field-by-field differential
//! against the independent model's reading of the same wowm text; on the shipped corpus and on
//! proptest-chosen valid mutants of it.
use crate::gentree::*;
use crate::jtd;
use crate::mutate;
use crate::scratch::*;
use serde_json::{json, Value};
use std::collections::{BTreeMap, BTreeSet};
use vcommon::{Check, Tier};
use wowm_model::ast::*;
use wowm_model::parser::parse_int;
use wowm_model::resolve::*;

pub struct Failure {
    pub sig: String,
    pub object: String,
    pub what: String,
    pub detail: Value,
}

pub struct Stats {
    pub objects: u64,
    pub facts: u64,
    pub classes: BTreeMap<String, u64>,
    pub distinct: BTreeSet<u64>,
    pub samples: Vec<Value>,
    pub schema_nodes: u64,
}

impl Stats {
    pub fn new() -> Self {
        Stats { objects: 0, facts: 0, classes: BTreeMap::new(), distinct: BTreeSet::new(), samples: vec![], schema_nodes: 0 }
    }
    fn class(&mut self, k: &str) {
        *self.classes.entry(k.to_string()).or_insert(0) += 1;
    }
}

fn norm_ws(s: &str) -> String {
    s.split_whitespace().collect::<Vec<_>>().join(" ")
}

fn int_tag(name: &str) -> Option<&'static str> {
    Some(match name {
        "u8" => "U8",
        "i8" => "I8",
        "u16" => "U16",
        "i16" => "I16",
        "u32" => "U32",
        "i32" => "I32",
        "u64" => "U64",
        "i64" => "I64",
        "u48" => "U48",
        _ => return None,
    })
}

/// data_type_tag of a built-in that is not an integer, from the schema's mapping keys
fn builtin_tag(name: &str) -> Option<&'static str> {
    Some(match name {
        "f32" => "FloatingPoint",
        "Bool" | "Bool32" => "Bool",
        "Population" => "Population",
        "DateTime" => "DateTime",
        "PackedGuid" => "PackedGuid",
        "Guid" => "Guid",
        "NamedGuid" => "NamedGuid",
        "CString" => "CString",
        "SizedCString" => "SizedCString",
        "String" => "String",
        "Spell" => "Spell",
        "Spell16" => "Spell16",
        "Item" => "Item",
        "UpdateMask" => "UpdateMask",
        "AuraMask" => "AuraMask",
        "MonsterMoveSplines" => "MonsterMoveSpline",
        "AchievementDoneArray" => "AchievementDoneArray",
        "AchievementInProgressArray" => "AchievementInProgressArray",
        "EnchantMask" => "EnchantMask",
        "InspectTalentGearMask" => "InspectTalentGearMask",
        "Gold" => "Gold",
        "Level" => "Level",
        "Level16" => "Level16",
        "Level32" => "Level32",
        "VariableItemRandomProperty" => "VariableItemRandomProperty",
        "AddonArray" => "AddonArray",
        "IpAddress" => "IpAddress",
        "Seconds" => "Seconds",
        "Milliseconds" => "Milliseconds",
        "CacheMask" => "CacheMask",
        _ => return None,
    })
}

struct Cmp<'a> {
    t: &'a GenTree,
    ns: Ns,
    label: String,
    object: String,
    fails: Vec<Failure>,
    facts: u64,
}

impl<'a> Cmp<'a> {
    fn fail(&mut self, kind: &str, path: &str, what: String, ir: &Value) {
        let s = ir.to_string();
        self.fails.push(Failure { sig: format!("c10:{}:{}", self.label, kind), object: self.object.clone(), what: format!("{} {}: {}", self.label, path, what), detail: json!({"object": self.label, "path": path, "ir": if s.len() > 600 { format!("{}...", &s[..600]) } else { s }}) });
    }
    fn eq_str(&mut self, kind: &str, path: &str, ir: &Value, want: &str) {
        self.facts += 1;
        if ir.as_str() != Some(want) {
            self.fail(kind, path, format!("the wowm says {:?}, the IR says {}", want, ir), ir);
        }
    }

    fn comment_of(tags: &Tags, docs: &[String]) -> Vec<String> {
        let mut a: Vec<String> = docs.iter().map(|s| s.to_string()).collect();
        a.extend(tags.all("comment").into_iter().map(|s| s.to_string()));
        let mut b: Vec<String> = tags.all("comment").into_iter().map(|s| s.to_string()).collect();
        b.extend(docs.iter().map(|s| s.to_string()));
        vec![norm_ws(&a.join(" ")), norm_ws(&b.join(" "))]
    }

    fn member_tags(&mut self, path: &str, ir: &Value, tags: &Tags, docs: &[String]) {
        self.facts += 1;
        let want = Self::comment_of(tags, docs);
        match ir.get("comment").and_then(|c| c.as_str()) {
            Some(c) => {
                if !want.contains(&norm_ws(c)) {
                    self.fail("comment", path, format!("comment text differs: wowm {:?}, IR {:?}", want[0], c), ir);
                }
            }
            None => {
                if !want[0].is_empty() {
                    self.fail("comment", path, format!("comment {:?} of the wowm is missing", want[0]), ir);
                }
            }
        }
        for key in ["display", "maximum_length"] {
            self.facts += 1;
            // surrounding white space of a tag string is not specified by the language: compared trimmed
            let w = tags.get(key).map(|s| s.trim());
            let got = ir.get(key).and_then(|c| c.as_str()).map(|s| s.trim());
            if w != got {
                self.fail("member-tag", path, format!("tag {}: wowm {:?}, IR {:?}", key, w, got), ir);
            }
        }
        self.facts += 1;
        match (tags.get("valid_range"), ir.get("valid_range")) {
            (None, None) => {}
            (Some(w), Some(g)) => {
                let parts: Vec<&str> = w.split_whitespace().collect();
                if parts.len() != 2 || g["from"].as_str() != Some(parts[0]) || g["to"].as_str() != Some(parts[1]) {
                    self.fail("member-tag", path, format!("valid_range: wowm {:?}, IR {}", w, g), ir);
                }
            }
            (w, g) => self.fail("member-tag", path, format!("valid_range: wowm {:?}, IR {:?}", w, g), ir),
        }
    }

    fn object_tags(&mut self, ir: &Value, o: &Object, docs: &[String]) {
        // versions
        self.facts += 1;
        let mut want: Vec<String> = o.world.iter().map(|w| w.text()).collect();
        want.extend(o.login.iter().map(|l| match l {
            LoginVersion::All => "*".to_string(),
            LoginVersion::Specific(n) => n.to_string(),
        }));
        let mut got = ir_version_texts(ir);
        want.sort();
        want.dedup();
        got.sort();
        if want != got {
            self.fail("versions", "tags.version", format!("wowm versions {:?}, IR versions {:?}", want, got), ir);
        }
        self.facts += 1;
        let wantc = Self::comment_of(&o.tags, docs);
        let gotc = ir.get("comment").and_then(|c| c.as_str()).map(norm_ws).unwrap_or_default();
        if !wantc.contains(&gotc) {
            self.fail("comment", "tags.comment", format!("wowm {:?}, IR {:?}", wantc[0], gotc), ir);
        }
        for key in ["unimplemented", "compressed", "non_network_type", "used_in_update_mask"] {
            self.facts += 1;
            let w = o.tags.is_true(key);
            let g = ir.get(key).and_then(|b| b.as_bool()).unwrap_or(false);
            if w != g {
                self.fail("object-tag", &format!("tags.{}", key), format!("wowm {}, IR {}", w, g), ir);
            }
        }
    }

    fn definer(&mut self, ir: &Value, o: &Object, d: &Definer) {
        self.eq_str("definer-kind", "definer_type", &ir["definer_type"], if d.kind == DefinerKind::Enum { "Enum" } else { "Flag" });
        self.eq_str("integer-type", "integer_type", &ir["integer_type"], int_tag(&d.base).unwrap_or("?"));
        let es = ir["enumerators"].as_array().cloned().unwrap_or_default();
        self.facts += 1;
        if es.len() != d.members.len() {
            let a: Vec<&str> = d.members.iter().map(|m| m.name.as_str()).collect();
            let b: Vec<&str> = es.iter().filter_map(|e| e["name"].as_str()).collect();
            let missing: Vec<&&str> = a.iter().filter(|x| !b.contains(x)).collect();
            let extra: Vec<&&str> = b.iter().filter(|x| !a.contains(x)).collect();
            self.fail("enumerator-count", "enumerators", format!("wowm has {} enumerators, IR {}; missing {:?}, invented {:?}", a.len(), b.len(), missing, extra), &Value::Null);
        }
        for (i, (m, e)) in d.members.iter().zip(es.iter()).enumerate() {
            let p = format!("enumerators[{}]", i);
            self.eq_str("enumerator-name", &p, &e["name"], &m.name);
            let v = parse_int(&m.value_text);
            self.facts += 1;
            if e["value"]["value"].as_str().map(|s| s.to_string()) != v.map(|v| v.to_string()) {
                self.fail("enumerator-value", &format!("{}({})", p, m.name), format!("wowm value {} = {:?}, IR {}", m.value_text, v, e["value"]["value"]), e);
            }
            self.eq_str("enumerator-original", &format!("{}({}).original_string", p, m.name), &e["value"]["original_string"], &m.value_text);
            self.member_tags(&format!("{}({}).tags", p, m.name), &e["tags"], &m.tags, &m.comments);
        }
        self.object_tags(&ir["tags"], o, &d.comments);
        // usage relation: every container of the namespace that has a member of this type
        let mut want: BTreeMap<String, bool> = BTreeMap::new();
        for x in &self.t.u.objects {
            if !x.in_ns(self.ns) {
                continue;
            }
            if let Some(c) = x.container() {
                if self.t.u.lookup(self.ns, &d.name).map(|y| std::ptr::eq(y, o)).unwrap_or(false) {
                    let mut fs = Vec::new();
                    collect_fields(&c.members, &mut fs);
                    let uses = fs.iter().any(|f| matches!(&f.ty, TypeRef::Simple { name, .. } | TypeRef::Array { inner: name, .. } if *name == d.name));
                    if uses {
                        let mut ifs = Vec::new();
                        collect_ifs(&c.members, &mut ifs);
                        let in_if = ifs.iter().any(|i| fs.iter().any(|f| f.name == i.var() && matches!(&f.ty, TypeRef::Simple { name, .. } if *name == d.name)));
                        want.insert(c.name.clone(), in_if);
                    }
                }
            }
        }
        let got: BTreeSet<(String, bool)> = ir["objects_used_in"].as_array().cloned().unwrap_or_default().iter().map(|e| (e["object_name"].as_str().unwrap_or("").to_string(), e["definer_usage"].as_str() == Some("InIfStatement"))).collect();
        self.facts += 1;
        // the IR object may span several namespaces (the list is their union): every user of THIS namespace must be listed with its kind of use
        for (k, v) in &want {
            if !got.contains(&(k.clone(), *v)) {
                if got.iter().any(|(n, _)| n == k) {
                    self.fail("used-in-kind", "objects_used_in", format!("{}: wowm usage in-if={} in {}, the IR lists only the other kind", k, v, self.ns.text()), &Value::Null);
                } else {
                    self.fail("used-in-missing", "objects_used_in", format!("{} uses this type in {} but is not listed", k, self.ns.text()), &Value::Null);
                }
            }
        }
        // and nothing is invented: every listed user has such a member in some namespace of the IR object
        for (n, _) in &got {
            self.facts += 1;
            let exists = self.t.u.objects.iter().any(|x| x.name == *n && x.container().map(|c| { let mut fs = Vec::new(); collect_fields(&c.members, &mut fs); fs.iter().any(|f| matches!(&f.ty, TypeRef::Simple { name, .. } | TypeRef::Array { inner: name, .. } if *name == d.name)) }).unwrap_or(false));
            if !exists {
                self.fail("used-in-invented", "objects_used_in", format!("{} is listed as a user but no object of that name has a member of this type", n), &Value::Null);
            }
        }
    }

    fn data_type(&mut self, path: &str, ir: &Value, ty: &TypeRef, tags: &Tags) {
        let tag = ir["data_type_tag"].as_str().unwrap_or("");
        match ty {
            TypeRef::Simple { name, upcast } => {
                if let Some(it) = int_tag(name) {
                    self.eq_str("type", path, &ir["data_type_tag"], "Integer");
                    self.eq_str("integer-type", path, &ir["integer_type"], it);
                    return;
                }
                if let Some(bt) = builtin_tag(name) {
                    self.eq_str("type", path, &ir["data_type_tag"], bt);
                    if bt == "Bool" {
                        self.eq_str("integer-type", path, &ir["integer_type"], if name == "Bool32" { "U32" } else { "U8" });
                    }
                    return;
                }
                match self.t.u.lookup(self.ns, name) {
                    None => self.fail("type", path, format!("type {} does not resolve in {}", name, self.ns.text()), ir),
                    Some(obj) => match &obj.def {
                        Def::Definer(d) => {
                            self.eq_str("type", path, &ir["data_type_tag"], if d.kind == DefinerKind::Enum { "Enum" } else { "Flag" });
                            self.eq_str("type-name", path, &ir["type_name"], name);
                            let wire = upcast.as_deref().unwrap_or(&d.base);
                            self.eq_str("integer-type", path, &ir["integer_type"], int_tag(wire).unwrap_or("?"));
                            self.facts += 1;
                            if ir["upcast"].as_bool() != Some(upcast.is_some()) {
                                self.fail("upcast", path, format!("wowm upcast {:?}, IR {}", upcast, ir["upcast"]), ir);
                            }
                        }
                        Def::Container(c) => {
                            self.eq_str("type", path, &ir["data_type_tag"], "Struct");
                            self.eq_str("type-name", path, &ir["struct_data"]["name"], &c.name);
                            // the inlined copy describes the same struct
                            let obj_i = self.t.u.lookup_idx(self.ns, name).unwrap();
                            self.container_body(&format!("{}.struct_data", path), &ir["struct_data"], obj_i, false);
                        }
                    },
                }
            }
            TypeRef::Array { inner, size } => {
                self.eq_str("type", path, &ir["data_type_tag"], "Array");
                if tag != "Array" {
                    return;
                }
                self.facts += 1;
                if ir["compressed"].as_bool() != Some(tags.is_true("compressed")) {
                    self.fail("array-compressed", path, format!("wowm compressed={}, IR {}", tags.is_true("compressed"), ir["compressed"]), ir);
                }
                let s = &ir["size"];
                match size {
                    ArraySize::Fixed(n) => {
                        self.eq_str("array-size-kind", path, &s["array_size_tag"], "Fixed");
                        self.eq_str("array-size", path, &s["size"], &n.to_string());
                    }
                    ArraySize::Variable(v) => {
                        self.eq_str("array-size-kind", path, &s["array_size_tag"], "Variable");
                        self.eq_str("array-size", path, &s["size"], v);
                    }
                    ArraySize::Endless => self.eq_str("array-size-kind", path, &s["array_size_tag"], "Endless"),
                }
                let it = &ir["inner_type"];
                if let Some(i) = int_tag(inner) {
                    self.eq_str("array-inner", path, &it["array_type_tag"], "Integer");
                    self.eq_str("array-inner", path, &it["integer_type"], i);
                } else if matches!(inner.as_str(), "CString" | "Guid" | "PackedGuid" | "Spell") {
                    self.eq_str("array-inner", path, &it["array_type_tag"], inner);
                } else {
                    self.eq_str("array-inner", path, &it["array_type_tag"], "Struct");
                    self.eq_str("array-inner", path, &it["struct_data"]["name"], inner);
                    if let Some(obj_i) = self.t.u.lookup_idx(self.ns, inner) {
                        if self.t.u.objects[obj_i].container().is_some() {
                            self.container_body(&format!("{}.inner", path), &it["struct_data"], obj_i, false);
                        }
                    }
                }
            }
        }
    }

    fn enumerators_of_var(&self, c: &Container, var: &str) -> Option<(&'a Definer, Vec<String>)> {
        let mut fs = Vec::new();
        collect_fields(&c.members, &mut fs);
        let f = fs.iter().find(|f| f.name == var)?;
        let TypeRef::Simple { name, .. } = &f.ty else { return None };
        let d = self.t.u.lookup(self.ns, name)?.definer()?;
        Some((d, d.members.iter().map(|m| m.name.clone()).collect()))
    }

    fn members(&mut self, path: &str, ir: &[Value], members: &[Member], c: &Container) {
        // optional statements are reported separately
        let want: Vec<&Member> = members.iter().filter(|m| !matches!(m, Member::Optional(_) | Member::Unimplemented)).collect();
        self.facts += 1;
        if want.len() != ir.len() {
            let names: Vec<String> = want.iter().map(|m| match m {
                Member::Field(f) => f.name.clone(),
                Member::If(i) => format!("if({})", i.var()),
                _ => String::new(),
            }).collect();
            let got: Vec<String> = ir.iter().map(|m| m["struct_member_content"]["name"].as_str().map(|s| s.to_string()).unwrap_or_else(|| format!("if({})", m["struct_member_content"]["variable_name"].as_str().unwrap_or("?")))).collect();
            self.fail("member-count", path, format!("wowm members {:?}, IR members {:?}", names, got), &Value::Null);
            return;
        }
        for (i, (m, v)) in want.iter().zip(ir.iter()).enumerate() {
            let content = &v["struct_member_content"];
            match m {
                Member::Field(f) => {
                    let p = format!("{}[{}]({})", path, i, f.name);
                    self.eq_str("member-kind", &p, &v["struct_member_tag"], "Definition");
                    self.eq_str("member-name", &p, &content["name"], &f.name);
                    self.data_type(&format!("{}.data_type", p), &content["data_type"], &f.ty, &f.tags);
                    self.member_tags(&format!("{}.tags", p), &content["tags"], &f.tags, &f.comments);
                    // constant value
                    self.facts += 1;
                    match (&f.value, content.get("constant_value")) {
                        (Some(val), _) if val == "self.size" => {
                            if !content["constant_value"].is_null() {
                                self.fail("constant", &p, "self.size member carries a constant".into(), content);
                            }
                            // bytes up to and including the size member (everything before it is of fixed size)
                            let mut sizer = wowm_model::sizes::Sizer::new(&self.t.u, self.ns);
                            let mut before = 0u128;
                            let mut exact = true;
                            for m in &c.members {
                                if let Member::Field(g) = m {
                                    if let TypeRef::Simple { name, upcast } = &g.ty {
                                        let iv = sizer.type_interval(name, upcast.as_deref());
                                        exact &= iv.min == iv.max;
                                        before += iv.min;
                                    } else {
                                        exact = false;
                                    }
                                    if g.name == f.name {
                                        break;
                                    }
                                } else {
                                    exact = false;
                                    break;
                                }
                            }
                            if exact && content["size_of_fields_before_size"].as_u64().map(|x| x as u128) != Some(before) {
                                self.fail("self-size", &p, format!("the size member and what precedes it occupy {} bytes, IR size_of_fields_before_size is {}", before, content["size_of_fields_before_size"]), content);
                            }
                            if content["size_of_fields_before_size"].is_null() {
                                self.fail("self-size", &p, "self.size member has no size_of_fields_before_size".into(), content);
                            }
                        }
                        (Some(val), Some(cv)) if !cv.is_null() => {
                            self.eq_str("constant", &format!("{}.constant_value.original_string", p), &cv["original_string"], val);
                            let num = constant_number(self.t, self.ns, &f.ty, val);
                            if let Some(n) = num {
                                self.eq_str("constant", &format!("{}.constant_value.value", p), &cv["value"], &n.to_string());
                            }
                        }
                        (Some(val), _) => self.fail("constant", &p, format!("constant {} of the wowm is missing", val), content),
                        (None, Some(cv)) if !cv.is_null() => self.fail("constant", &p, format!("IR invents constant {}", cv), content),
                        _ => {}
                    }
                    // used_in_if / used_as_size_in
                    let mut ifs = Vec::new();
                    collect_ifs(&c.members, &mut ifs);
                    let used_in_if = ifs.iter().any(|i| i.var() == f.name);
                    self.facts += 1;
                    if content["used_in_if"].as_bool() != Some(used_in_if) {
                        self.fail("used-in-if", &p, format!("wowm: tested by an if = {}, IR {}", used_in_if, content["used_in_if"]), content);
                    }
                    let mut fs = Vec::new();
                    collect_fields(&c.members, &mut fs);
                    let sized: Option<&str> = fs.iter().find(|g| matches!(&g.ty, TypeRef::Array { size: ArraySize::Variable(v), .. } if *v == f.name)).map(|g| g.name.as_str());
                    self.facts += 1;
                    if content["used_as_size_in"].as_str() != sized {
                        self.fail("used-as-size", &p, format!("wowm: length of {:?}, IR {}", sized, content["used_as_size_in"]), content);
                    }
                }
                Member::If(ifs) => {
                    let p = format!("{}[{}](if {})", path, i, ifs.var());
                    self.eq_str("member-kind", &p, &v["struct_member_tag"], "IfStatement");
                    self.if_statement(&p, content, ifs, c);
                }
                _ => {}
            }
        }
    }

    fn if_statement(&mut self, p: &str, ir: &Value, ifs: &IfStmt, c: &Container) {
        self.eq_str("if-variable", p, &ir["variable_name"], ifs.var());
        let Some((d, all)) = self.enumerators_of_var(c, ifs.var()) else {
            self.fail("if-variable", p, "variable does not resolve to a definer".into(), ir);
            return;
        };
        self.eq_str("if-definer-kind", p, &ir["definer_type"], if d.kind == DefinerKind::Enum { "Enum" } else { "Flag" });
        // branch list as the IR presents it: first branch, then else-ifs, then a synthetic branch for a non-empty else
        let cond_values = |b: &Branch| -> Vec<String> {
            if b.conds.len() == 1 && b.conds[0].op == CondOp::Ne {
                all.iter().filter(|n| **n != b.conds[0].value).cloned().collect()
            } else {
                b.conds.iter().map(|c| c.value.clone()).collect()
            }
        };
        let mut want: Vec<(Vec<String>, &Vec<Member>)> = vec![(cond_values(&ifs.first), &ifs.first.body)];
        for b in &ifs.else_ifs {
            want.push((cond_values(b), &b.body));
        }
        if let Some(e) = &ifs.else_body {
            let nonempty = e.iter().any(|m| !matches!(m, Member::Unimplemented));
            if nonempty {
                let used: BTreeSet<String> = want.iter().flat_map(|(v, _)| v.iter().cloned()).collect();
                want.push((all.iter().filter(|n| !used.contains(*n)).cloned().collect(), e));
            }
        }
        let mut got: Vec<&Value> = vec![ir];
        for e in ir["else_if_statements"].as_array().map(|a| a.iter().collect::<Vec<_>>()).unwrap_or_default() {
            got.push(e);
        }
        self.facts += 1;
        if got.len() != want.len() {
            self.fail("branch-count", p, format!("wowm has {} branches (incl. else), IR {}", want.len(), got.len()), &Value::Null);
            return;
        }
        for (k, ((vals, body), g)) in want.iter().zip(got.iter()).enumerate() {
            let bp = format!("{}.branch[{}]", p, k);
            let gv: Vec<String> = g["values"].as_array().cloned().unwrap_or_default().iter().filter_map(|x| x.as_str().map(|s| s.to_string())).collect();
            self.facts += 1;
            if &gv != vals {
                self.fail("condition-values", &bp, format!("wowm condition enumerators {:?}, IR {:?}", vals, gv), &Value::Null);
            }
            if k > 0 {
                self.eq_str("if-variable", &bp, &g["variable_name"], ifs.var());
                self.facts += 1;
                if !g["else_if_statements"].as_array().map(|a| a.is_empty()).unwrap_or(true) {
                    self.fail("branch-count", &bp, "nested else-if list inside an else-if".into(), &Value::Null);
                }
            }
            let gm = g["members"].as_array().cloned().unwrap_or_default();
            self.members(&format!("{}.members", bp), &gm, body, c);
        }
    }

    /// members, optional, object kind of a container (also used for the inlined struct copies)
    fn container_body(&mut self, path: &str, ir: &Value, obj_i: usize, top: bool) {
        let o = &self.t.u.objects[obj_i];
        let Some(c) = o.container() else { return };
        let want_tag = match c.kind {
            ContainerKind::Struct => "Struct",
            ContainerKind::CLogin => "CLogin",
            ContainerKind::SLogin => "SLogin",
            ContainerKind::Smsg => "SMsg",
            ContainerKind::Cmsg => "CMsg",
            ContainerKind::Msg => "Msg",
        };
        self.eq_str("container-kind", &format!("{}.object_type", path), &ir["object_type"]["container_type_tag"], want_tag);
        self.facts += 1;
        let want_op = c.opcode_text.as_deref().and_then(parse_int);
        let got_op = ir["object_type"]["opcode"].as_i64().map(|x| x as i128);
        if want_op != got_op {
            self.fail("opcode", &format!("{}.object_type.opcode", path), format!("wowm opcode {:?}, IR {:?}", want_op, got_op), &ir["object_type"]);
        }
        let gm = ir["members"].as_array().cloned().unwrap_or_default();
        self.members(&format!("{}.members", path), &gm, &c.members, c);
        // optional
        let opt = c.members.iter().find_map(|m| if let Member::Optional(o) = m { Some(o) } else { None });
        self.facts += 1;
        match (opt, ir.get("optional")) {
            (None, Some(v)) if !v.is_null() => self.fail("optional", path, "IR invents an optional block".into(), v),
            (Some(o), Some(v)) if !v.is_null() => {
                self.eq_str("optional", &format!("{}.optional.name", path), &v["name"], &o.name);
                let gm = v["members"].as_array().cloned().unwrap_or_default();
                self.members(&format!("{}.optional.members", path), &gm, &o.body, c);
            }
            (Some(o), _) => self.fail("optional", path, format!("optional block {} of the wowm is missing", o.name), &Value::Null),
            _ => {}
        }
        // manual size field
        let mut fs = Vec::new();
        collect_fields(&c.members, &mut fs);
        let has_size = fs.iter().any(|f| f.value.as_deref() == Some("self.size"));
        self.facts += 1;
        if ir["has_manual_size_field"].as_bool() != Some(has_size) {
            self.fail("self-size", path, format!("wowm has self.size member = {}, IR has_manual_size_field = {}", has_size, ir["has_manual_size_field"]), &Value::Null);
        }
        if top {
            self.object_tags(&ir["tags"], o, &c.comments);
            // file position
            self.eq_str("file", &format!("{}.file_info.file_name", path), &ir["file_info"]["file_name"], self.t.u.path_of(o));
            self.facts += 1;
            if ir["file_info"]["start_position"].as_u64() != Some(c.span.line as u64) {
                self.fail("file-position", path, format!("wowm object starts at line {}, IR start_position {}", c.span.line, ir["file_info"]["start_position"]), &ir["file_info"]);
            }
            // manual_size_subtraction: login messages with a size member subtract everything up to and including it
            self.facts += 1;
            let want_sub = if c.kind.is_login() { fs.iter().find(|f| f.value.as_deref() == Some("self.size")).map(|_| ()) } else { None };
            if want_sub.is_some() != !ir["manual_size_subtraction"].is_null() {
                self.fail("self-size", path, format!("login message with self.size member: {}, IR manual_size_subtraction: {}", want_sub.is_some(), ir["manual_size_subtraction"]), &Value::Null);
            }
        }
    }

    fn tests(&mut self, ir: &Value, o: &Object) {
        let want: Vec<&TestObj> = self.t.u.tests.iter().filter(|t| t.case.subject == o.name && t.in_ns(self.ns)).collect();
        let got: Vec<Value> = ir["tests"].as_array().cloned().unwrap_or_default().into_iter().filter(|g| ir_namespaces(&g["tags"]).contains(&self.ns)).collect();
        self.facts += 1;
        if want.len() != got.len() {
            self.fail("test-count", "tests", format!("wowm has {} tests for this object in {}, IR {}", want.len(), self.ns.text(), got.len()), &Value::Null);
            return;
        }
        // same order as the source
        for (i, (w, g)) in want.iter().zip(got.iter()).enumerate() {
            let p = format!("tests[{}]", i);
            self.eq_str("test-subject", &p, &g["subject"], &w.case.subject);
            let gb: Vec<u8> = g["raw_bytes"].as_array().cloned().unwrap_or_default().iter().filter_map(|b| b.as_u64().map(|b| b as u8)).collect();
            self.facts += 1;
            if gb != w.bytes {
                self.fail("test-bytes", &p, format!("wowm test vector has {} bytes, IR {} (first difference at {:?})", w.bytes.len(), gb.len(), gb.iter().zip(w.bytes.iter()).position(|(a, b)| a != b)), &Value::Null);
            }
            let gmem = g["members"].as_array().cloned().unwrap_or_default();
            let wn: Vec<&str> = w.case.fields.iter().map(|f| f.name.as_str()).collect();
            let gn: Vec<&str> = gmem.iter().filter_map(|m| m["variable_name"].as_str()).collect();
            self.facts += 1;
            if wn != gn {
                self.fail("test-members", &p, format!("wowm test members {:?}, IR {:?}", wn, gn), &Value::Null);
            } else {
                for (f, m) in w.case.fields.iter().zip(gmem.iter()) {
                    self.test_value(&format!("{}.{}", p, f.name), &m["value"], &f.value);
                }
            }
        }
    }

    fn test_value(&mut self, p: &str, ir: &Value, v: &TestValue) {
        let tag = ir["test_value_tag"].as_str().unwrap_or("");
        let content = &ir["content"];
        self.facts += 1;
        match v {
            TestValue::Scalar(parts) => match tag {
                "Integer" | "DateTime" | "Guid" | "IpAddress" | "Seconds" | "Milliseconds" | "Gold" | "Level" | "Enum" => {
                    let text = parts.join(" | ");
                    let orig = content["original_string"].as_str().unwrap_or("");
                    if norm_ws(orig) != norm_ws(&text) && parts.len() == 1 {
                        self.fail("test-value", p, format!("wowm value {:?}, IR original_string {:?}", text, orig), ir);
                    }
                    if parts.len() == 1 {
                        if let Some(n) = parse_int(&parts[0]) {
                            if content["value"].as_str() != Some(&n.to_string()) {
                                self.fail("test-value", p, format!("wowm value {} = {}, IR value {}", parts[0], n, content["value"]), ir);
                            }
                        }
                    }
                }
                "Bool" => {
                    let w = parts.first().map(|s| s.eq_ignore_ascii_case("true") || s == "1");
                    if content.as_bool() != w {
                        self.fail("test-value", p, format!("wowm {:?}, IR {}", parts, content), ir);
                    }
                }
                "String" => {
                    if content.as_str() != parts.first().map(|s| s.trim_matches('"')) {
                        self.fail("test-value", p, format!("wowm string {:?}, IR {}", parts, content), ir);
                    }
                }
                "Flag" => {
                    let g: Vec<String> = content.as_array().cloned().unwrap_or_default().iter().filter_map(|x| x.as_str().map(|s| s.to_string())).collect();
                    if &g != parts {
                        self.fail("test-value", p, format!("wowm flag set {:?}, IR {:?}", parts, g), ir);
                    }
                }
                "FloatingPoint" | "Population" => {
                    let w: Option<f64> = parts.first().and_then(|s| s.parse::<f64>().ok());
                    let g = if tag == "Population" { content.as_f64() } else { content["value"].as_f64() };
                    match (w, g) {
                        (Some(a), Some(b)) if (a - b).abs() <= 1e-6 * a.abs().max(1.0) => {}
                        _ => self.fail("test-value", p, format!("wowm float {:?}, IR {}", parts, content), ir),
                    }
                }
                _ => {
                    self.facts -= 1;
                }
            },
            TestValue::Array(items) => {
                if tag != "Array" {
                    self.fail("test-value", p, format!("wowm array value, IR tag {}", tag), ir);
                } else {
                    let g: Vec<String> = content["values"].as_array().cloned().unwrap_or_default().iter().filter_map(|x| x.as_str().map(|s| s.to_string())).collect();
                    if g.len() != items.len() || g.iter().zip(items.iter()).any(|(a, b)| a != b && a != b.trim_matches('"') && (parse_int(a).is_none() || parse_int(a) != parse_int(b))) {
                        self.fail("test-value", p, format!("wowm array {:?}, IR {:?}", items, g), ir);
                    }
                }
            }
            TestValue::Sub(fields) => {
                if tag != "SubObject" {
                    if tag != "UpdateMask" && tag != "MonsterMoveSpline" && !tag.is_empty() {
                        self.fail("test-value", p, format!("wowm sub-object value, IR tag {}", tag), ir);
                    }
                } else {
                    let gm = content["members"].as_array().cloned().unwrap_or_default();
                    let wn: Vec<&str> = fields.iter().map(|f| f.name.as_str()).collect();
                    let gn: Vec<&str> = gm.iter().filter_map(|m| m["variable_name"].as_str()).collect();
                    if wn != gn {
                        self.fail("test-members", p, format!("wowm sub-object members {:?}, IR {:?}", wn, gn), ir);
                    } else {
                        for (f, m) in fields.iter().zip(gm.iter()) {
                            self.test_value(&format!("{}.{}", p, f.name), &m["value"], &f.value);
                        }
                    }
                }
            }
            TestValue::ArrayOfSubs(rows) => {
                if tag != "ArrayOfSubObject" {
                    if tag != "UpdateMask" && tag != "MonsterMoveSpline" && !tag.is_empty() {
                        self.fail("test-value", p, format!("wowm array of sub-objects, IR tag {}", tag), ir);
                    }
                } else {
                    let gm = content["members"].as_array().cloned().unwrap_or_default();
                    if gm.len() != rows.len() {
                        self.fail("test-members", p, format!("wowm has {} elements, IR {}", rows.len(), gm.len()), ir);
                    } else {
                        for (k, (row, g)) in rows.iter().zip(gm.iter()).enumerate() {
                            let ga = g.as_array().cloned().unwrap_or_default();
                            let wn: Vec<&str> = row.iter().map(|f| f.name.as_str()).collect();
                            let gn: Vec<&str> = ga.iter().filter_map(|m| m["variable_name"].as_str()).collect();
                            if wn != gn {
                                self.fail("test-members", &format!("{}[{}]", p, k), format!("wowm members {:?}, IR {:?}", wn, gn), ir);
                            } else {
                                for (f, m) in row.iter().zip(ga.iter()) {
                                    self.test_value(&format!("{}[{}].{}", p, k, f.name), &m["value"], &f.value);
                                }
                            }
                        }
                    }
                }
            }
        }
    }
}

/// numeric value of a member constant: a number, a 4-character string literal, or an enumerator name
fn constant_number(t: &GenTree, ns: Ns, ty: &TypeRef, val: &str) -> Option<i128> {
    if let Some(n) = parse_int(val) {
        return Some(n);
    }
    if let TypeRef::Simple { name, .. } = ty {
        if let Some(d) = t.u.lookup(ns, name).and_then(|o| o.definer()) {
            return d.members.iter().find(|m| m.name == val).and_then(|m| parse_int(&m.value_text));
        }
    }
    None
}

pub fn collect_fields<'a>(members: &'a [Member], out: &mut Vec<&'a Field>) {
    for m in members {
        match m {
            Member::Field(f) => out.push(f),
            Member::If(i) => {
                for b in i.branches() {
                    collect_fields(&b.body, out);
                }
                if let Some(e) = &i.else_body {
                    collect_fields(e, out);
                }
            }
            Member::Optional(o) => collect_fields(&o.body, out),
            Member::Unimplemented => {}
        }
    }
}

pub fn collect_ifs<'a>(members: &'a [Member], out: &mut Vec<&'a IfStmt>) {
    for m in members {
        match m {
            Member::If(i) => {
                out.push(i);
                for b in i.branches() {
                    collect_ifs(&b.body, out);
                }
                if let Some(e) = &i.else_body {
                    collect_ifs(e, out);
                }
            }
            Member::Optional(o) => collect_ifs(&o.body, out),
            _ => {}
        }
    }
}

pub fn compare(t: &GenTree, schema: &Value, stats: &mut Stats) -> Vec<Failure> {
    let mut fails = Vec::new();
    // 1. schema validity
    let mut v = jtd::Validator::new(schema);
    v.validate(&t.ir);
    stats.schema_nodes += v.nodes;
    for e in v.errors.iter().take(20) {
        // the path without array indices identifies the defect
        let generic: String = e.instance_path.split('/').map(|p| if p.chars().all(|c| c.is_ascii_digit()) && !p.is_empty() { "*" } else { p }).collect::<Vec<_>>().join("/");
        fails.push(Failure { sig: format!("c10:schema:{}:{}", generic, e.schema_path), object: String::new(), what: format!("IR is not valid against the published schema at {} (schema {}): {}", e.instance_path, e.schema_path, e.what), detail: json!({"instance_path": e.instance_path, "schema_path": e.schema_path, "what": e.what}) });
    }
    // 2. the object sets per namespace
    let irobjs = ir_objects(&t.ir);
    for ns in Ns::all() {
        let section = if matches!(ns, Ns::World(_)) { "world" } else { "login" };
        let mut want: BTreeMap<(String, &'static str), usize> = BTreeMap::new();
        for (i, o) in t.u.objects.iter().enumerate() {
            if !o.in_ns(ns) {
                continue;
            }
            let kind = match &o.def {
                Def::Definer(d) => if d.kind == DefinerKind::Enum { "enums" } else { "flags" },
                Def::Container(c) => if c.kind == ContainerKind::Struct { "structs" } else { "messages" },
            };
            want.insert((o.name.clone(), kind), i);
        }
        let mut got: BTreeMap<(String, &'static str), Vec<&IrObject>> = BTreeMap::new();
        for o in &irobjs {
            if o.section == section && ir_namespaces(&o.v["tags"]).contains(&ns) {
                got.entry((o.name().to_string(), o.kind)).or_default().push(o);
            }
        }
        for ((name, kind), _) in &want {
            stats.facts += 1;
            if !got.contains_key(&(name.clone(), *kind)) {
                // structs of the update mask are described inside the update mask table of their expansion
                if *kind == "structs" && t.u.objects[want[&(name.clone(), *kind)]].tags.is_true("used_in_update_mask") {
                    if let Ns::World(e) = ns {
                        let tab = t.ir[format!("{}_update_mask", e.name())].as_array().cloned().unwrap_or_default();
                        if let Some(us) = tab.iter().map(|f| &f["data_type"]["content"]["update_mask_struct"]).find(|u| u["name"].as_str() == Some(name.as_str())) {
                            let c = t.u.objects[want[&(name.clone(), *kind)]].container().unwrap();
                            let mut fs = Vec::new();
                            collect_fields(&c.members, &mut fs);
                            // constant (padding) members occupy words without a name in this word-wise layout
                            let wn: Vec<&str> = fs.iter().filter(|f| f.value.is_none()).map(|f| f.name.as_str()).collect();
                            let gn: Vec<String> = us["members"].as_array().cloned().unwrap_or_default().iter().flat_map(|w| w.as_array().cloned().unwrap_or_default()).filter_map(|m| m["member"]["name"].as_str().map(|s| s.to_string())).collect();
                            stats.facts += 1;
                            if wn.iter().map(|s| s.to_string()).collect::<Vec<_>>() != gn {
                                fails.push(Failure { sig: format!("c10:{}/{}:update-mask-struct-members", ns.text(), name), object: name.clone(), what: format!("update mask struct {}: wowm members {:?}, IR {:?}", name, wn, gn), detail: json!({}) });
                            }
                            continue;
                        }
                    }
                }
                fails.push(Failure { sig: format!("c10:{}/{}:object-missing", ns.text(), name), object: name.clone(), what: format!("{} {} of the wowm ({}) is not in the IR", kind, name, ns.text()), detail: json!({"object": name, "ns": ns.text()}) });
            }
        }
        for ((name, kind), v) in &got {
            stats.facts += 1;
            if !want.contains_key(&(name.clone(), *kind)) {
                fails.push(Failure { sig: format!("c10:{}/{}:object-invented", ns.text(), name), object: name.clone(), what: format!("IR lists {} {} for {} which the wowm does not define there", kind, name, ns.text()), detail: json!({"object": name, "ns": ns.text()}) });
            }
            if v.len() > 1 {
                fails.push(Failure { sig: format!("c10:{}/{}:object-duplicated", ns.text(), name), object: name.clone(), what: format!("IR lists {} {} {} times for {}", kind, name, v.len(), ns.text()), detail: json!({"object": name}) });
            }
        }
        // 3. content, object by object
        for ((name, kind), v) in &got {
            let Some(&oi) = want.get(&(name.clone(), *kind)) else { continue };
            let o = &t.u.objects[oi];
            let irv = v[0].v;
            let mut cmp = Cmp { t, ns, label: format!("{}/{}", ns.text(), name), object: name.clone(), fails: Vec::new(), facts: 0 };
            cmp.eq_str("name", "name", &irv["name"], name);
            match &o.def {
                Def::Definer(d) => cmp.definer(irv, o, d),
                Def::Container(_) => {
                    cmp.container_body("", irv, oi, true);
                    cmp.tests(irv, o);
                }
            }
            stats.objects += 1;
            stats.facts += cmp.facts;
            stats.class(&format!("kind.{}", kind));
            let shape = match &o.def {
                Def::Definer(d) => format!("d{}{}", d.members.len(), d.base),
                Def::Container(c) => {
                    let mut fs = Vec::new();
                    collect_fields(&c.members, &mut fs);
                    let mut ifs = Vec::new();
                    collect_ifs(&c.members, &mut ifs);
                    if !ifs.is_empty() {
                        stats.class("with-conditionals");
                    }
                    format!("c{}|{}|{}", fs.iter().map(|f| f.ty.display()).collect::<Vec<_>>().join(","), ifs.len(), c.kind.keyword())
                }
            };
            stats.distinct.insert(vcommon::fnv(shape.as_bytes()));
            if stats.samples.len() < 8 && cmp.facts > 60 && stats.objects % 97 == 0 {
                stats.samples.push(json!({"object": cmp.label, "facts_compared": cmp.facts, "source": t.u.path_of(o)}));
            }
            // one failure per (object, kind)
            let mut seen = BTreeSet::new();
            for f in cmp.fails {
                if seen.insert(f.sig.clone()) {
                    fails.push(f);
                }
            }
        }
    }
    // 5. objects embedded in the update mask tables: each must be the wowm object of that name IN THE TABLE'S OWN EXPANSION
    for ns in Ns::all() {
        let Ns::World(e) = ns else { continue };
        let section = format!("{}_update_mask", e.name());
        for f in t.ir[section.as_str()].as_array().cloned().unwrap_or_default() {
            let fname = format!("{}/{}_{}", section, f["object_type"].as_str().unwrap_or("?"), f["name"].as_str().unwrap_or("?"));
            let content = &f["data_type"]["content"];
            let us = &content["update_mask_struct"];
            if us.is_object() {
                stats.facts += 1;
                let name = us["name"].as_str().unwrap_or("").to_string();
                let mut cmp = Cmp { t, ns, label: format!("{}:{}", fname, name), object: name.clone(), fails: Vec::new(), facts: 0 };
                match t.u.lookup(ns, &name).and_then(|o| o.container().map(|c| (o, c))) {
                    None => cmp.fail("embedded-object-unknown", "update_mask_struct", format!("no struct {} in {}", name, ns.text()), &Value::Null),
                    Some((o, c)) => {
                        let mut fs = Vec::new();
                        collect_fields(&c.members, &mut fs);
                        // word-wise layout: constant (padding) members have no entry
                        let wn: Vec<&&Field> = fs.iter().filter(|f| f.value.is_none()).collect();
                        let gm: Vec<Value> = us["members"].as_array().cloned().unwrap_or_default().iter().flat_map(|w| w.as_array().cloned().unwrap_or_default()).collect();
                        cmp.facts += 1;
                        if wn.len() != gm.len() {
                            cmp.fail("embedded-struct-members", "update_mask_struct.members", format!("wowm {} ({}) has {} settable members, the IR {}", name, o.versions_text(), wn.len(), gm.len()), &Value::Null);
                        }
                        let mut sizer = wowm_model::sizes::Sizer::new(&t.u, ns);
                        for (w, g) in wn.iter().zip(gm.iter()) {
                            let p = format!("update_mask_struct.{}", w.name);
                            cmp.eq_str("embedded-member-name", &p, &g["member"]["name"], &w.name);
                            cmp.data_type(&p, &g["member"]["data_type"], &w.ty, &w.tags);
                            let bytes = match &w.ty {
                                TypeRef::Simple { name, upcast } => sizer.type_interval(name, upcast.as_deref()),
                                TypeRef::Array { inner, size: ArraySize::Fixed(n) } => sizer.type_interval(inner, None).times(*n as u128, *n as u128),
                                _ => wowm_model::sizes::Interval::new(0, u128::MAX),
                            };
                            cmp.facts += 1;
                            if bytes.is_constant() && g["size"].as_u64().map(|x| x as u128) != Some(bytes.min) {
                                cmp.fail("embedded-member-size", &p, format!("the wowm member is {} bytes, the IR says {}", bytes.min, g["size"]), g);
                            }
                        }
                        let whole = sizer.object_interval(t.u.lookup_idx(ns, &name).unwrap());
                        cmp.facts += 1;
                        if whole.is_constant() && (us["sizes"]["minimum_size"].as_u64().map(|x| x as u128) != Some(whole.min) || us["sizes"]["maximum_size"].as_u64().map(|x| x as u128) != Some(whole.max)) {
                            cmp.fail("embedded-struct-size", "update_mask_struct.sizes", format!("the wowm struct is {} bytes, the IR says {}", whole.min, us["sizes"]), &us["sizes"]);
                        }
                        cmp.object_tags(&us["tags"], o, &c.comments);
                    }
                }
                stats.facts += cmp.facts;
                stats.class("embedded.update_mask_struct");
                let mut seen = BTreeSet::new();
                for f in cmp.fails {
                    if seen.insert(f.sig.clone()) {
                        fails.push(f);
                    }
                }
            }
            let df = &content["definer"];
            if df.is_object() {
                stats.facts += 1;
                let name = df["name"].as_str().unwrap_or("").to_string();
                let mut cmp = Cmp { t, ns, label: format!("{}:{}", fname, name), object: name.clone(), fails: Vec::new(), facts: 0 };
                match t.u.lookup(ns, &name).and_then(|o| o.definer().map(|d| (o, d))) {
                    None => cmp.fail("embedded-object-unknown", "definer", format!("no enum or flag {} in {}", name, ns.text()), &Value::Null),
                    Some((o, d)) => cmp.definer(df, o, d),
                }
                stats.facts += cmp.facts;
                stats.class("embedded.definer");
                let mut seen = BTreeSet::new();
                for f in cmp.fails {
                    if seen.insert(f.sig.clone()) {
                        fails.push(f);
                    }
                }
            }
        }
    }
    // 4. opcode table of the login messages
    if let Some(tab) = t.ir["login_version_opcodes"].as_object() {
        for (name, v) in tab {
            stats.facts += 1;
            let want: BTreeSet<i128> = t.u.objects.iter().filter_map(|o| o.container()).filter(|c| c.kind.is_login() && c.name.strip_suffix("_Client").or(c.name.strip_suffix("_Server")).unwrap_or(&c.name) == name).filter_map(|c| c.opcode_text.as_deref().and_then(parse_int)).collect();
            if want.len() != 1 || v.as_i64().map(|x| x as i128) != want.iter().next().copied() {
                fails.push(Failure { sig: format!("c10:login_version_opcodes/{}:opcode", name), object: name.clone(), what: format!("login_version_opcodes[{}] = {} but the wowm gives {:?}", name, v, want), detail: json!({}) });
            }
        }
    }
    fails
}

pub fn run(tier: Tier, replay: Option<String>) -> i32 {
    let mut c = Check::new("C10", tier);
    c.rule = "one evaluation = one (object, namespace) pair of the IR compared fact by fact (name, kind, opcode, integer type, every enumerator name / value / original text, member order and types, array kind / length / element, upcasts, constants, every condition's enumerator set incl. != and else, optional blocks, tags, versions, comments, usage relation, file position, test vectors and their values) with the independent model's reading of the wowm text; plus RFC 8927 validation of the whole document against the published schema and the object sets per namespace in both directions. Non-trivial = object with members; distinct = member-type shape. The same comparison runs on valid mutants of the corpus chosen by the seed, where the IR must follow the edit.".into();
    let bin = match generator_binary() {
        Ok(b) => b,
        Err(e) => {
            eprintln!("C10: {}", e);
            return 2;
        }
    };
    let schema = vcommon::read_json(&vcommon::repo_root().join("intermediate_representation_schema.json"));
    let problems = jtd::check_schema(&schema);
    if !problems.is_empty() {
        c.fail("c10:schema-file:malformed", &format!("the published schema is not a well-formed JSON Typedef schema: {:?}", &problems[..problems.len().min(5)]), json!({"problems": problems}));
    }
    let scratch = match Scratch::new() {
        Ok(s) => s,
        Err(e) => {
            eprintln!("C10: {}", e);
            return 2;
        }
    };
    let base = match GenTree::generate(scratch, &bin) {
        Ok(t) => t,
        Err((_, run)) => {
            eprintln!("C10: generator failed on the unmodified tree: {:?} {}", run.status, run.stderr.lines().take(5).collect::<Vec<_>>().join(" | "));
            return 2;
        }
    };
    let mut stats = Stats::new();
    let base_fails = compare(&base, &schema, &mut stats);
    let base_sigs: BTreeSet<String> = base_fails.iter().map(|f| f.sig.clone()).collect();
    let mut reported = BTreeSet::new();
    if replay.is_none() {
        for f in base_fails {
            if reported.insert(f.sig.clone()) {
                c.fail(&f.sig, &f.what, f.detail);
            }
        }
    }
    let batches = tier.pick(6usize, 240);
    let per_batch = tier.pick(80usize, 100);
    let outcome = mutate::run_batches(&base.u, &bin, c.seed, 0x1010, batches, per_batch, mutate::ALL_KINDS, replay.as_deref(), |t, _batch| {
        let mut st = Stats::new();
        let f = compare(t, &schema, &mut st);
        (f.into_iter().filter(|f| !base_sigs.contains(&f.sig)).map(|f| mutate::MutFailure { sig: f.sig, object: f.object, what: f.what, detail: f.detail }).collect(), json!({"objects": st.objects, "facts": st.facts}))
    });
    for f in &outcome.failures {
        if reported.insert(f.sig.clone()) {
            c.fail(&f.sig, &f.what, f.detail.clone());
        }
    }
    for (k, v) in &outcome.classes {
        c.count_n(k, *v);
    }
    let mut mutant_facts = 0u64;
    for s in outcome.per_batch.iter() {
        stats.objects += s["objects"].as_u64().unwrap_or(0);
        mutant_facts += s["facts"].as_u64().unwrap_or(0);
    }
    for w in &outcome.inconclusive {
        c.inconclusive(w);
    }
    c.evals(stats.objects);
    for d in &stats.distinct {
        c.nontrivial(*d);
    }
    for (k, v) in &stats.classes {
        c.count_n(k, *v);
    }
    c.extra.insert("facts_compared_on_shipped_corpus".into(), json!(stats.facts));
    c.extra.insert("facts_compared_on_mutants".into(), json!(mutant_facts));
    c.extra.insert("schema_nodes_validated".into(), json!(stats.schema_nodes));
    c.extra.insert("mutants".into(), json!({"batches": outcome.batches_run, "mutations_applied": outcome.mutations_applied, "mutations_dropped_as_rejected": outcome.dropped}));
    for s in stats.samples {
        c.sample(s);
    }
    for s in outcome.samples {
        c.sample(s);
    }
    c.finish()
}
