//! Scratch copies of the repository tree for running the generator (built from /repo's current
//! sources with the verification hook, see genchecks/build_generator.sh). Scratch trees live under
//! the system temp directory, outside /repo and /verif, and are removed on drop.
use std::collections::BTreeMap;
use std::path::{Path, PathBuf};
use std::process::Command;

pub struct Scratch {
    pub root: PathBuf,
}

pub struct GenRun {
    pub status: Option<i32>,
    pub stdout: String,
    pub stderr: String,
    pub wall_s: f64,
}

pub fn generator_binary() -> Result<PathBuf, String> {
    let script = vcommon::verif_root().join("genchecks/build_generator.sh");
    let out = Command::new(&script).output().map_err(|e| format!("{}: {}", script.display(), e))?;
    if !out.status.success() {
        return Err(format!("generator build failed: {}", String::from_utf8_lossy(&out.stderr)));
    }
    let p = PathBuf::from(String::from_utf8_lossy(&out.stdout).trim().to_string());
    if !p.exists() {
        return Err(format!("generator binary {} missing", p.display()));
    }
    Ok(p)
}

static COUNTER: std::sync::atomic::AtomicUsize = std::sync::atomic::AtomicUsize::new(0);

impl Scratch {
    /// copy of /repo's working tree without build output and git data
    pub fn new() -> Result<Scratch, String> {
        let n = COUNTER.fetch_add(1, std::sync::atomic::Ordering::SeqCst);
        let root = std::env::temp_dir().join(format!("wm_verif_scratch_{}_{}", std::process::id(), n));
        let _ = std::fs::remove_dir_all(&root);
        std::fs::create_dir_all(&root).map_err(|e| e.to_string())?;
        let s = Scratch { root };
        s.sync_from_repo()?;
        Ok(s)
    }

    /// (re)establishes an exact copy of /repo's working tree (fast when little changed)
    pub fn sync_from_repo(&self) -> Result<(), String> {
        let src = format!("{}/", vcommon::repo_root().display());
        let st = Command::new("rsync")
            .args(["-a", "--delete", "--exclude", "/target", "--exclude", "/.git", "--exclude", "/examples", &src])
            .arg(format!("{}/", self.root.display()))
            .status()
            .map_err(|e| e.to_string())?;
        if !st.success() {
            return Err("rsync failed".into());
        }
        Ok(())
    }

    pub fn run_generator(&self, bin: &Path) -> GenRun {
        let t = std::time::Instant::now();
        let out = Command::new(bin).env("WOWM_VERIF_WORKSPACE", &self.root).env("RUST_BACKTRACE", "0").current_dir(&self.root).output();
        match out {
            Ok(o) => GenRun { status: o.status.code(), stdout: String::from_utf8_lossy(&o.stdout).to_string(), stderr: String::from_utf8_lossy(&o.stderr).to_string(), wall_s: t.elapsed().as_secs_f64() },
            Err(e) => GenRun { status: None, stdout: String::new(), stderr: e.to_string(), wall_s: 0.0 },
        }
    }

    pub fn path(&self, rel: &str) -> PathBuf {
        self.root.join(rel)
    }

    /// content hash of every file below the root: relative path -> (fnv hash, length)
    pub fn snapshot(&self) -> BTreeMap<String, (u64, u64)> {
        snapshot_dir(&self.root)
    }
}

impl Drop for Scratch {
    fn drop(&mut self) {
        let _ = std::fs::remove_dir_all(&self.root);
    }
}

pub fn snapshot_dir(root: &Path) -> BTreeMap<String, (u64, u64)> {
    fn walk(dir: &Path, root: &Path, out: &mut BTreeMap<String, (u64, u64)>) {
        let Ok(rd) = std::fs::read_dir(dir) else { return };
        for e in rd.flatten() {
            let p = e.path();
            let name = e.file_name();
            if dir == root && (name == "target" || name == ".git" || name == "examples") {
                continue;
            }
            if p.is_dir() {
                walk(&p, root, out);
            } else if let Ok(b) = std::fs::read(&p) {
                out.insert(p.strip_prefix(root).unwrap().to_string_lossy().to_string(), (vcommon::fnv(&b), b.len() as u64));
            }
        }
    }
    let mut out = BTreeMap::new();
    walk(root, root, &mut out);
    out
}

/// differences between two snapshots: (only in a, only in b, differing)
pub fn diff(a: &BTreeMap<String, (u64, u64)>, b: &BTreeMap<String, (u64, u64)>) -> (Vec<String>, Vec<String>, Vec<String>) {
    let only_a = a.keys().filter(|k| !b.contains_key(*k)).cloned().collect();
    let only_b = b.keys().filter(|k| !a.contains_key(*k)).cloned().collect();
    let differ = a.iter().filter(|(k, v)| b.get(*k).map(|w| w != *v).unwrap_or(false)).map(|(k, _)| k.clone()).collect();
    (only_a, only_b, differ)
}

/// the 0-byte snapshot placeholders of this sandbox (files the generator writes but whose committed content was emptied)
pub fn emptied_files() -> Vec<String> {
    std::fs::read_to_string("/root/.vp/EMPTIED_FILES.txt").map(|s| s.lines().map(|l| l.trim().to_string()).filter(|l| !l.is_empty()).collect()).unwrap_or_default()
}
