#!/usr/bin/env bash
# Maintainer helper (not used by checks): regenerates /repo in place with the generator built from
# /repo's working tree, then restores the 0-byte snapshot placeholders.
set -eu
BIN="$(/verif/genchecks/build_generator.sh)"
WOWM_VERIF_WORKSPACE=/repo "$BIN" > /verif/target/generator/regen.out 2>&1 || { tail -n 30 /verif/target/generator/regen.out; exit 1; }
cd /repo
for f in $(cat /root/.vp/EMPTIED_FILES.txt); do git checkout -- "$f" 2>/dev/null || true; done
git status --short | head -40
