#!/usr/bin/env bash
# Builds the generator (wow_message_parser) from /repo's current working tree, release mode, with the
# verification hook enabled, into /verif/target/generator. Prints the path of the binary.
set -eu
REPO="${VERIF_REPO:-/repo}"
TD="/verif/target/generator"
mkdir -p "$TD"
( cd "$REPO" && CARGO_NET_OFFLINE=true RUSTFLAGS="--cfg wowm_verif" cargo build --offline -q --release -p wow_message_parser --target-dir "$TD" ) >"$TD/build.log" 2>&1 || { echo "generator build failed, see $TD/build.log" >&2; tail -n 30 "$TD/build.log" >&2; exit 2; }
echo "$TD/release/wow_message_parser"
